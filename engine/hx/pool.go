package hx

import (
	"encoding/json"
	"regexp"
	"sort"

	"verif/engine/sx"
)

// KeyPool computes the concrete object-key pool for a schema document: every name the
// schema mentions (properties, required, dependent*, dependencies), for each
// patternProperties regexp one matching and one non-matching name, and one fresh name.
func KeyPool(docs []string, max int) []string {
	seen := map[string]bool{}
	var names []string
	add := func(s string) {
		if !seen[s] {
			seen[s] = true
			names = append(names, s)
		}
	}
	var patterns []string
	var walk func(v any)
	walk = func(v any) {
		switch x := v.(type) {
		case map[string]any:
			for _, kw := range []string{"properties", "dependentRequired", "dependentSchemas", "dependencies"} {
				if mm, ok := x[kw].(map[string]any); ok {
					ks := make([]string, 0, len(mm))
					for k := range mm {
						ks = append(ks, k)
					}
					sort.Strings(ks)
					for _, k := range ks {
						add(k)
						if lst, ok := mm[k].([]any); ok {
							for _, e := range lst {
								if s, ok := e.(string); ok {
									add(s)
								}
							}
						}
					}
				}
			}
			if req, ok := x["required"].([]any); ok {
				for _, e := range req {
					if s, ok := e.(string); ok {
						add(s)
					}
				}
			}
			if pp, ok := x["patternProperties"].(map[string]any); ok {
				for p := range pp {
					patterns = append(patterns, p)
				}
			}
			ks := make([]string, 0, len(x))
			for k := range x {
				ks = append(ks, k)
			}
			sort.Strings(ks)
			for _, k := range ks {
				if k == "enum" || k == "const" || k == "default" || k == "examples" {
					// object-valued constants contribute their keys too
					collectKeys(x[k], add)
					continue
				}
				walk(x[k])
			}
		case []any:
			for _, e := range x {
				walk(e)
			}
		}
	}
	for _, d := range docs {
		var v any
		if json.Unmarshal([]byte(d), &v) == nil {
			walk(v)
		}
	}
	sort.Strings(patterns)
	candidates := []string{"a", "b", "foo", "bar", "x1", "I_0", "S_1", "aaa", "z", "1", "é", ""}
	for _, p := range patterns {
		re, err := regexp.Compile(p)
		if err != nil {
			continue
		}
		hit, miss := false, false
		for _, n := range names {
			if re.MatchString(n) {
				hit = true
			} else {
				miss = true
			}
		}
		for _, c := range candidates {
			if !hit && re.MatchString(c) {
				add(c)
				hit = true
			}
			if !miss && !re.MatchString(c) {
				add(c)
				miss = true
			}
		}
	}
	// one fresh name that nothing mentions
	for _, c := range []string{"zz", "zz0", "zz1"} {
		if !seen[c] {
			fresh := true
			for _, p := range patterns {
				if re, err := regexp.Compile(p); err == nil && re.MatchString(c) {
					fresh = false
				}
			}
			if fresh {
				add(c)
				break
			}
		}
	}
	if max > 0 && len(names) > max {
		// keep mentioned names first (they are in front), always keep the last (fresh) one
		names = append(names[:max-1:max-1], names[len(names)-1])
	}
	sort.Strings(names)
	return names
}

func collectKeys(v any, add func(string)) {
	switch x := v.(type) {
	case map[string]any:
		ks := make([]string, 0, len(x))
		for k := range x {
			ks = append(ks, k)
		}
		sort.Strings(ks)
		for _, k := range ks {
			add(k)
			collectKeys(x[k], add)
		}
	case []any:
		for _, e := range x {
			collectKeys(e, add)
		}
	}
}

// TmplFor builds a template for the documents of a skeleton.
func TmplFor(docs []string, depth, maxLen, maxKeys int) *sx.Tmpl {
	return &sx.Tmpl{Depth: depth, MaxLen: maxLen, Keys: KeyPool(docs, maxKeys)}
}
