package hx

import (
	"encoding/json"
	"fmt"
	"reflect"
	"sort"
	"strings"
	"sync"

	"github.com/google/jsonschema-go/jsonschema"
)

// Document equivalence up to the documented normalisations (C05, second sentence): a schema
// document D that Unmarshal accepts is reproduced by Marshal as D' with
//   - no keyword that D does not have,
//   - every keyword of D except zero-valued ones (false, "", null, [], {}),
//   - the same value for every keyword, where subschemas are compared recursively and
//     true ~ {} and false ~ {"not": true|{}}; const/enum/default/examples and the values of
//     unknown keywords are compared exactly (as JSON values).
// This is a native observation on concrete documents (scaffold), run beside the
// solver-decided equivalence of validation behaviour.

type kwKind int

const (
	kwOther kwKind = iota
	kwSchema
	kwSchemaArray
	kwSchemaMap
	kwExact
)

var (
	vocabOnce sync.Once
	vocab     map[string]kwKind
)

func vocabulary() map[string]kwKind {
	vocabOnce.Do(func() {
		vocab = map[string]kwKind{}
		t := reflect.TypeOf(jsonschema.Schema{})
		sp := reflect.TypeOf((*jsonschema.Schema)(nil))
		for i := 0; i < t.NumField(); i++ {
			f := t.Field(i)
			name, _, _ := strings.Cut(f.Tag.Get("json"), ",")
			if name == "" || name == "-" {
				continue
			}
			k := kwOther
			switch {
			case f.Type == sp:
				k = kwSchema
			case f.Type.Kind() == reflect.Slice && f.Type.Elem() == sp:
				k = kwSchemaArray
			case f.Type.Kind() == reflect.Map && f.Type.Elem() == sp:
				k = kwSchemaMap
			}
			if old, ok := vocab[name]; !ok || old == kwOther {
				vocab[name] = k
			}
		}
		for _, n := range []string{"const", "enum", "default", "examples"} {
			vocab[n] = kwExact
		}
		// keywords the package decodes by hand in UnmarshalJSON
		for _, n := range []string{"type", "items", "dependencies"} {
			if _, ok := vocab[n]; !ok {
				vocab[n] = kwOther
			}
		}
	})
	return vocab
}

func zeroish(v any) bool {
	switch v := v.(type) {
	case nil:
		return true
	case bool:
		return !v
	case string:
		return v == ""
	case []any:
		return len(v) == 0
	case map[string]any:
		return len(v) == 0
	}
	return false
}

func isTrueSchema(v any) bool {
	if b, ok := v.(bool); ok {
		return b
	}
	m, ok := v.(map[string]any)
	return ok && len(m) == 0
}

func isFalseSchema(v any) bool {
	if b, ok := v.(bool); ok {
		return !b
	}
	m, ok := v.(map[string]any)
	if !ok || len(m) != 1 {
		return false
	}
	n, ok := m["not"]
	return ok && isTrueSchema(n)
}

// docEquivalent reports the first difference between the schema documents o (original) and r
// (re-marshaled), or "".
func docEquivalent(o, r any, path string) string {
	if isTrueSchema(o) && isTrueSchema(r) || isFalseSchema(o) && isFalseSchema(r) {
		return ""
	}
	om, ok1 := o.(map[string]any)
	rm, ok2 := r.(map[string]any)
	if !ok1 || !ok2 {
		return fmt.Sprintf("%s: %s became %s", path, canonicalJSON(o), canonicalJSON(r))
	}
	keys := make([]string, 0, len(rm))
	for k := range rm {
		keys = append(keys, k)
	}
	sort.Strings(keys)
	for _, k := range keys {
		if _, ok := om[k]; !ok {
			return fmt.Sprintf("%s: Marshal emits keyword %q = %s that the document does not have", path, k, canonicalJSON(rm[k]))
		}
	}
	keys = keys[:0]
	for k := range om {
		keys = append(keys, k)
	}
	sort.Strings(keys)
	for _, k := range keys {
		ov := om[k]
		rv, ok := rm[k]
		if !ok {
			if zeroish(ov) {
				continue
			}
			return fmt.Sprintf("%s: keyword %q = %s is lost", path, k, canonicalJSON(ov))
		}
		kind, known := vocabulary()[k]
		p := path + "/" + k
		switch {
		case !known || kind == kwExact || kind == kwOther && k != "items" && k != "dependencies":
			if !reflect.DeepEqual(ov, rv) {
				return fmt.Sprintf("%s: %s became %s", p, canonicalJSON(ov), canonicalJSON(rv))
			}
		case kind == kwSchemaMap || k == "dependencies":
			oe, ok1 := ov.(map[string]any)
			re, ok2 := rv.(map[string]any)
			if !ok1 || !ok2 || len(oe) != len(re) {
				return fmt.Sprintf("%s: %s became %s", p, canonicalJSON(ov), canonicalJSON(rv))
			}
			for name, osub := range oe {
				rsub, ok := re[name]
				if !ok {
					return fmt.Sprintf("%s: entry %q is lost", p, name)
				}
				if _, isList := osub.([]any); isList { // dependencies: a list of names
					if !reflect.DeepEqual(osub, rsub) {
						return fmt.Sprintf("%s/%s: %s became %s", p, name, canonicalJSON(osub), canonicalJSON(rsub))
					}
					continue
				}
				if d := docEquivalent(osub, rsub, p+"/"+name); d != "" {
					return d
				}
			}
		default: // one subschema or an array of subschemas (items may be either)
			oa, ok1 := ov.([]any)
			ra, ok2 := rv.([]any)
			if ok1 != ok2 || len(oa) != len(ra) {
				return fmt.Sprintf("%s: %s became %s", p, canonicalJSON(ov), canonicalJSON(rv))
			}
			if ok1 {
				for i := range oa {
					if d := docEquivalent(oa[i], ra[i], fmt.Sprintf("%s/%d", p, i)); d != "" {
						return d
					}
				}
				continue
			}
			if d := docEquivalent(ov, rv, p); d != "" {
				return d
			}
		}
	}
	return ""
}

// docRoundTripDiff unmarshals doc, marshals it again and compares the two documents.
func docRoundTripDiff(doc string, marshaled []byte) string {
	var o, r any
	if json.Unmarshal([]byte(doc), &o) != nil || json.Unmarshal(marshaled, &r) != nil {
		return "not JSON"
	}
	return docEquivalent(o, r, "")
}
