package hx

import (
	"crypto/sha256"
	"encoding/json"
	"fmt"
	"os"
	"path/filepath"
	"runtime"
	"sort"
	"strings"
	"time"

	"verif/engine/smt"
	"verif/engine/sx"
)

// Report aggregates what a check run established.
type Report struct {
	ID    string
	Tier  string
	Seed  int64
	Level string

	Skeletons           int
	Skipped             int
	Reduced             []string // skeletons decided on a smaller bound than planned
	SkelErrors          []string
	Paths               int
	Forks               int
	Steps               int64
	VerdictUnsat        int
	VerdictSat          int
	VerdictUnknown      int
	FeasQueries         int
	Validated           int
	ValidateSkip        int
	SolverTime          time.Duration
	SolverQueries       int
	Inconclusive        map[string]int
	EngineErrors        []string
	Findings            []Finding
	Samples             []any
	Funcs               map[string]int
	Intrinsics          map[string]int
	ForkSites           map[string]int
	Assumptions         map[string]bool
	Bounds              []string
	Outside             []string
	Families            map[string]int
	Extra               map[string]any
	NilVerdicts         int
	ErrVerdicts         int
	VacuityIssues       []string
	SharedWrites        map[string]int
	OracleCases         int
	SecondOpinions      int
	ResolveErrorsAgreed int
	ResolveRefused      int
	Explanation         string
}

func NewReport(id, tier string, seed int64) *Report {
	return &Report{ID: id, Tier: tier, Seed: seed, Level: "model_checking", Inconclusive: map[string]int{}, Funcs: map[string]int{}, Intrinsics: map[string]int{},
		ForkSites: map[string]int{}, Assumptions: map[string]bool{}, Families: map[string]int{}, Extra: map[string]any{}, SharedWrites: map[string]int{}}
}

// AddSkel folds one skeleton's result into the report.
func (r *Report) AddSkel(sk *Skeleton, s *SkelResult) {
	if s.Skipped {
		r.Skipped++
		return
	}
	r.Skeletons++
	r.Families[sk.Family]++
	if s.ReducedBound != "" {
		r.Reduced = append(r.Reduced, sk.Name+": "+s.ReducedBound)
	}
	if s.SkelError != "" {
		r.SkelErrors = append(r.SkelErrors, sk.Name+": "+s.SkelError)
		return
	}
	if s.ResolveErrorAgreed {
		r.ResolveErrorsAgreed++
	}
	if s.ResolveRefused {
		r.ResolveRefused++
	}
	r.Paths += s.Paths
	r.Forks += s.Forks
	r.Steps += s.Steps
	r.VerdictUnsat += s.VerdictUnsat
	r.VerdictSat += s.VerdictSat
	r.VerdictUnknown += s.VerdictUnknown
	r.Validated += s.Validated
	r.SecondOpinions += s.SecondOpinion
	r.ValidateSkip += s.ValidateSkip
	r.SolverTime += s.Solver.Time
	r.SolverQueries += s.Solver.Queries
	for _, m := range s.Inconclusive {
		r.Inconclusive[sk.Family+": "+m]++
	}
	for _, e := range s.EngineErrors {
		r.EngineErrors = append(r.EngineErrors, sk.Name+": "+e)
	}
	r.Findings = append(r.Findings, s.Findings...)
	if s.Sample != nil && len(r.Samples) < 6 {
		r.Samples = append(r.Samples, s.Sample)
	}
	if s.Stats != nil {
		r.FeasQueries += s.Stats.FeasQueries
		for k, v := range s.Stats.FuncsRun {
			r.Funcs[k] += v
		}
		for k, v := range s.Stats.Intrinsics {
			r.Intrinsics[k] += v
		}
		for k, v := range s.Stats.ForkSites {
			r.ForkSites[k] += v
		}
	}
	if s.SawNil {
		r.NilVerdicts++
	}
	if s.SawErr {
		r.ErrVerdicts++
	}
	for _, w := range s.SharedWrites {
		r.SharedWrites[sk.Name+": "+w]++
	}
}

// KnownFinding is an entry of /verif/known_findings.json.
type KnownFinding struct {
	Property    string `json:"property"`
	Class       string `json:"class"`
	Status      string `json:"status"` // "known" or "fixed"
	Commit      string `json:"commit,omitempty"`
	Description string `json:"description"`
	Replay      string `json:"replay,omitempty"`
}

func LoadKnown() ([]KnownFinding, error) {
	b, err := os.ReadFile(filepath.Join(VerifDir, "known_findings.json"))
	if os.IsNotExist(err) {
		return nil, nil
	}
	if err != nil {
		return nil, err
	}
	var ks []KnownFinding
	if err := json.Unmarshal(b, &ks); err != nil {
		return nil, err
	}
	return ks, nil
}

func findingHash(f Finding) string {
	h := sha256.Sum256([]byte(f.Property + "|" + f.Kind + "|" + f.Doc + "|" + f.GoValue + "|" + f.Detail))
	return fmt.Sprintf("%x", h[:6])
}

// WriteReplay stores a finding as a replay file and returns its path.
func WriteReplay(f Finding) string {
	dir := filepath.Join(VerifDir, "replays", f.Property)
	os.MkdirAll(dir, 0o755)
	path := filepath.Join(dir, findingHash(f)+".json")
	b, _ := json.MarshalIndent(f, "", " ")
	os.WriteFile(path, b, 0o644)
	return path
}

// Finish writes the evidence file, prints the summary and returns the exit code.
func (r *Report) Finish(t0 time.Time) int {
	known, err := LoadKnown()
	if err != nil {
		fmt.Println("ENGINE-ERROR: known_findings.json:", err)
		return 2
	}
	knownClass := map[string]KnownFinding{}
	for _, k := range known {
		if k.Property == r.ID && k.Status == "known" {
			knownClass[k.Class] = k
		}
	}
	violations := 0
	printedKnown := map[string]bool{}
	var violLines []string
	for _, f := range r.Findings {
		if f.Class != "" {
			if k, ok := knownClass[f.Class]; ok {
				if !printedKnown[f.Class] {
					printedKnown[f.Class] = true
					fmt.Printf("KNOWN-FINDING: property=%s %s [class %s; e.g. schema %s instance %s]\n", r.ID, k.Description, f.Class, trunc(f.Doc, 120), trunc(f.GoValue, 120))
				}
				continue
			}
		}
		violations++
		path := WriteReplay(f)
		violLines = append(violLines, fmt.Sprintf("VIOLATION property=%s replay=%s", r.ID, path))
		fmt.Printf("  finding: kind=%s skeleton=%s expected=%s observed=%s\n    schema=%s\n    instance=%s\n", f.Kind, f.Skeleton, f.Expected, trunc(f.Observed, 160), trunc(f.Doc, 300), trunc(f.GoValue, 300))
	}
	for class, k := range knownClass {
		if !printedKnown[class] {
			fmt.Printf("note: known finding %q (%s) did not reproduce in this run\n", class, k.Description)
		}
	}
	inconclusive := 0
	for _, n := range r.Inconclusive {
		inconclusive += n
	}
	wall := time.Since(t0).Seconds()
	r.writeEvidence(wall, violations, inconclusive)

	fmt.Printf("%s %s: skeletons=%d paths=%d forks=%d verdict-queries unsat=%d sat=%d unknown=%d feasibility=%d validated-natively=%d solver=%.1fs wall=%.1fs\n",
		r.ID, r.Tier, r.Skeletons, r.Paths, r.Forks, r.VerdictUnsat, r.VerdictSat, r.VerdictUnknown, r.FeasQueries, r.Validated, r.SolverTime.Seconds(), wall)
	for _, l := range reducedNotes(r.Reduced) {
		fmt.Println("note:", trunc(l, 600))
	}
	for _, l := range violLines {
		fmt.Println(l)
	}
	if violations > 0 {
		if r.Skipped > 0 {
			fmt.Printf("note: stopped early after confirmed violations; %d skeletons not explored\n", r.Skipped)
		}
		return 1
	}
	bad := false
	if r.Skipped > 0 {
		bad = true
		fmt.Printf("INCONCLUSIVE: the run passed its deadline (%s); %d skeletons not explored\n", RunDeadline, r.Skipped)
	}
	if len(r.SkelErrors) > 0 {
		bad = true
		for i, e := range r.SkelErrors {
			if i < 10 {
				fmt.Println("SKELETON-ERROR:", e)
			}
		}
	}
	if len(r.EngineErrors) > 0 {
		bad = true
		for i, e := range r.EngineErrors {
			if i < 10 {
				fmt.Println("ENGINE-ERROR:", e)
			}
		}
	}
	if inconclusive > 0 {
		bad = true
		for _, s := range sortedCounts(r.Inconclusive) {
			fmt.Println("INCONCLUSIVE:", s)
		}
	}
	if len(r.VacuityIssues) > 0 {
		bad = true
		for _, v := range r.VacuityIssues {
			fmt.Println("VACUITY:", v)
		}
	}
	if bad {
		return 2
	}
	return 0
}

func topN(m map[string]int, n int) map[string]int {
	ks := make([]string, 0, len(m))
	for k := range m {
		ks = append(ks, k)
	}
	sort.Slice(ks, func(i, j int) bool { return m[ks[i]] > m[ks[j]] })
	out := map[string]int{}
	for i, k := range ks {
		if i >= n {
			break
		}
		out[k] = m[k]
	}
	return out
}

func (r *Report) writeEvidence(wall float64, violations, inconclusive int) {
	var assumptions []string
	for a := range r.Assumptions {
		assumptions = append(assumptions, a)
	}
	sort.Strings(assumptions)
	assumptions = append(assumptions,
		"go/ssa construction and the engine's interpretation of the SSA instruction kinds",
		"models of reflect, math/big.Rat, hash/maphash, strings.Replacer; stubs for fmt/errors (error text is never observed)",
		"z3 4.8.12 answers (any error/unknown is counted inconclusive and fails the run)",
	)
	samples := r.Samples
	if len(samples) == 0 {
		samples = []any{map[string]any{"note": "no sample recorded"}}
	}
	funcs := map[string]string{}
	for k := range r.Funcs {
		funcs[k] = "interpreted-from-ssa"
	}
	cov := map[string]any{
		"states":                            r.Paths,
		"transitions":                       r.Forks,
		"traces_validated_against_impl":     r.Validated,
		"samples":                           samples,
		"skeletons":                         r.Skeletons,
		"families":                          r.Families,
		"ssa_instructions_executed":         r.Steps,
		"verdict_queries":                   map[string]int{"unsat": r.VerdictUnsat, "sat": r.VerdictSat, "unknown": r.VerdictUnknown},
		"feasibility_queries":               r.FeasQueries,
		"solver_queries_total":              r.SolverQueries,
		"solver_time_s":                     r.SolverTime.Seconds(),
		"functions_encoded":                 topN(r.Funcs, 60),
		"callee_treatment":                  topN(r.Intrinsics, 60),
		"fork_sites":                        topN(r.ForkSites, 20),
		"bounds":                            append(append([]string(nil), r.Bounds...), reducedNotes(r.Reduced)...),
		"outside_claim":                     r.Outside,
		"inconclusive_paths":                inconclusive,
		"engine_errors":                     len(r.EngineErrors),
		"skeleton_errors":                   len(r.SkelErrors),
		"oracle_cases_checked":              r.OracleCases,
		"findings_reproduced":               len(r.Findings),
		"exhaustive":                        false,
		"verdicts_decided_by_second_solver": r.SecondOpinions,
		"resolve_errors_agreed":             r.ResolveErrorsAgreed,
		"resolve_refused_as_documented":     r.ResolveRefused,
		"workers":                           runtime.NumCPU(),
	}
	if r.Explanation != "" {
		cov["explanation"] = r.Explanation
	}
	for k, v := range r.Extra {
		cov[k] = v
	}
	if r.Paths == 0 {
		cov["states"] = 1
	}
	if r.Forks == 0 {
		cov["transitions"] = 1
	}
	ev := map[string]any{
		"property_id": r.ID,
		"tier":        r.Tier,
		"seed":        r.Seed,
		"level":       r.Level,
		"coverage":    cov,
		"assumptions": assumptions,
		"wall_s":      wall,
		"violations":  violations,
	}
	os.MkdirAll(filepath.Join(VerifDir, "evidence"), 0o755)
	b, _ := json.MarshalIndent(ev, "", " ")
	os.WriteFile(filepath.Join(VerifDir, "evidence", r.ID+".json"), b, 0o644)
}

// CheckCtx carries the configuration of one check invocation.
type CheckCtx struct {
	ID      string
	Tier    string
	Seed    int64
	P       *sx.Program
	Workers int
	Timeout int // solver timeout per query, ms
}

func (cc *CheckCtx) Thorough() bool { return cc.Tier == "thorough" }

// RunValidateFamily explores every skeleton with the Validate harness and adds the results.
func (cc *CheckCtx) RunValidateFamily(r *Report, skels []*Skeleton, opt VOptions) {
	opt.Property = cc.ID
	skels, results := RunSkeletons(cc.P, skels, cc.Workers, cc.Timeout, func(w *Worker, sk *Skeleton) *SkelResult {
		res := w.RunValidateSkeleton(sk, opt)
		if budgetExceeded(res) && len(res.Findings) == 0 && sk.Tm != nil && (sk.Tm.Depth > 1 || sk.Tm.MaxLen > 2) {
			// the planned instance template does not fit the path budget for this skeleton: decide it
			// on a smaller template and say so (a reduced bound, never a silent cut)
			small := *sk
			tm := *sk.Tm
			if tm.Depth > 1 {
				tm.Depth = 1
			} else {
				tm.MaxLen = 2
			}
			small.Tm = &tm
			res = w.RunValidateSkeleton(&small, opt)
			res.ReducedBound = fmt.Sprintf("instance template reduced to depth %d, length %d (the planned template exceeded the path budget)", tm.Depth, tm.MaxLen)
		}
		return res
	})
	for i, s := range results {
		for j := range s.Findings {
			s.Findings[j].Class = ClassifyFinding(s.Findings[j])
		}
		r.AddSkel(skels[i], s)
	}
}

// Checks maps property ids to their drivers.
var Checks = map[string]func(cc *CheckCtx, r *Report){}

// RunCheck is the entry point of `symgo check <ID> <tier>`.
func RunCheck(id, tier string, seed int64) int {
	t0 := time.Now()
	fn, ok := Checks[id]
	if !ok {
		fmt.Println("unknown property", id)
		return 2
	}
	p, err := Program()
	if err != nil {
		fmt.Println("ENGINE-ERROR: loading SSA of /repo/jsonschema:", err)
		return 2
	}
	cc := &CheckCtx{ID: id, Tier: tier, Seed: seed, P: p, Workers: runtime.NumCPU(), Timeout: 10000}
	sx.DefaultLimits.MaxWall = 5 * time.Minute
	RunDeadline = 25 * time.Minute
	if cc.Thorough() {
		cc.Timeout = 60000
		sx.DefaultLimits.MaxWall = time.Hour
		RunDeadline = 8 * time.Hour
	}
	if d, err := time.ParseDuration(os.Getenv("SYMGO_DEADLINE")); err == nil && d > 0 {
		RunDeadline = d
	}
	r := NewReport(id, tier, seed)
	fn(cc, r)
	return r.Finish(t0)
}

var _ = strings.Contains
var _ = smt.Sat

func reducedNotes(rs []string) []string {
	if len(rs) == 0 {
		return nil
	}
	sort.Strings(rs)
	shown := rs
	if len(shown) > 12 {
		shown = shown[:12]
	}
	return []string{fmt.Sprintf("REDUCED BOUND for %d skeletons (planned template exceeded the per-skeleton path budget; decided on the smaller one): %s", len(rs), strings.Join(shown, "; "))}
}
