package hx

import (
	"bytes"
	"encoding/json"
	"fmt"
	"math/big"
	"reflect"
	"sort"
	"time"

	"github.com/google/jsonschema-go/jsonschema"

	"verif/engine/refsem"
	"verif/engine/smt"
	"verif/engine/sx"
)

func tmplForType(tm *refsem.TModel, free bool, thorough bool, schema *jsonschema.Schema) *sx.Tmpl {
	d := tm.Depth()
	if d > 3 {
		d = 3
	}
	maxLen := 2
	if thorough && !free && len(tm.Fields) < 6 {
		maxLen = 3 // thorough C04: longer slices and arrays
	}
	if len(tm.Fields) >= 6 || (free && !thorough && len(tm.Fields) >= 3) {
		maxLen = 1 // wide structs: every field forks; keep containers short
	}
	// every object node gets its own key pool: the JSON names of the struct it stands for plus a
	// fresh name, two keys for maps, one for untyped positions
	pools := map[string][]string{}
	// The names the inferred schema declares at the corresponding place join the pool, so that a
	// property the schema has but the type does not is a key the instance can carry.
	sub := func(s *jsonschema.Schema, f func(*jsonschema.Schema) *jsonschema.Schema) *jsonschema.Schema {
		if s == nil {
			return nil
		}
		return f(s)
	}
	var walk func(m *refsem.TModel, node string, depth int, s *jsonschema.Schema)
	walk = func(m *refsem.TModel, node string, depth int, s *jsonschema.Schema) {
		if m == nil || depth > d {
			return
		}
		switch m.Kind {
		case refsem.TKPtr:
			walk(m.Elem, node, depth, s)
		case refsem.TKSlice, refsem.TKArray:
			for i := 0; i < maxLen; i++ {
				walk(m.Elem, fmt.Sprintf("%s[%d]", node, i), depth+1, sub(s, func(s *jsonschema.Schema) *jsonschema.Schema { return s.Items }))
			}
		case refsem.TKMap:
			pools[node] = []string{"a", "zz"}
			for _, k := range pools[node] {
				walk(m.Elem, fmt.Sprintf("%s{%s}", node, k), depth+1, sub(s, func(s *jsonschema.Schema) *jsonschema.Schema { return s.AdditionalProperties }))
			}
		case refsem.TKStruct:
			var ks []string
			have := map[string]bool{"zz": true}
			for _, f := range m.Fields {
				ks = append(ks, f.Name)
				have[f.Name] = true
			}
			ks = append(ks, "zz")
			if s != nil {
				var extra []string
				for k := range s.Properties {
					if !have[k] {
						extra = append(extra, k)
					}
				}
				sort.Strings(extra)
				if len(extra) > 3 {
					extra = extra[:3]
				}
				ks = append(ks, extra...)
			}
			sort.Strings(ks)
			pools[node] = ks
			for _, f := range m.Fields {
				f := f
				walk(f.Model, fmt.Sprintf("%s{%s}", node, f.Name), depth+1, sub(s, func(s *jsonschema.Schema) *jsonschema.Schema { return s.Properties[f.Name] }))
			}
		}
	}
	walk(tm, "I", 0, schema)
	return &sx.Tmpl{Depth: d, MaxLen: maxLen, Keys: []string{"a"}, KeysFor: func(name string) ([]string, bool) {
		ks, ok := pools[name]
		return ks, ok
	}}
}

func decodeStrict(t reflect.Type, doc []byte) (v reflect.Value, err error) {
	defer func() {
		if r := recover(); r != nil {
			err = fmt.Errorf("PANIC: %v", r)
		}
	}()
	p := reflect.New(t)
	dec := json.NewDecoder(bytes.NewReader(doc))
	dec.DisallowUnknownFields()
	if err := dec.Decode(p.Interface()); err != nil {
		return p.Elem(), err
	}
	return p.Elem(), nil
}

// RunTypeCase checks C04 (enc=true: every encoding validates) or C09 (enc=false:
// everything that validates decodes) for one Go type.
func (w *Worker) RunTypeCase(tcase TypeCase, enc bool, property string, thorough bool) *SkelResult {
	t0 := time.Now()
	name := "F-types/" + tcase.Name
	res := &SkelResult{Skeleton: name}
	defer func() { res.Elapsed = time.Since(t0) }()
	tm := refsem.BuildTModel(tcase.T)
	if u := tm.HasUnknown(); u != "" {
		res.SkelError = "type outside the modelled domain: " + u
		return res
	}
	schema, err := jsonschema.ForType(tcase.T, nil)
	if err != nil {
		res.SkelError = "ForType: " + err.Error()
		return res
	}
	schemaJSON, _ := json.Marshal(schema)
	rs, err := schema.Resolve(nil)
	if err != nil {
		res.Findings = append(res.Findings, Finding{Property: property, Kind: "inferred-schema-does-not-resolve", Skeleton: name, Family: "F-types", Doc: string(schemaJSON), Expected: "Resolve accepts the inferred schema", Observed: err.Error()})
		return res
	}
	m := w.NewMachine()
	res.Stats = m.Stats
	tmpl := tmplForType(tm, !enc, thorough, schema)
	root := m.NewNode("I", tmpl)
	orc := &refsem.TypeOracle{M: m, C: m.Ctx}
	ctx := m.Ctx
	inst := refsem.NodeInst{M: m, N: root}
	var pred, predRelaxed *smt.Term
	if enc {
		pred = orc.Enc(tm, inst)
		// C04 explores only encodings: assume the predicate from the start
		m.AddBase(pred)
	} else {
		pred = orc.Dec(tm, inst)
		relaxed := &refsem.TypeOracle{M: m, C: m.Ctx, Float32AsFloat64: true}
		predRelaxed = relaxed.Dec(tm, inst)
		// premise of C09: integers within the range of the 64-bit types (where the target is a 64-bit
		// field, within that field's range) - encoded by restricting numbers at integer positions below
		m.AddBase(c09Premise(m, tm, inst))
	}
	// vacuity: the assumption must be satisfiable
	m.S.Push()
	for _, b := range m.Base() {
		m.S.Assert(b)
	}
	if m.S.Check() != smt.Sat {
		m.S.Pop()
		res.SkelError = "vacuous: no instance of the template satisfies the assumption for " + tm.String()
		return res
	}
	m.S.Pop()
	validate := m.P.Func("(*Resolved).Validate")
	npath := 0
	desc := fmt.Sprintf("type %s; inferred schema %s", tcase.T, schemaJSON)
	m.Explore(func(m *sx.Machine) sx.Value {
		ers := ImportResolved(m, rs, false)
		return m.Call(validate, ers, sx.Iface{T: m.P.NodeT, V: root})
	}, func(m *sx.Machine, r *sx.PathResult) {
		v := VerdictOf(r)
		if v == VInconclusive {
			res.Inconclusive = append(res.Inconclusive, r.Outcome+": "+r.Msg)
			return
		}
		var bad *smt.Term
		if enc {
			// every instance here is an encoding: any non-nil verdict is a violation
			if v == VNil {
				res.SawNil = true
				bad = ctx.False
			} else {
				bad = ctx.True
			}
		} else {
			if v == VNil {
				res.SawNil = true
				bad = ctx.Not(pred)
			} else {
				res.SawErr = true
				bad = ctx.False
				if v == VPanic {
					bad = ctx.True
				}
			}
		}
		npath++
		if (npath <= 30 || npath%8 == 0) && m.S.Check() == smt.Sat {
			if gi, _, err := w.modelInstances(m, root, nil); err == nil {
				nv, _ := nativeVerdict(rs, gi)
				if nv != v {
					res.EngineErrors = append(res.EngineErrors, fmt.Sprintf("path validation: engine=%s native=%s instance=%s", v, nv, canonicalJSON(gi)))
				} else {
					res.Validated++
					if res.Sample == nil {
						res.Sample = map[string]any{"type": tcase.T.String(), "inferred_schema": json.RawMessage(schemaJSON), "instance": canonicalJSON(gi), "verdict": v.String()}
					}
				}
			} else {
				res.ValidateSkip++
			}
		}
		if bad.IsFalse() {
			res.VerdictUnsat++
			return
		}
		// first look for a violation outside the known-finding class (float32 overflow), then inside it
		if !enc && v == VNil && predRelaxed != pred {
			m.S.Push()
			m.S.Assert(ctx.Not(predRelaxed))
			if m.S.Check() == smt.Sat {
				bad = ctx.Not(predRelaxed)
			}
			m.S.Pop()
		}
		m.S.Push()
		m.S.Assert(bad)
		switch m.S.Check() {
		case smt.Unsat:
			res.VerdictUnsat++
		case smt.Unknown:
			if secondLookUnsat(m) {
				res.VerdictUnsat++
				res.SecondOpinion++
				break
			}
			res.VerdictUnknown++
			res.Inconclusive = append(res.Inconclusive, "verdict query unknown: "+m.S.LastError)
		case smt.Sat:
			res.VerdictSat++
			if len(res.Findings) >= 3 {
				break
			}
			gi, _, err := w.modelInstances(m, root, nil)
			if err != nil {
				res.Inconclusive = append(res.Inconclusive, "counterexample model not realizable: "+err.Error())
				break
			}
			doc := []byte(canonicalJSON(gi))
			nv, nmsg := nativeVerdict(rs, gi)
			val, derr := decodeStrict(tcase.T, doc)
			f := Finding{Property: property, Skeleton: name, Family: "F-types", Doc: desc, Instance: string(doc), GoValue: DescribeGo(gi)}
			if enc && tm.HasStd() {
				// O-enc over-approximates marshaler types as "any string": only a rejection caused by
				// something else than those strings is meaningful; the concrete replay cannot tell, so
				// such types are replayed through a real value instead
				if nv == VNil {
					res.EngineErrors = append(res.EngineErrors, "counterexample does not reproduce: "+string(doc))
					break
				}
				if derr != nil {
					res.ValidateSkip++
					res.VerdictSat--
					res.VerdictUnsat++
					break
				}
				f.Kind, f.Expected, f.Observed = "encoding-rejected", "the inferred schema accepts the encoding/json encoding of a value of the type", nv.String()+" "+trunc(nmsg, 200)
			} else if enc {
				// is the document really the encoding of the decoded value?
				if derr != nil {
					// the type cannot be decoded into (e.g. an embedded pointer to an unexported struct):
					// confirm with real values instead - the encodings of probe values of the type
					confirmed := false
					for _, pv := range refsem.ProbeValues(tcase.T) {
						enc, merr := json.Marshal(pv.Interface())
						if merr != nil {
							continue
						}
						var inst any
						if json.Unmarshal(enc, &inst) != nil {
							continue
						}
						if pvv, pmsg := nativeVerdict(rs, inst); pvv != VNil {
							f.Instance, f.GoValue = string(enc), DescribeGo(inst)
							f.Kind, f.Expected, f.Observed = "encoding-rejected", "the inferred schema accepts the encoding/json encoding of a value of the type", pvv.String()+" "+trunc(pmsg, 200)
							res.Findings = append(res.Findings, f)
							confirmed = true
							break
						}
					}
					if !confirmed {
						res.EngineErrors = append(res.EngineErrors, fmt.Sprintf("O-enc too weak: %s does not decode into %s: %v", doc, tcase.T, derr))
					}
					break
				}
				re, _ := json.Marshal(val.Interface())
				var a, b any
				json.Unmarshal(doc, &a)
				json.Unmarshal(re, &b)
				if !reflect.DeepEqual(a, b) {
					res.EngineErrors = append(res.EngineErrors, fmt.Sprintf("O-enc too weak: %s re-encodes as %s", doc, re))
					break
				}
				if nv == VNil {
					res.EngineErrors = append(res.EngineErrors, "counterexample does not reproduce: "+string(doc))
					break
				}
				f.Kind, f.Expected, f.Observed = "encoding-rejected", "the inferred schema accepts the encoding/json encoding of a value of the type", nv.String()+" "+trunc(nmsg, 200)
			} else {
				if nv != VNil || derr == nil {
					res.EngineErrors = append(res.EngineErrors, fmt.Sprintf("counterexample does not reproduce: %s validates=%v decodes=%v", doc, nv == VNil, derr == nil))
					break
				}
				f.Kind, f.Expected, f.Observed = "accepted-but-not-decodable", "a document the inferred schema accepts decodes into the type", "Validate = nil, Decode: "+derr.Error()
			}
			res.Findings = append(res.Findings, f)
		}
		m.S.Pop()
	})
	res.Paths = m.Stats.Paths
	res.Forks = m.Stats.Forks
	res.Steps = m.Stats.Steps
	if m.Stats.PathsCapped {
		res.Inconclusive = append(res.Inconclusive, "path budget exceeded")
	}
	res.Solver = w.S.Stats
	return res
}

// c09Premise: a number aimed at a 64-bit or word-sized integer field lies in that field type's range.
func c09Premise(m *sx.Machine, tm *refsem.TModel, inst refsem.Inst) *smt.Term {
	c := m.Ctx
	switch tm.Kind {
	case refsem.TKInt:
		if tm.Hi.BitLen() >= 63 {
			lo, hi := c.Rat(newRatInt(tm.Lo)), c.Rat(newRatInt(tm.Hi))
			lower := c.Le(lo, inst.NumReal())
			if tm.Lo.Sign() < 0 && tm.Lo.BitLen() == 64 {
				// The premise is about the *document*. Instances here are decoded documents
				// (float64), and the document spelled for float64(-2^63) is its shortest
				// round-trip form "-9223372036854776000", an integer below the int64 range:
				// outside the premise. (Every other float64 in [-2^63, 2^63) spells an integer
				// inside the range.)
				lower = c.Lt(lo, inst.NumReal())
			}
			return c.Implies(c.And(inst.TagIs(sx.TagNumber), inst.NumIsInt()), c.And(lower, c.Le(inst.NumReal(), hi)))
		}
	case refsem.TKPtr:
		return c09Premise(m, tm.Elem, inst)
	case refsem.TKSlice, refsem.TKArray:
		var cs []*smt.Term
		for i := 0; i < inst.MaxLen(); i++ {
			cs = append(cs, c09Premise(m, tm.Elem, inst.Elem(i)))
		}
		return c.And(cs...)
	case refsem.TKMap:
		var cs []*smt.Term
		for k := range inst.Keys() {
			cs = append(cs, c09Premise(m, tm.Elem, inst.Val(k)))
		}
		return c.And(cs...)
	case refsem.TKStruct:
		var cs []*smt.Term
		for k, key := range inst.Keys() {
			for _, f := range tm.Fields {
				if f.Name == key {
					cs = append(cs, c09Premise(m, f.Model, inst.Val(k)))
				}
			}
		}
		return c.And(cs...)
	}
	return c.True
}

func newRatInt(i *big.Int) *big.Rat { return new(big.Rat).SetInt(i) }

func init() {
	mk := func(id string, enc bool) {
		Checks[id] = func(cc *CheckCtx, r *Report) {
			var cases []TypeCase
			for _, t := range TypeFamily() {
				if !enc && (t.Std || t.NeverEmitted || refsem.BuildTModel(t.T).HasStd()) {
					continue // C09's domain excludes standard-library marshaler types
				}
				cases = append(cases, t)
			}
			skels := make([]*Skeleton, len(cases))
			byName := map[string]TypeCase{}
			for i, t := range cases {
				skels[i] = &Skeleton{Name: "F-types/" + t.Name, Family: "F-types"}
				byName[skels[i].Name] = t
			}
			skels, results := RunSkeletons(cc.P, skels, cc.Workers, cc.Timeout, func(w *Worker, sk *Skeleton) *SkelResult {
				return w.RunTypeCase(byName[sk.Name], enc, id, cc.Thorough())
			})
			for i, s := range results {
				for j := range s.Findings {
					s.Findings[j].Class = ClassifyFinding(s.Findings[j])
				}
				r.AddSkel(skels[i], s)
			}
			r.Bounds = append(r.Bounds, boundsValidate...)
			r.Bounds = append(r.Bounds, fmt.Sprintf("types are enumerated (%d declared types: every basic kind, pointers/slices/arrays/maps to depth 3, structs with every json tag form, embedded structs by value and pointer, promoted/shadowed/ambiguous fields, named types, duplicate names, standard-library marshaler types for C04); per type the instance template is shaped by the type (depth <= 3, array length <= 2 (3 in the thorough tier of C04), keys = all JSON names + the names the inferred schema declares + one fresh)", len(cases)))
			if enc {
				r.Bounds = append(r.Bounds, "C04: the instance is assumed to satisfy O-enc(T), the encoding/json contract for T whose struct layer (emitted names, optionality) is observed on the real encoding/json by marshaling probe values; every path must end with verdict nil; the solver covers all integers of each sized kind, nil vs non-nil at every pointer/slice, every subset of omitted optional fields")
			} else {
				r.Bounds = append(r.Bounds, "C09: the instance is free; verdict nil must imply O-dec(T) (decoding with unknown fields disallowed; integers written as integer literals; an integer aimed at a 64-bit field lies in that field type's range)")
			}
			r.Outside = append(r.Outside, "the exclusions in the property's own quantifier (nil maps, []byte, ',string', user marshalers, pointer-receiver marshalers held by value); slices/maps longer than the template; float32/float64 encodings are over-approximated as any number in range")
		}
	}
	mk("C04", true)
	mk("C09", false)
}
