package hx

import (
	"encoding/json"
	"fmt"
	"github.com/google/jsonschema-go/jsonschema"
	"os"
	"strings"
)

// Replay re-runs a stored counterexample natively against the real package.
// Exit code 0: the violation reproduces; 1: it does not (any more); 2: cannot replay.
func Replay(path string) int {
	b, err := os.ReadFile(path)
	if err != nil {
		fmt.Println("cannot read", path, err)
		return 2
	}
	var f Finding
	if err := json.Unmarshal(b, &f); err != nil {
		fmt.Println("not a replay file:", err)
		return 2
	}
	fmt.Printf("property %s, kind %s, skeleton %s\n", f.Property, f.Kind, f.Skeleton)
	switch f.Kind {
	case "verdict-mismatch", "panic", "resolve-mismatch", "resolve-panic":
		if f.Doc == "" || f.Doc[0] != '{' && f.Doc != "true" && f.Doc != "false" {
			break
		}
		sk := &Skeleton{Name: f.Skeleton, Doc: f.Doc, Draft: f.Draft, BaseURI: f.BaseURI, Universe: f.Universe}
		rs, _, err := NativeResolve(sk)
		fmt.Println("schema:  ", f.Doc)
		if err != nil {
			fmt.Println("Resolve: ", err)
			if f.Kind == "resolve-mismatch" || f.Kind == "resolve-panic" {
				fmt.Println("expected:", f.Expected)
				fmt.Println("REPRODUCED (Resolve outcome as recorded: " + f.Observed + ")")
				return 0
			}
			return 1
		}
		if f.Kind == "resolve-mismatch" {
			fmt.Println("Resolve succeeded; expected:", f.Expected)
			if f.Observed == "Resolve succeeded" {
				fmt.Println("REPRODUCED")
				return 0
			}
			return 1
		}
		var inst any
		if err := json.Unmarshal([]byte(f.Instance), &inst); err != nil {
			fmt.Println("instance is not canonical JSON (Go representation:", f.GoValue, "); re-run the check to replay it")
			return 2
		}
		nv, msg := nativeVerdict(rs, inst)
		fmt.Println("instance:", f.Instance, " (Go value recorded:", f.GoValue, ")")
		fmt.Println("Validate:", nv, trunc(msg, 300))
		p, err := Program()
		if err != nil {
			fmt.Println(err)
			return 2
		}
		want, oerr := oracleConcrete(p, sk, inst)
		if oerr != nil {
			fmt.Println("oracle:", oerr)
			return 2
		}
		fmt.Println("reference semantics says valid =", want)
		if nv == VPanic || (nv == VNil) != want {
			fmt.Println("REPRODUCED")
			return 0
		}
		fmt.Println("not reproduced with the canonical representation (the recorded Go representation may matter: re-run the check)")
		return 1
	}
	if f.Kind == "kernel-false" || (f.Family == "kernel" && f.Kind == "panic") {
		if rc := replayKernel(f); rc >= 0 {
			return rc
		}
	}
	if f.Kind == "accepted-but-not-decodable" || f.Kind == "encoding-rejected" {
		name := strings.TrimPrefix(f.Skeleton, "F-types/")
		for _, tc := range TypeFamily() {
			if tc.Name != name {
				continue
			}
			schema, err := jsonschema.ForType(tc.T, nil)
			if err != nil {
				fmt.Println("ForType:", err)
				return 1
			}
			sj, _ := json.Marshal(schema)
			fmt.Println("type:           ", tc.T)
			fmt.Println("inferred schema:", string(sj))
			rs, err := schema.Resolve(nil)
			if err != nil {
				fmt.Println("Resolve:", err)
				return 1
			}
			var inst any
			if err := json.Unmarshal([]byte(f.Instance), &inst); err != nil {
				fmt.Println("instance is not JSON:", err)
				return 2
			}
			nv, msg := nativeVerdict(rs, inst)
			_, derr := decodeStrict(tc.T, []byte(f.Instance))
			fmt.Println("document:       ", f.Instance)
			fmt.Println("Validate:       ", nv, trunc(msg, 200))
			fmt.Println("strict decoding:", derr)
			if f.Kind == "accepted-but-not-decodable" && nv == VNil && derr != nil {
				fmt.Println("REPRODUCED (the schema accepts a document that does not decode into the type)")
				return 0
			}
			if f.Kind == "encoding-rejected" && nv != VNil {
				fmt.Println("REPRODUCED (the schema rejects this document; that it is an encoding of a value of the type was established by the check)")
				return 0
			}
			fmt.Println("not reproduced")
			return 1
		}
		fmt.Println("unknown type", name)
		return 2
	}
	fmt.Println("expected:", f.Expected)
	fmt.Println("observed:", f.Observed)
	fmt.Println("inputs:  ", f.GoValue)
	fmt.Println("This kind of counterexample is replayed by the harness itself (native call of the kernel / Equal / ApplyDefaults with the recorded inputs); re-run `bin/check " + f.Property + "` to reproduce it.")
	return 2
}
