package hx

import (
	"encoding/json"
	"fmt"
	"math"
	"reflect"
	"time"

	"github.com/google/jsonschema-go/jsonschema"

	"verif/engine/refsem"
	"verif/engine/smt"
	"verif/engine/sx"
)

// C05(d): a schema S and its JSON round trip S' = Unmarshal(Marshal(S)) must accept and
// reject exactly the same instances. Both are resolved natively and imported; the real
// Validate runs on both with one symbolic instance per path.

type EquivCase struct {
	Name  string
	S     *jsonschema.Schema // Go-constructed schema (d'), or nil when Doc is given (d)
	Doc   string
	Draft int
	Tm    *sx.Tmpl
}

func roundTrip(s *jsonschema.Schema) (s2 *jsonschema.Schema, b1 []byte, err error) {
	defer func() {
		if r := recover(); r != nil {
			err = fmt.Errorf("PANIC: %v", r)
		}
	}()
	b1, err = json.Marshal(s)
	if err != nil {
		return nil, nil, fmt.Errorf("marshal: %w", err)
	}
	s2 = new(jsonschema.Schema)
	if err := json.Unmarshal(b1, s2); err != nil {
		return nil, b1, fmt.Errorf("unmarshal of %s: %w", b1, err)
	}
	return s2, b1, nil
}

func (w *Worker) RunEquivCase(ec *EquivCase, property string) *SkelResult {
	t0 := time.Now()
	res := &SkelResult{Skeleton: ec.Name}
	defer func() { res.Elapsed = time.Since(t0) }()
	var s1 *jsonschema.Schema
	if ec.S != nil {
		s1 = ec.S.CloneSchemas()
	} else {
		s1 = new(jsonschema.Schema)
		if err := json.Unmarshal([]byte(ec.Doc), s1); err != nil {
			res.SkelError = "unmarshal: " + err.Error()
			return res
		}
		if s1.Schema == "" {
			s1.Schema = draftDefaultURI(ec.Draft)
		}
	}
	desc := ec.Doc
	if ec.S != nil {
		desc = fmt.Sprintf("Go value %s", ec.Name)
	}
	s2, b1, err := roundTrip(s1)
	mkF := func(kind, exp, obs string) Finding {
		return Finding{Property: property, Kind: kind, Skeleton: ec.Name, Family: "F-roundtrip", Doc: desc, Draft: ec.Draft, Expected: exp, Observed: obs, Detail: "marshaled: " + string(b1)}
	}
	rs1, err1 := func() (rs *jsonschema.Resolved, err error) {
		defer func() {
			if r := recover(); r != nil {
				err = fmt.Errorf("PANIC: %v", r)
			}
		}()
		return s1.Resolve(nil)
	}()
	if err != nil {
		if err1 != nil {
			// a schema that does not resolve may also refuse to marshal (basicChecks)
			res.ResolveErrorAgreed = true
			return res
		}
		res.Findings = append(res.Findings, mkF("roundtrip-error", "Marshal and Unmarshal succeed for a schema that resolves", err.Error()))
		return res
	}
	if ec.S == nil {
		// scaffold observation: the document is reproduced up to the documented normalisations
		// (s1.Schema may have been defaulted above: compare against the document plus that keyword)
		var o map[string]any
		if json.Unmarshal([]byte(ec.Doc), &o) == nil && o != nil {
			if _, has := o["$schema"]; !has {
				o["$schema"] = s1.Schema
			}
			ob, _ := json.Marshal(o)
			if d := docRoundTripDiff(string(ob), b1); d != "" {
				res.Findings = append(res.Findings, mkF("document-not-reproduced", "Marshal(Unmarshal(D)) is D up to boolean forms, integral floats and omitted zero-valued keywords", d))
				return res
			}
		}
	}
	// scaffold observations: second marshal byte-identical
	b2, err := json.Marshal(s2)
	sameBytes := string(b2) == string(b1)
	if !sameBytes && err == nil && hasPropertyOrder(s1) {
		// with a PropertyOrder (which is not part of the JSON) only the JSON value must be the same
		var x, y any
		json.Unmarshal(b1, &x)
		json.Unmarshal(b2, &y)
		sameBytes = reflect.DeepEqual(x, y)
	}
	if err != nil || !sameBytes {
		res.Findings = append(res.Findings, mkF("remarshal-differs", string(b1), fmt.Sprintf("%s (err %v)", b2, err)))
		return res
	}
	rs2, err2 := s2.Resolve(nil)
	if (err1 == nil) != (err2 == nil) {
		res.Findings = append(res.Findings, mkF("resolve-differs", fmt.Sprintf("original resolves: %v", err1), fmt.Sprintf("round-tripped resolves: %v", err2)))
		return res
	}
	if err1 != nil {
		res.ResolveErrorAgreed = true
		return res
	}
	m := w.NewMachine()
	res.Stats = m.Stats
	root := m.NewNode("I", ec.Tm)
	validate := m.P.Func("(*Resolved).Validate")
	npath := 0
	m.Explore(func(m *sx.Machine) sx.Value {
		e1 := ImportResolved(m, rs1, false)
		e2 := ImportResolved(m, rs2, false)
		v1 := m.Call(validate, e1, sx.Iface{T: m.P.NodeT, V: root})
		v2 := m.Call(validate, e2, sx.Iface{T: m.P.NodeT, V: root})
		return sx.Tuple{v1, v2}
	}, func(m *sx.Machine, r *sx.PathResult) {
		if r.Outcome != sx.OutReturn {
			if r.Outcome == sx.OutPanic {
				res.Inconclusive = append(res.Inconclusive, "panic during equivalence run: "+r.Msg)
			} else {
				res.Inconclusive = append(res.Inconclusive, r.Outcome+": "+r.Msg)
			}
			return
		}
		tu := r.Ret.(sx.Tuple)
		n1 := tu[0].(sx.Iface).T == nil
		n2 := tu[1].(sx.Iface).T == nil
		npath++
		if n1 == n2 {
			res.VerdictUnsat++ // on this path (a class of instances decided feasible by the solver) both schemas agree
			if n1 {
				res.SawNil = true
			} else {
				res.SawErr = true
			}
			if (npath <= 20 || npath%8 == 0) && m.S.Check() == smt.Sat {
				if inst, _, err := w.modelInstances(m, root, nil); err == nil {
					a, _ := nativeVerdict(rs1, inst)
					b, _ := nativeVerdict(rs2, inst)
					if (a == VNil) != n1 || (b == VNil) != n2 {
						res.EngineErrors = append(res.EngineErrors, fmt.Sprintf("path validation: engine (%v,%v) native (%s,%s) on %s", n1, n2, a, b, DescribeGo(inst)))
					} else {
						res.Validated++
						if res.Sample == nil {
							res.Sample = map[string]any{"schema": desc, "round_tripped": string(b1), "instance": DescribeGo(inst), "both_accept": n1}
						}
					}
				}
			}
			return
		}
		res.VerdictSat++
		if len(res.Findings) >= 2 {
			return
		}
		if m.S.Check() != smt.Sat {
			res.Inconclusive = append(res.Inconclusive, "path condition not satisfiable at end of path")
			return
		}
		inst, _, err := w.modelInstances(m, root, nil)
		if err != nil {
			res.Inconclusive = append(res.Inconclusive, "counterexample model not realizable: "+err.Error())
			return
		}
		a, _ := nativeVerdict(rs1, inst)
		b, _ := nativeVerdict(rs2, inst)
		if a == b {
			res.EngineErrors = append(res.EngineErrors, "counterexample does not reproduce: "+DescribeGo(inst))
			return
		}
		f := mkF("roundtrip-changes-verdict", "original: "+a.String(), "after Marshal/Unmarshal: "+b.String())
		f.Instance, f.GoValue = canonicalJSON(inst), DescribeGo(inst)
		res.Findings = append(res.Findings, f)
	})
	res.Paths = m.Stats.Paths
	res.Forks = m.Stats.Forks
	res.Steps = m.Stats.Steps
	if m.Stats.PathsCapped {
		res.Inconclusive = append(res.Inconclusive, "path budget exceeded")
	}
	res.Solver = w.S.Stats
	return res
}

// GoSchemaFamily (F-goschema): for the exported fields of Schema, the values nil /
// empty-but-present / null constant / one element / nested, one or two fields at a time,
// respecting the documented exclusivity rules.
func GoSchemaFamily() []*EquivCase {
	P := func(f float64) *float64 { return &f }
	I := func(i int) *int { return &i }
	anyp := func(v any) *any { return &v }
	str := &jsonschema.Schema{Type: "string"}
	intS := &jsonschema.Schema{Type: "integer"}
	type mk struct {
		name string
		f    func(s *jsonschema.Schema)
	}
	parts := []mk{
		{"Type", func(s *jsonschema.Schema) { s.Type = "integer" }},
		{"Types", func(s *jsonschema.Schema) { s.Types = []string{"integer", "null"} }},
		{"TypesEmpty", func(s *jsonschema.Schema) { s.Types = []string{} }},
		{"Enum", func(s *jsonschema.Schema) { s.Enum = []any{1.0, "a", nil} }},
		{"EnumEmpty", func(s *jsonschema.Schema) { s.Enum = []any{} }},
		{"EnumNested", func(s *jsonschema.Schema) { s.Enum = []any{[]any{}, map[string]any{}} }},
		{"ConstNull", func(s *jsonschema.Schema) { s.Const = anyp(nil) }},
		{"ConstNum", func(s *jsonschema.Schema) { s.Const = anyp(2.0) }},
		{"ConstObj", func(s *jsonschema.Schema) { s.Const = anyp(map[string]any{"a": []any{1.0}}) }},
		{"MultipleOf", func(s *jsonschema.Schema) { s.MultipleOf = P(0.5) }},
		{"Minimum0", func(s *jsonschema.Schema) { s.Minimum = P(0) }},
		{"MaximumBig", func(s *jsonschema.Schema) { s.Maximum = P(math.Ldexp(1, 60)) }},
		{"ExclMinNeg", func(s *jsonschema.Schema) { s.ExclusiveMinimum = P(-2.5) }},
		{"ExclMax", func(s *jsonschema.Schema) { s.ExclusiveMaximum = P(3) }},
		{"MinLength0", func(s *jsonschema.Schema) { s.MinLength = I(0) }},
		{"MaxLength2", func(s *jsonschema.Schema) { s.MaxLength = I(2) }},
		{"Pattern", func(s *jsonschema.Schema) { s.Pattern = "^a" }},
		{"PrefixItems", func(s *jsonschema.Schema) { s.PrefixItems = []*jsonschema.Schema{intS.CloneSchemas()} }},
		{"PrefixItemsEmpty", func(s *jsonschema.Schema) { s.PrefixItems = []*jsonschema.Schema{} }},
		{"Items", func(s *jsonschema.Schema) { s.Items = str.CloneSchemas() }},
		{"ItemsEmptySchema", func(s *jsonschema.Schema) { s.Items = &jsonschema.Schema{} }},
		{"ItemsFalse", func(s *jsonschema.Schema) { s.Items = &jsonschema.Schema{Not: &jsonschema.Schema{}} }},
		{"MinItems0", func(s *jsonschema.Schema) { s.MinItems = I(0) }},
		{"MaxItems0", func(s *jsonschema.Schema) { s.MaxItems = I(0) }},
		{"UniqueItems", func(s *jsonschema.Schema) { s.UniqueItems = true }},
		{"Contains", func(s *jsonschema.Schema) { s.Contains = intS.CloneSchemas() }},
		{"ContainsMin0", func(s *jsonschema.Schema) { s.Contains = intS.CloneSchemas(); s.MinContains = I(0) }},
		{"MaxContains", func(s *jsonschema.Schema) { s.Contains = intS.CloneSchemas(); s.MaxContains = I(1) }},
		{"UnevaluatedItems", func(s *jsonschema.Schema) { s.UnevaluatedItems = &jsonschema.Schema{Not: &jsonschema.Schema{}} }},
		{"MinProperties0", func(s *jsonschema.Schema) { s.MinProperties = I(0) }},
		{"MaxProperties1", func(s *jsonschema.Schema) { s.MaxProperties = I(1) }},
		{"Required", func(s *jsonschema.Schema) { s.Required = []string{"a"} }},
		{"RequiredEmpty", func(s *jsonschema.Schema) { s.Required = []string{} }},
		{"DependentRequired", func(s *jsonschema.Schema) { s.DependentRequired = map[string][]string{"a": {"b"}} }},
		{"DependentRequiredEmptyList", func(s *jsonschema.Schema) { s.DependentRequired = map[string][]string{"a": {}} }},
		{"Properties", func(s *jsonschema.Schema) { s.Properties = map[string]*jsonschema.Schema{"a": intS.CloneSchemas()} }},
		{"PropertiesEmpty", func(s *jsonschema.Schema) { s.Properties = map[string]*jsonschema.Schema{} }},
		{"PropertiesOrder", func(s *jsonschema.Schema) {
			s.Properties = map[string]*jsonschema.Schema{"a": intS.CloneSchemas(), "b": str.CloneSchemas()}
			s.PropertyOrder = []string{"b", "a"}
		}},
		{"PropertiesOddNames", func(s *jsonschema.Schema) {
			// names that need JSON escaping (control characters, DEL, quote, backslash, non-BMP)
			s.Properties = map[string]*jsonschema.Schema{"soh\x01": intS.CloneSchemas(), "del\x7f": str.CloneSchemas(), "q\"\\": {Not: &jsonschema.Schema{}}, "tag\U000e0001": intS.CloneSchemas(), "\u2028": str.CloneSchemas()}
			s.PatternProperties = map[string]*jsonschema.Schema{"^\x02": str.CloneSchemas()}
			s.Defs = map[string]*jsonschema.Schema{"bel\x07": intS.CloneSchemas()}
			s.DependentRequired = map[string][]string{"soh\x01": {"del\x7f"}}
			s.Required = []string{"esc\x1b"}
		}},
		{"PropertiesOrderStale", func(s *jsonschema.Schema) {
			// as long as the map, but names a property that does not exist: b is unlisted
			s.Properties = map[string]*jsonschema.Schema{"a": intS.CloneSchemas(), "b": {Not: &jsonschema.Schema{}}}
			s.PropertyOrder = []string{"a", "gone"}
		}},
		{"PropertiesOrderSubset", func(s *jsonschema.Schema) {
			s.Properties = map[string]*jsonschema.Schema{"a": intS.CloneSchemas(), "b": {Not: &jsonschema.Schema{}}, "zz": str.CloneSchemas()}
			s.PropertyOrder = []string{"zz"}
		}},
		{"PropertiesOrderSuperset", func(s *jsonschema.Schema) {
			s.Properties = map[string]*jsonschema.Schema{"a": intS.CloneSchemas(), "b": {Not: &jsonschema.Schema{}}}
			s.PropertyOrder = []string{"gone1", "b", "gone2", "gone3"}
		}},
		{"PatternProperties", func(s *jsonschema.Schema) {
			s.PatternProperties = map[string]*jsonschema.Schema{"^a": str.CloneSchemas()}
		}},
		{"AdditionalPropertiesFalse", func(s *jsonschema.Schema) { s.AdditionalProperties = &jsonschema.Schema{Not: &jsonschema.Schema{}} }},
		{"AdditionalPropertiesTrue", func(s *jsonschema.Schema) { s.AdditionalProperties = &jsonschema.Schema{} }},
		{"PropertyNames", func(s *jsonschema.Schema) { s.PropertyNames = &jsonschema.Schema{MaxLength: I(1)} }},
		{"UnevaluatedProperties", func(s *jsonschema.Schema) { s.UnevaluatedProperties = str.CloneSchemas() }},
		{"AllOf", func(s *jsonschema.Schema) { s.AllOf = []*jsonschema.Schema{intS.CloneSchemas(), {Minimum: P(1)}} }},
		{"AllOfEmpty", func(s *jsonschema.Schema) { s.AllOf = []*jsonschema.Schema{} }},
		{"AnyOf", func(s *jsonschema.Schema) { s.AnyOf = []*jsonschema.Schema{intS.CloneSchemas(), str.CloneSchemas()} }},
		{"AnyOfEmpty", func(s *jsonschema.Schema) { s.AnyOf = []*jsonschema.Schema{} }},
		{"OneOf", func(s *jsonschema.Schema) { s.OneOf = []*jsonschema.Schema{intS.CloneSchemas(), {Minimum: P(1)}} }},
		{"OneOfEmpty", func(s *jsonschema.Schema) { s.OneOf = []*jsonschema.Schema{} }},
		{"Not", func(s *jsonschema.Schema) { s.Not = intS.CloneSchemas() }},
		{"NotEmpty", func(s *jsonschema.Schema) { s.Not = &jsonschema.Schema{} }},
		{"NotNotEmpty", func(s *jsonschema.Schema) { s.Not = &jsonschema.Schema{Not: &jsonschema.Schema{}} }},
		{"IfThenElse", func(s *jsonschema.Schema) {
			s.If, s.Then, s.Else = intS.CloneSchemas(), &jsonschema.Schema{Minimum: P(1)}, str.CloneSchemas()
		}},
		{"DependentSchemas", func(s *jsonschema.Schema) {
			s.DependentSchemas = map[string]*jsonschema.Schema{"a": {Required: []string{"b"}}}
		}},
		{"DefsRef", func(s *jsonschema.Schema) {
			s.Ref = "#/$defs/d"
			s.Defs = map[string]*jsonschema.Schema{"d": intS.CloneSchemas()}
		}},
		{"DefsEmpty", func(s *jsonschema.Schema) { s.Defs = map[string]*jsonschema.Schema{} }},
		{"AnchorRef", func(s *jsonschema.Schema) {
			s.Ref = "#x"
			s.Defs = map[string]*jsonschema.Schema{"d": {Anchor: "x", Type: "string"}}
		}},
		{"Metadata", func(s *jsonschema.Schema) {
			s.Title, s.Description, s.Comment, s.Deprecated, s.ReadOnly, s.WriteOnly = "t", "d", "c", true, true, true
			s.Default, s.Examples, s.Format = json.RawMessage(`{"a":[1,null]}`), []any{nil, 1.0}, "email"
		}},
		{"DefaultNull", func(s *jsonschema.Schema) { s.Default = json.RawMessage(`null`) }},
		{"ExamplesEmpty", func(s *jsonschema.Schema) { s.Examples = []any{} }},
		{"Extra", func(s *jsonschema.Schema) {
			s.Extra = map[string]any{"x-a": 1.0, "X": map[string]any{"type": "string"}, "Type": "string"}
		}},
		{"ExtraCaseVariants", func(s *jsonschema.Schema) {
			s.Type = "string"
			s.Extra = map[string]any{"MaxLength": 1.0, "minlength": 5.0, "UNIQUEITEMS": true, "Required": []any{"a"}, "additionalproperties": false}
		}},
		{"ExtraEmpty", func(s *jsonschema.Schema) { s.Extra = map[string]any{} }},
		{"Content", func(s *jsonschema.Schema) {
			s.ContentEncoding, s.ContentMediaType, s.ContentSchema = "base64", "application/json", intS.CloneSchemas()
		}},
		// draft-07 shapes
		{"D7ItemsArray", func(s *jsonschema.Schema) {
			s.Schema = d7http
			s.ItemsArray = []*jsonschema.Schema{intS.CloneSchemas()}
			s.AdditionalItems = &jsonschema.Schema{Not: &jsonschema.Schema{}}
		}},
		{"D7ItemsArrayEmpty", func(s *jsonschema.Schema) {
			s.Schema = d7http
			s.ItemsArray = []*jsonschema.Schema{}
			s.AdditionalItems = &jsonschema.Schema{Not: &jsonschema.Schema{}}
		}},
		{"D7Dependencies", func(s *jsonschema.Schema) {
			s.Schema = d7https
			s.DependencySchemas = map[string]*jsonschema.Schema{"a": {Required: []string{"b"}}}
			s.DependencyStrings = map[string][]string{"b": {"c"}}
		}},
		{"D7DependencyStringsEmpty", func(s *jsonschema.Schema) {
			s.Schema = d7http
			s.DependencyStrings = map[string][]string{"a": {}}
		}},
		{"D7Definitions", func(s *jsonschema.Schema) {
			s.Schema = d7http
			s.Ref = "#/definitions/d"
			s.Definitions = map[string]*jsonschema.Schema{"d": intS.CloneSchemas()}
		}},
	}
	var out []*EquivCase
	build := func(ps ...mk) *jsonschema.Schema {
		s := &jsonschema.Schema{}
		for _, p := range ps {
			p.f(s)
		}
		return s
	}
	for _, p := range parts {
		out = append(out, &EquivCase{Name: "F-goschema/" + p.name, S: build(p), Draft: refsem.Draft2020})
	}
	// pairs: each part with a few fixed companions
	var companions []int
	for i, p := range parts {
		switch p.name {
		case "Type", "Enum", "Properties", "UnevaluatedProperties", "IfThenElse":
			companions = append(companions, i)
		}
	}
	for i, p := range parts {
		for _, ci := range companions {
			if ci == i {
				continue
			}
			q := parts[ci]
			s := build(q, p)
			out = append(out, &EquivCase{Name: "F-goschema/" + q.name + "+" + p.name, S: s, Draft: refsem.Draft2020})
		}
	}
	// nested: the part inside properties and inside items
	for _, p := range parts {
		inner := build(p)
		if inner.Schema != "" || inner.Ref != "" {
			continue
		}
		out = append(out, &EquivCase{Name: "F-goschema/nested.properties." + p.name, S: &jsonschema.Schema{Properties: map[string]*jsonschema.Schema{"a": inner}}, Draft: refsem.Draft2020})
		out = append(out, &EquivCase{Name: "F-goschema/nested.anyOf." + p.name, S: &jsonschema.Schema{AnyOf: []*jsonschema.Schema{build(p), {Type: "null"}}}, Draft: refsem.Draft2020})
	}
	for _, c := range out {
		c.Tm = &sx.Tmpl{Depth: 2, MaxLen: 2, Keys: []string{"a", "b", "zz"}}
	}
	return out
}

func hasPropertyOrder(s *jsonschema.Schema) bool {
	found := false
	var walk func(v reflect.Value)
	walk = func(v reflect.Value) {
		if found {
			return
		}
		switch v.Kind() {
		case reflect.Pointer:
			if !v.IsNil() {
				if sp, ok := v.Interface().(*jsonschema.Schema); ok && len(sp.PropertyOrder) > 0 {
					found = true
					return
				}
				walk(v.Elem())
			}
		case reflect.Struct:
			for i := 0; i < v.NumField(); i++ {
				if v.Type().Field(i).IsExported() {
					walk(v.Field(i))
				}
			}
		case reflect.Slice:
			for i := 0; i < v.Len(); i++ {
				walk(v.Index(i))
			}
		case reflect.Map:
			it := v.MapRange()
			for it.Next() {
				walk(it.Value())
			}
		}
	}
	walk(reflect.ValueOf(s))
	return found
}
