package hx

import (
	"encoding/json"
	"fmt"
	"go/types"

	"github.com/google/jsonschema-go/jsonschema"

	"verif/engine/smt"
	"verif/engine/sx"
)

// Non-asserting Schema fields (C18a): after import they are replaced by fresh,
// unconstrained symbolic values; the oracle ignores them, so any influence on the
// verdict shows up as a satisfiable verdict query.
var metaStringFields = []string{"Title", "Description", "Comment", "Format", "ContentEncoding", "ContentMediaType"}
var metaBoolFields = []string{"Deprecated", "ReadOnly", "WriteOnly"}

func havocMeta(m *sx.Machine, ers sx.Value) {
	resolvedT := m.P.NamedType("Resolved")
	schemaT := m.P.NamedType("Schema")
	infosIdx := sx.FieldIndex(resolvedT, "resolvedInfos")
	infos := (*ers.(*sx.Value)).(sx.Struct)[infosIdx].(*sx.OMap)
	c := m.Ctx
	tm := &sx.Tmpl{Depth: 0, MaxLen: 0}
	for i, k := range infos.Keys() {
		sch := (*k.(*sx.Value)).(sx.Struct)
		for _, f := range metaStringFields {
			idx := sx.FieldIndex(schemaT, f)
			if idx < 0 {
				panic("anchor-missing: Schema." + f)
			}
			v := c.Var(fmt.Sprintf("havoc.%d.%s", i, f), smt.SStr)
			sch[idx] = &sx.AStr{T: v}
		}
		for _, f := range metaBoolFields {
			idx := sx.FieldIndex(schemaT, f)
			if idx < 0 {
				panic("anchor-missing: Schema." + f)
			}
			sch[idx] = c.Var(fmt.Sprintf("havoc.%d.%s", i, f), smt.SBool)
		}
		// default: arbitrary raw bytes; examples: a list holding an arbitrary JSON value; Extra: an arbitrary entry
		if idx := sx.FieldIndex(schemaT, "Default"); idx >= 0 {
			b0 := c.Var(fmt.Sprintf("havoc.%d.default0", i), smt.SInt)
			sch[idx] = []sx.Value{sx.SymInt{T: b0}, uint64('1')}
		}
		if idx := sx.FieldIndex(schemaT, "Examples"); idx >= 0 {
			n := m.NewNode(fmt.Sprintf("havoc.%d.example", i), tm)
			sch[idx] = []sx.Value{sx.Iface{T: m.P.NodeT, V: n}}
		}
		if idx := sx.FieldIndex(schemaT, "Extra"); idx >= 0 {
			n := m.NewNode(fmt.Sprintf("havoc.%d.extra", i), tm)
			om := sx.NewOMap(types.Typ[types.String])
			om.Set(m, "x-unknown", sx.Iface{T: m.P.NodeT, V: n})
			om.Set(m, "Type", sx.Iface{T: m.P.NodeT, V: n})
			sch[idx] = om
		}
	}
}

// decorate adds non-asserting keywords with non-zero values to every subschema of a document.
func decorate(v any) any {
	switch x := v.(type) {
	case map[string]any:
		out := map[string]any{}
		for k, e := range x {
			switch k {
			case "properties", "patternProperties", "$defs", "definitions", "dependentSchemas":
				mm, _ := e.(map[string]any)
				o := map[string]any{}
				for kk, ee := range mm {
					o[kk] = decorate(ee)
				}
				out[k] = o
			case "allOf", "anyOf", "oneOf", "prefixItems":
				l, _ := e.([]any)
				var o []any
				for _, ee := range l {
					o = append(o, decorate(ee))
				}
				out[k] = o
			case "not", "if", "then", "else", "items", "contains", "additionalProperties", "propertyNames", "unevaluatedItems", "unevaluatedProperties", "additionalItems":
				if l, ok := e.([]any); ok {
					var o []any
					for _, ee := range l {
						o = append(o, decorate(ee))
					}
					out[k] = o
				} else {
					out[k] = decorate(e)
				}
			default:
				out[k] = e
			}
		}
		for k, e := range map[string]any{"title": "t", "description": "d", "$comment": "c", "default": 1, "examples": []any{"e"}, "deprecated": true, "readOnly": true, "writeOnly": true,
			"format": "email", "contentEncoding": "base64", "contentMediaType": "application/json", "x-unknown": map[string]any{"type": "string"}, "unknownKeyword": 5} {
			if _, has := out[k]; !has {
				out[k] = e
			}
		}
		return out
	}
	return v
}

// decoratedVerdictDiffers replays natively: does Validate answer differently on the
// decorated and the undecorated schema for this instance?
func decoratedVerdictDiffers(sk *Skeleton, inst any) (bool, string) {
	var doc any
	if json.Unmarshal([]byte(sk.Doc), &doc) != nil {
		return false, "document is not an object"
	}
	dd, _ := json.Marshal(decorate(doc))
	opts := func() *jsonschema.ResolveOptions {
		o := &jsonschema.ResolveOptions{BaseURI: sk.BaseURI}
		return o
	}
	rs1, _, err1 := ResolveDoc([]byte(sk.Doc), draftDefaultURI(sk.Draft), opts())
	rs2, _, err2 := ResolveDoc(dd, draftDefaultURI(sk.Draft), opts())
	if err1 != nil || err2 != nil {
		return (err1 == nil) != (err2 == nil), fmt.Sprintf("resolve: %v / decorated: %v", err1, err2)
	}
	v1, _ := nativeVerdict(rs1, inst)
	v2, m2 := nativeVerdict(rs2, inst)
	return v1 != v2, fmt.Sprintf("undecorated=%s decorated=%s %s (decorated schema %s)", v1, v2, m2, dd)
}

// caseVariantScaffold enumerates, natively, documents {K': V} where K' differs from a
// vocabulary keyword K only in letter case. Such a K' is an unknown keyword: Unmarshal must
// accept the document and the schema must behave like the empty schema.
func caseVariantScaffold() (checked int, bad []string) {
	names := map[string]bool{"type": true, "items": true, "dependencies": true, "const": true}
	for _, nf := range jsonschema.VerifSchemaFieldNames() {
		for i := 0; i < len(nf); i++ {
			if nf[i] == '=' {
				names[nf[:i]] = true
			}
		}
	}
	variants := func(k string) []string {
		var out []string
		up := []byte(k)
		for i := range up {
			if up[i] >= 'a' && up[i] <= 'z' {
				up[i] -= 32
			}
		}
		out = append(out, string(up))
		for i := 0; i < len(k); i++ {
			if k[i] >= 'a' && k[i] <= 'z' {
				b := []byte(k)
				b[i] -= 32
				out = append(out, string(b))
				break
			}
		}
		return out
	}
	values := []string{`"string"`, `5`, `true`, `{"type":"string"}`, `["a"]`, `null`}
	pool := []any{nil, true, 1.5, "s", []any{1.0}, map[string]any{"a": 1.0}}
	for k := range names {
		for _, kv := range variants(k) {
			if names[kv] || kv == k {
				continue
			}
			for _, v := range values {
				doc := fmt.Sprintf(`{%q:%s}`, kv, v)
				checked++
				s := new(jsonschema.Schema)
				if err := json.Unmarshal([]byte(doc), s); err != nil {
					bad = append(bad, doc+": Unmarshal: "+err.Error())
					continue
				}
				rs, err := s.Resolve(nil)
				if err != nil {
					bad = append(bad, doc+": Resolve: "+err.Error())
					continue
				}
				for _, inst := range pool {
					if v, msg := nativeVerdict(rs, inst); v != VNil {
						bad = append(bad, fmt.Sprintf("%s rejects %v: %s", doc, inst, trunc(msg, 80)))
						break
					}
				}
			}
		}
	}
	return
}
