package hx

import (
	"encoding/json"
	"fmt"
	"math/rand"
	"sort"

	"verif/engine/refsem"
	"verif/engine/sx"
)

// J is a JSON object under construction.
type J = map[string]any
type A = []any

func js(v any) string {
	b, err := json.Marshal(v)
	if err != nil {
		panic(err)
	}
	return string(b)
}

func merge(ms ...J) J {
	out := J{}
	for _, m := range ms {
		for k, v := range m {
			out[k] = v
		}
	}
	return out
}

// Frag is a named schema fragment (one keyword, possibly with a companion it needs).
type Frag struct {
	Name  string
	J     J
	Group string
}

// leaf subschemas: each can be made to pass or fail through the child's tag/value
var (
	lInt   = J{"type": "integer"}
	lMin3  = J{"minimum": 3}
	lX     = J{"const": "x"}
	lStr2  = J{"type": "string", "maxLength": 2}
	lReqB  = J{"required": A{"b"}}
	lNull  = J{"type": "null"}
	lNum   = J{"type": "number"}
	lBoolT = J{"type": "boolean"}
)

func objectFrags() []Frag {
	g := "object"
	return []Frag{
		{"props1", J{"properties": J{"a": lInt}}, g},
		{"props2", J{"properties": J{"a": lMin3, "b": lX}}, g},
		{"propsFalse", J{"properties": J{"a": false}}, g},
		{"pattern", J{"patternProperties": J{"^a": lStr2}}, g},
		{"pattern2", J{"patternProperties": J{"^a": lInt, "b$": lMin3}}, g},
		{"addlFalse", J{"additionalProperties": false}, g},
		{"addlSchema", J{"additionalProperties": lInt}, g},
		{"propNames", J{"propertyNames": J{"maxLength": 1}}, g},
		{"propNamesPat", J{"propertyNames": J{"pattern": "^[ab]"}}, g},
		{"required", J{"required": A{"a"}}, g},
		{"required2", J{"required": A{"a", "b"}}, g},
		{"minProps", J{"minProperties": 1}, g},
		{"maxProps", J{"maxProperties": 1}, g},
		{"depReq", J{"dependentRequired": J{"a": A{"b"}}}, g},
		{"depSchema", J{"dependentSchemas": J{"a": J{"properties": J{"b": lInt}}}}, g},
		{"depSchemaReq", J{"dependentSchemas": J{"a": lReqB}}, g},
		{"unevalFalse", J{"unevaluatedProperties": false}, g},
		{"unevalSchema", J{"unevaluatedProperties": lStr2}, g},
	}
}

func arrayFrags() []Frag {
	g := "array"
	return []Frag{
		{"prefix1", J{"prefixItems": A{lInt}}, g},
		{"prefix2", J{"prefixItems": A{lMin3, lX}}, g},
		{"items", J{"items": lInt}, g},
		{"itemsFalse", J{"items": false}, g},
		{"contains", J{"contains": lX}, g},
		{"containsMin0", J{"contains": lInt, "minContains": 0}, g},
		{"containsMin2", J{"contains": lMin3, "minContains": 2}, g},
		{"containsMax1", J{"contains": lInt, "maxContains": 1}, g},
		{"minContainsAlone", J{"minContains": 1}, g},
		{"minItems", J{"minItems": 1}, g},
		{"maxItems", J{"maxItems": 1}, g},
		{"unique", J{"uniqueItems": true}, g},
		{"unevalFalse", J{"unevaluatedItems": false}, g},
		{"unevalSchema", J{"unevaluatedItems": lBoolT}, g},
	}
}

func scalarFrags() []Frag {
	g := "scalar"
	var out []Frag
	for _, t := range []string{"null", "boolean", "integer", "number", "string", "array", "object"} {
		out = append(out, Frag{"type-" + t, J{"type": t}, g})
	}
	out = append(out,
		Frag{"types-int-str", J{"type": A{"integer", "string"}}, g},
		Frag{"types-num-null", J{"type": A{"number", "null"}}, g},
		Frag{"enumMixed", J{"enum": A{1, "a", nil, true, 2.5}}, g},
		Frag{"enumEmpty", J{"enum": A{}}, g},
		Frag{"typesEmpty", J{"type": A{}}, g},
		Frag{"enumDeep", J{"enum": A{A{1}, J{"a": nil}, A{}}}, g},
		Frag{"constNum", J{"const": 2}, g},
		Frag{"constNull", J{"const": nil}, g},
		Frag{"constObj", J{"const": J{"a": 1}}, g},
		Frag{"minimum", J{"minimum": 1.5}, g},
		Frag{"maximum", J{"maximum": -2}, g},
		Frag{"exclMin", J{"exclusiveMinimum": 0}, g},
		Frag{"exclMax", J{"exclusiveMaximum": 9007199254740992}, g},
		Frag{"multipleOf2", J{"multipleOf": 2}, g},
		Frag{"multipleOfQuarter", J{"multipleOf": 0.25}, g},
		Frag{"minLength", J{"minLength": 2}, g},
		Frag{"maxLength", J{"maxLength": 2}, g},
		Frag{"pattern", J{"pattern": "^a+$"}, g},
	)
	return out
}

// logicWraps wrap one or two subschemas in an in-place applicator.
type wrap struct {
	Name string
	F    func(x, y J) J
}

func logicWraps() []wrap {
	return []wrap{
		{"allOf", func(x, y J) J { return J{"allOf": A{x, y}} }},
		{"anyOf", func(x, y J) J { return J{"anyOf": A{x, y}} }},
		{"oneOf", func(x, y J) J { return J{"oneOf": A{x, y}} }},
		{"not", func(x, y J) J { return merge(J{"not": x}, y) }},
		{"ifThenElse", func(x, y J) J { return J{"if": x, "then": y, "else": J{"not": y}} }},
		{"ifThen", func(x, y J) J { return merge(J{"if": x, "then": y}) }},
		{"ref", func(x, y J) J { return merge(J{"$ref": "#/$defs/d", "$defs": J{"d": x}}, y) }},
		{"anchorRef", func(x, y J) J { return merge(J{"$ref": "#here", "$defs": J{"d": merge(J{"$anchor": "here"}, x)}}, y) }},
	}
}

// TmplSpec chooses template bounds per group and tier.
type TmplSpec struct {
	Depth, MaxLen, MaxKeys int
}

func (s TmplSpec) For(docs ...string) *sx.Tmpl { return TmplFor(docs, s.Depth, s.MaxLen, s.MaxKeys) }

func mkSkel(family, name string, doc J, draft int, ts TmplSpec) *Skeleton {
	d := js(doc)
	return &Skeleton{Name: family + "/" + name, Family: family, Doc: d, Draft: draft, Tm: ts.For(d)}
}

// FamilySingle: each validating keyword alone (draft 2020-12).
func FamilySingle(ts TmplSpec) []*Skeleton {
	var out []*Skeleton
	for _, fs := range [][]Frag{scalarFrags(), arrayFrags(), objectFrags()} {
		for _, f := range fs {
			t := ts
			if f.Name == "unique" || f.Name == "enumDeep" || f.Name == "constObj" {
				t.Depth = 1
			}
			out = append(out, mkSkel("F-single", f.Group+"."+f.Name, f.J, refsem.Draft2020, t))
		}
	}
	for _, w := range logicWraps() {
		out = append(out, mkSkel("F-single", "logic."+w.Name, w.F(lInt, lMin3), refsem.Draft2020, ts))
	}
	// wide keywords (fast paths keyed on sizes): many declared names, sparse instances
	wideProps := J{}
	var wideNames A
	for _, k := range []string{"p1", "p2", "p3", "p4", "p5", "p6", "p7", "p8", "p9"} {
		wideProps[k] = true
		wideNames = append(wideNames, k)
	}
	for _, wd := range []Frag{
		{"props9-addlFalse", J{"properties": wideProps, "additionalProperties": false}, "wide"},
		{"props9-unevalFalse", J{"properties": wideProps, "unevaluatedProperties": false}, "wide"},
		{"props9-typed", J{"properties": J{"p1": lInt, "p2": lInt, "p3": lX, "p4": true, "p5": true, "p6": true, "p7": true, "p8": true, "p9": false}, "additionalProperties": lStr2}, "wide"},
		{"required9", J{"required": wideNames}, "wide"},
		{"enum12", J{"enum": A{0, 1, 2, 3, 4, 5, 6, 7, 8, 9, "a", nil}}, "wide"},
		{"prefix8", J{"prefixItems": A{true, true, true, true, true, true, true, lInt}, "items": false}, "wide"},
		{"depReq8", J{"dependentRequired": J{"p1": A{"p2", "p3", "p4", "p5", "p6", "p7", "p8", "p9"}}}, "wide"},
	} {
		sk := mkSkel("F-single", wd.Group+"."+wd.Name, wd.J, refsem.Draft2020, ts)
		// sparse instances: a few of the declared names and one undeclared
		tm := *sk.Tm
		tm.Keys = []string{"p1", "p9", "zz"}
		if wd.Name == "depReq8" || wd.Name == "required9" {
			tm.Keys = []string{"p1", "p2", "p9"}
		}
		if wd.Name == "prefix8" {
			tm.MaxLen = 3
		}
		sk.Tm = &tm
		out = append(out, sk)
	}
	// unknown keywords whose names differ from a vocabulary keyword only by case (ASCII or
	// Unicode folding), with well- and ill-typed values: they must stay unknown
	for _, u := range []Frag{
		{"casevar-MaxLength", J{"type": "string", "MaxLength": 1}, "unknown"},
		{"casevar-minitems", J{"type": "array", "minitems": 3, "uniqueitems": true}, "unknown"},
		{"casevar-Properties", J{"Properties": J{"a": false}, "REQUIRED": A{"a"}, "additionalproperties": false}, "unknown"},
		{"casevar-unicode", J{"con\u017ft": 1, "maxItem\u017f": 0, "\u212aeyword": 1, "min\u017fength": 9}, "unknown"},
		{"casevar-illtyped", J{"minlength": "x", "Minimum": "y", "TYPE": 5, "x-foo": J{"type": "string"}, "$Ref": "#/nowhere"}, "unknown"},
	} {
		out = append(out, mkSkel("F-single", u.Group+"."+u.Name, u.J, refsem.Draft2020, ts))
	}
	out = append(out, mkSkel("F-single", "bool.true", nil, refsem.Draft2020, ts))
	out[len(out)-1].Doc = "true"
	out = append(out, mkSkel("F-single", "bool.false", nil, refsem.Draft2020, ts))
	out[len(out)-1].Doc = "false"
	return out
}

func conflict(a, b J) bool {
	for k := range a {
		if _, ok := b[k]; ok {
			return true
		}
	}
	return false
}

// FamilyPair: all pairs of fragments inside each interaction group, plus each
// object/array fragment pair under every logic wrapper.
func FamilyPair(ts TmplSpec, withLogic bool) []*Skeleton {
	var out []*Skeleton
	for _, fs := range [][]Frag{scalarFrags(), arrayFrags(), objectFrags()} {
		for i := range fs {
			for j := i + 1; j < len(fs); j++ {
				if conflict(fs[i].J, fs[j].J) {
					continue
				}
				t := ts
				if fs[i].Name == "unique" || fs[j].Name == "unique" || fs[i].Name == "enumDeep" || fs[j].Name == "enumDeep" {
					t.Depth = 1
				}
				out = append(out, mkSkel("F-pair", fmt.Sprintf("%s.%s+%s", fs[i].Group, fs[i].Name, fs[j].Name), merge(fs[i].J, fs[j].J), refsem.Draft2020, t))
			}
		}
	}
	if withLogic {
		o, a := objectFrags(), arrayFrags()
		picks := [][2]Frag{
			{o[0], o[5]}, {o[1], o[16]}, {o[3], o[17]}, {o[9], o[16]}, {o[14], o[16]}, {o[0], o[9]},
			{a[0], a[12]}, {a[1], a[13]}, {a[4], a[12]}, {a[2], a[9]}, {a[5], a[12]},
		}
		for _, w := range logicWraps() {
			for _, pk := range picks {
				out = append(out, mkSkel("F-pair", fmt.Sprintf("logic.%s(%s.%s,%s)", w.Name, pk[0].Group, pk[0].Name, pk[1].Name), w.F(pk[0].J, pk[1].J), refsem.Draft2020, ts))
			}
		}
	}
	return out
}

// FamilyTriple: seeded sample of triples inside each group.
func FamilyTriple(ts TmplSpec, seed int64, n int) []*Skeleton {
	rng := rand.New(rand.NewSource(seed))
	var out []*Skeleton
	groups := [][]Frag{scalarFrags(), arrayFrags(), objectFrags()}
	seen := map[string]bool{}
	for len(out) < n {
		fs := groups[rng.Intn(len(groups))]
		idx := rng.Perm(len(fs))[:3]
		sort.Ints(idx)
		a, b, c := fs[idx[0]], fs[idx[1]], fs[idx[2]]
		if conflict(a.J, b.J) || conflict(a.J, c.J) || conflict(b.J, c.J) {
			continue
		}
		name := fmt.Sprintf("%s.%s+%s+%s", a.Group, a.Name, b.Name, c.Name)
		if seen[name] {
			continue
		}
		seen[name] = true
		t := ts
		for _, f := range []Frag{a, b, c} {
			if f.Name == "unique" || f.Name == "enumDeep" {
				t.Depth = 1
			}
		}
		out = append(out, mkSkel("F-triple", name, merge(a.J, b.J, c.J), refsem.Draft2020, t))
	}
	return out
}

// FamilyNest: unevaluated* under nested in-place applicators (C07).
func FamilyNest(ts TmplSpec, depth3 bool) []*Skeleton {
	var out []*Skeleton
	add := func(name string, doc J) { out = append(out, mkSkel("F-nest", name, doc, refsem.Draft2020, ts)) }
	pa := J{"properties": J{"a": lInt}}
	pb := J{"properties": J{"b": lX}}
	pbReq := J{"properties": J{"b": lX}, "required": A{"b"}}
	paStr := J{"properties": J{"a": J{"type": "string"}}}
	up := J{"unevaluatedProperties": false}
	// failing branch that has already recorded properties, followed by a passing one
	add("anyOf-fail-then-pass", merge(J{"anyOf": A{merge(pa, J{"required": A{"b"}}), pb}}, up))
	add("anyOf-both", merge(J{"anyOf": A{pa, pb}}, up))
	add("oneOf", merge(J{"oneOf": A{pbReq, paStr}}, up))
	add("allOf", merge(J{"allOf": A{pa, pb}}, up))
	add("not", merge(J{"not": J{"not": pa}}, up))
	add("not-direct", merge(J{"not": merge(pa, J{"required": A{"zz"}})}, up))
	add("if-then-else", merge(J{"if": merge(pa, J{"required": A{"a"}}), "then": pb, "else": J{"properties": J{"zz": true}}}, up))
	add("if-only", merge(J{"if": pa}, up))
	add("if-false-then", merge(J{"if": merge(pa, J{"required": A{"b"}}), "then": pb}, up))
	add("depSchemas", merge(J{"dependentSchemas": J{"a": pb}}, up))
	add("ref", merge(J{"$ref": "#/$defs/d", "$defs": J{"d": pa}}, up))
	add("dynamicRef", merge(J{"$dynamicRef": "#dyn", "$defs": J{"d": merge(J{"$dynamicAnchor": "dyn"}, pa)}}, up))
	// in-place applicators nested below the schema that holds unevaluated*: every successful branch counts
	add("allOf(anyOf-both)", merge(J{"allOf": A{J{"anyOf": A{pa, pb}}}}, up))
	add("ref(anyOf-both)", merge(J{"$ref": "#/$defs/d", "$defs": J{"d": J{"anyOf": A{pa, pb}}}}, up))
	add("anyOf(anyOf-both)", merge(J{"anyOf": A{J{"anyOf": A{pa, pb}}, J{"required": A{"zz"}}}}, up))
	add("if(anyOf-both)", merge(J{"if": J{"anyOf": A{pa, pb}}}, up))
	add("depSchemas(anyOf-both)", merge(J{"dependentSchemas": J{"a": J{"anyOf": A{pa, pb}}}}, up))
	add("allOf(oneOf)-then-later-fail", merge(J{"allOf": A{J{"anyOf": A{merge(pa, J{"allOf": A{pb, J{"required": A{"zz"}}}}), pb}}}}, up))
	add("cousins", J{"allOf": A{pa, merge(pb, up)}})
	add("nested-uneval", merge(J{"allOf": A{merge(pa, J{"unevaluatedProperties": lInt})}}, up))
	add("nested-uneval-true", merge(J{"anyOf": A{merge(pa, J{"unevaluatedProperties": true}), pb}}, up))
	add("child-location", merge(J{"properties": J{"a": merge(pb, up)}}, J{"unevaluatedProperties": lInt}))
	add("addl-under-allOf", merge(J{"allOf": A{merge(pa, J{"additionalProperties": lInt})}}, up))
	add("pattern-under-anyOf", merge(J{"anyOf": A{J{"patternProperties": J{"^a": lInt}}, J{"patternProperties": J{"^b": lInt}}}}, J{"unevaluatedProperties": lStr2}))
	add("uneval-schema", merge(J{"anyOf": A{pa, pbReq}}, J{"unevaluatedProperties": lStr2}))
	// arrays
	ui := J{"unevaluatedItems": false}
	p1 := J{"prefixItems": A{lInt}}
	p2 := J{"prefixItems": A{true, lX}}
	add("items.anyOf-fail-then-pass", merge(J{"anyOf": A{merge(p2, J{"minItems": 3}), p1}}, ui))
	add("items.anyOf-both", merge(J{"anyOf": A{p1, p2}}, ui))
	add("items.allOf(anyOf-both)", merge(J{"allOf": A{J{"anyOf": A{p1, p2}}}}, ui))
	add("items.ref(anyOf-both)", merge(J{"$ref": "#/$defs/d", "$defs": J{"d": J{"anyOf": A{p1, J{"contains": lX}}}}}, ui))
	add("items.branch-records-then-fails", merge(J{"anyOf": A{merge(p2, J{"allOf": A{p1, false}}), p1}}, ui))
	add("items.oneOf", merge(J{"oneOf": A{merge(p2, J{"minItems": 2}), merge(p1, J{"maxItems": 1})}}, ui))
	add("items.allOf", merge(J{"allOf": A{p1, p2}}, ui))
	add("items.allOf-longer-first", merge(J{"allOf": A{p2, p1}}, ui))
	add("items.anyOf-longer-first", merge(J{"anyOf": A{p2, p1}}, ui))
	add("items.ref-longer-then-shorter", merge(J{"$ref": "#/$defs/d", "$defs": J{"d": p2}, "allOf": A{p1}}, ui))
	add("items.items-then-prefix", merge(J{"allOf": A{J{"items": true}, p1}}, ui))
	add("props.allOf-more-first", merge(J{"allOf": A{J{"properties": J{"a": true, "b": true}}, pa}}, up))
	add("items.not", merge(J{"not": J{"not": p1}}, ui))
	add("items.if", merge(J{"if": merge(p1, J{"minItems": 1}), "then": p2, "else": J{"maxItems": 0}}, ui))
	add("items.contains", merge(J{"contains": lX}, ui))
	add("items.contains-anyOf", merge(J{"anyOf": A{J{"contains": lX}, J{"contains": lInt}}}, ui))
	add("items.contains-prefix", merge(J{"contains": lX}, p1, J{"unevaluatedItems": lBoolT}))
	add("items.contains-inside-prefix2", merge(J{"contains": lX}, J{"prefixItems": A{true, true}}, ui))
	add("items.contains-inside-prefix2-nested", merge(J{"allOf": A{J{"prefixItems": A{true, true}}, J{"contains": lX}}}, ui))
	add("items.contains-then-items", merge(J{"contains": lX, "items": lInt}, ui))
	add("items.items-under-allOf", merge(J{"allOf": A{J{"items": lInt}}}, ui))
	add("items.nested-uneval", merge(J{"allOf": A{merge(p1, J{"unevaluatedItems": lInt})}}, ui))
	add("items.cousins", J{"allOf": A{p1, merge(J{"prefixItems": A{true}}, ui, J{"maxItems": 1})}})
	add("items.ref", merge(J{"$ref": "#/$defs/d", "$defs": J{"d": p2}}, ui))
	add("items.child-location", merge(J{"prefixItems": A{merge(p1, ui)}}, J{"unevaluatedItems": lInt}))
	// trivial subschemas (true, {}, decorated-empty) still produce annotations
	for _, tv := range []struct {
		n string
		v any
	}{{"true", true}, {"empty", J{}}, {"title", J{"title": "t"}}} {
		add("items.contains-"+tv.n, merge(J{"contains": tv.v}, ui))
		add("items.contains-"+tv.n+"-under-allOf", merge(J{"allOf": A{J{"contains": tv.v, "minContains": 0}}}, ui))
		add("items.items-"+tv.n, merge(J{"items": tv.v}, ui))
		add("items.prefix-"+tv.n, merge(J{"prefixItems": A{tv.v}}, ui))
		add("props-"+tv.n, merge(J{"properties": J{"a": tv.v}, "patternProperties": J{"^b": tv.v}}, up))
		add("addl-"+tv.n+"-under-anyOf", merge(J{"anyOf": A{J{"additionalProperties": tv.v}}}, up))
		add("if-"+tv.n, merge(J{"if": tv.v, "then": pa}, up))
		add("uneval-"+tv.n+"-nested", merge(J{"allOf": A{J{"unevaluatedProperties": tv.v}}}, up))
	}
	add("items.contains-false", merge(J{"contains": false, "minContains": 0}, ui))
	// the same shapes supplied by a loader: the root only refers to them (a property computed from
	// the root document alone - e.g. "does anything use unevaluated*" - must not decide their fate)
	for _, rn := range []struct {
		n string
		d J
	}{
		{"remote.allOf", merge(J{"allOf": A{pa, pb}}, up)},
		{"remote.ref-anyOf-both", merge(J{"$ref": "#/$defs/d", "$defs": J{"d": J{"anyOf": A{pa, pb}}}}, up)},
		{"remote.if-then", merge(J{"if": merge(pa, J{"required": A{"a"}}), "then": pb}, up)},
		{"remote.items.allOf", merge(J{"allOf": A{p1, p2}}, ui)},
		{"remote.items.contains", merge(J{"contains": lX}, ui)},
	} {
		d := js(rn.d)
		sk := mkSkel("F-nest", rn.n, J{"$ref": "http://h/strict.json"}, refsem.Draft2020, ts)
		sk.Tm = ts.For(d)
		sk.Universe = map[string]string{"http://h/strict.json": d}
		out = append(out, sk)
		sk2 := mkSkel("F-nest", rn.n+"-under-property", J{"properties": J{"a": J{"$ref": "http://h/strict.json"}}}, refsem.Draft2020, ts)
		sk2.Tm = TmplFor([]string{d, `{"a":1}`}, ts.Depth, ts.MaxLen, ts.MaxKeys)
		sk2.Universe = map[string]string{"http://h/strict.json": d}
		out = append(out, sk2)
	}
	if depth3 {
		add("d3.anyOf-in-allOf", merge(J{"allOf": A{J{"anyOf": A{merge(pa, J{"required": A{"b"}}), pb}}, J{"oneOf": A{pbReq, paStr}}}}, up))
		add("d3.if-in-anyOf", merge(J{"anyOf": A{J{"if": merge(pa, J{"required": A{"a"}}), "then": pb}, J{"properties": J{"zz": lInt}, "required": A{"zz"}}}}, up))
		add("d3.not-in-oneOf", merge(J{"oneOf": A{J{"not": pbReq}, merge(pbReq, pa)}}, up))
		add("d3.ref-in-anyOf", merge(J{"anyOf": A{J{"$ref": "#/$defs/d"}, pb}, "$defs": J{"d": merge(pa, J{"required": A{"a"}})}}, up))
		add("d3.items.anyOf-in-allOf", merge(J{"allOf": A{J{"anyOf": A{merge(p2, J{"minItems": 3}), p1}}, J{"contains": lX}}}, ui))
	}
	return out
}
