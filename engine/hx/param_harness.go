package hx

import (
	"encoding/json"
	"fmt"
	"math"
	"math/big"
	"reflect"
	"sort"
	"strings"
	"time"

	"github.com/google/jsonschema-go/jsonschema"

	"verif/engine/refsem"
	"verif/engine/smt"
	"verif/engine/sx"
)

// Numeric keyword parameters made symbolic (C01: finite values decided against the
// oracle; C10: additionally +Inf/-Inf/NaN and the full int range, panics only).

var floatKws = map[string]string{"minimum": "Minimum", "maximum": "Maximum", "exclusiveMinimum": "ExclusiveMinimum", "exclusiveMaximum": "ExclusiveMaximum"}
var intKws = map[string]string{"minLength": "MinLength", "maxLength": "MaxLength", "minItems": "MinItems", "maxItems": "MaxItems", "minContains": "MinContains", "maxContains": "MaxContains", "minProperties": "MinProperties", "maxProperties": "MaxProperties"}

type param struct {
	key   string // schema pointer + "|" + keyword
	ptr   string
	kw    string
	field string
	node  *sx.Node  // float parameters: a number node
	cls   *smt.Term // float class (0 finite, 1 +Inf, 2 -Inf, 3 NaN) or nil
	ival  *smt.Term // int parameters
}

func (p *param) floatValue() *sx.SymFloat {
	f := *p.node.Float()
	f.Cls = p.cls
	return &f
}

// collectParams creates the symbolic parameters for every numeric keyword of the document.
func collectParams(m *sx.Machine, rr *refsem.Resolver, nonFinite bool) []*param {
	var out []*param
	c := m.Ctx
	tm := &sx.Tmpl{Depth: 0, MaxLen: 0}
	for _, loc := range rr.RootDoc.AllLocs() {
		mm, ok := loc.V.(map[string]any)
		if !ok {
			continue
		}
		var kws []string
		for kw := range mm {
			kws = append(kws, kw)
		}
		sort.Strings(kws)
		for _, kw := range kws {
			key := loc.Ptr + "|" + kw
			if f, ok := floatKws[kw]; ok {
				n := m.NewNode("P"+key, tm)
				m.AddBase(n.TagIs(sx.TagNumber))
				p := &param{key: key, ptr: loc.Ptr, kw: kw, field: f, node: n}
				if nonFinite {
					p.cls = c.Var("Pcls"+key, smt.SInt)
					m.AddBase(c.InRange(p.cls, big.NewInt(0), big.NewInt(3)))
					m.DeclareRange(p.cls, big.NewInt(0), big.NewInt(3))
					m.WantInModel(p.cls)
				}
				out = append(out, p)
			}
			if f, ok := intKws[kw]; ok {
				v := c.Var("Pint"+key, smt.SInt)
				lo, hi := big.NewInt(math.MinInt32), big.NewInt(math.MaxInt32)
				if nonFinite {
					lo, hi = big.NewInt(math.MinInt64), big.NewInt(math.MaxInt64)
				}
				m.AddBase(c.InRange(v, lo, hi))
				m.DeclareRange(v, lo, hi)
				m.WantInModel(v)
				out = append(out, &param{key: key, ptr: loc.Ptr, kw: kw, field: f, ival: v})
			}
		}
	}
	return out
}

// patchParams replaces the numeric keyword values of the imported schema tree by the symbolic parameters.
func patchParams(m *sx.Machine, ers sx.Value, params []*param) {
	resolvedT := m.P.NamedType("Resolved")
	schemaT := m.P.NamedType("Schema")
	infoT := m.P.NamedType("resolvedInfo")
	infosIdx := sx.FieldIndex(resolvedT, "resolvedInfos")
	pathIdx := sx.FieldIndex(infoT, "path")
	if infosIdx < 0 || pathIdx < 0 {
		panic("anchor-missing: Resolved.resolvedInfos / resolvedInfo.path")
	}
	infos := (*ers.(*sx.Value)).(sx.Struct)[infosIdx].(*sx.OMap)
	byPath := map[string]sx.Struct{}
	for _, k := range infos.Keys() {
		v, _ := infos.Get(m, k)
		info := (*v.(*sx.Value)).(sx.Struct)
		path, _ := info[pathIdx].(string)
		if path == "root" {
			path = ""
		}
		byPath[path] = (*k.(*sx.Value)).(sx.Struct)
	}
	for _, p := range params {
		sch, ok := byPath[p.ptr]
		if !ok {
			panic("param: no schema at " + p.ptr)
		}
		idx := sx.FieldIndex(schemaT, p.field)
		cell := sch[idx].(*sx.Value)
		if cell == nil {
			panic("param: field not set: " + p.field)
		}
		if p.node != nil {
			*cell = p.floatValue()
		} else {
			*cell = sx.SymInt{T: p.ival}
		}
	}
}

// paramValues reads the parameters from a model.
func paramValues(md Model, params []*param) map[string]any {
	out := map[string]any{}
	for _, p := range params {
		if p.node != nil {
			f := math.Ldexp(float64(md.Int(p.node.Mant)), p.node.Tm.Exps[md.Int(p.node.Esel)])
			if p.cls != nil {
				switch md.Int(p.cls) {
				case 1:
					f = math.Inf(1)
				case 2:
					f = math.Inf(-1)
				case 3:
					f = math.NaN()
				}
			}
			out[p.key] = f
		} else {
			out[p.key] = md.Int(p.ival)
		}
	}
	return out
}

// nativeWithParams builds the Go schema with the given parameter values and resolves it.
func nativeWithParams(sk *Skeleton, params []*param, vals map[string]any) (rs *jsonschema.Resolved, err error) {
	defer func() {
		if r := recover(); r != nil {
			err = fmt.Errorf("PANIC: %v", r)
		}
	}()
	s := new(jsonschema.Schema)
	if err := json.Unmarshal([]byte(sk.Doc), s); err != nil {
		return nil, err
	}
	if s.Schema == "" {
		s.Schema = draftDefaultURI(sk.Draft)
	}
	for _, p := range params {
		sub, err := jsonschema.VerifDereferenceJSONPointer(s, p.ptr)
		if err != nil {
			return nil, err
		}
		f := reflect.ValueOf(sub).Elem().FieldByName(p.field)
		switch v := vals[p.key].(type) {
		case float64:
			f.Set(reflect.ValueOf(&v))
		case int64:
			iv := int(v)
			f.Set(reflect.ValueOf(&iv))
		}
	}
	return s.Resolve(nil)
}

// docWithParams substitutes finite parameter values into the document (for the concrete oracle).
func docWithParams(sk *Skeleton, params []*param, vals map[string]any) (string, bool) {
	var doc any
	if json.Unmarshal([]byte(sk.Doc), &doc) != nil {
		return "", false
	}
	for _, p := range params {
		cur := doc
		if p.ptr != "" {
			for _, seg := range strings.Split(p.ptr[1:], "/") {
				seg = strings.ReplaceAll(strings.ReplaceAll(seg, "~1", "/"), "~0", "~")
				switch c := cur.(type) {
				case map[string]any:
					cur = c[seg]
				case []any:
					var i int
					fmt.Sscan(seg, &i)
					cur = c[i]
				}
			}
		}
		mm, ok := cur.(map[string]any)
		if !ok {
			return "", false
		}
		switch v := vals[p.key].(type) {
		case float64:
			if math.IsNaN(v) || math.IsInf(v, 0) {
				return "", false
			}
			mm[p.kw] = json.Number(new(big.Rat).SetFloat64(v).FloatString(1100))
			if r := new(big.Rat).SetFloat64(v); r.IsInt() {
				mm[p.kw] = json.Number(r.Num().String())
			}
		case int64:
			mm[p.kw] = json.Number(fmt.Sprint(v))
		}
	}
	b, err := json.Marshal(doc)
	if err != nil {
		return "", false
	}
	return string(b), true
}

// RunParamSkeleton explores Validate with symbolic instance and symbolic numeric keyword values.
func (w *Worker) RunParamSkeleton(sk *Skeleton, property string, nonFinite bool) *SkelResult {
	t0 := time.Now()
	res := &SkelResult{Skeleton: sk.Name}
	defer func() { res.Elapsed = time.Since(t0) }()
	rs, _, err := NativeResolve(sk)
	if err != nil {
		res.SkelError = "native resolve: " + err.Error()
		return res
	}
	m := w.NewMachine()
	m.TrackShared = true
	res.Stats = m.Stats
	rr, err := refsem.NewResolver([]byte(sk.Doc), sk.BaseURI, nil, sk.Draft)
	if err != nil {
		res.SkelError = "oracle resolver: " + err.Error()
		return res
	}
	params := collectParams(m, rr, nonFinite)
	if len(params) == 0 {
		res.SkelError = "no numeric keyword to symbolise"
		return res
	}
	orc := refsem.NewOracle(m, rr)
	orc.Params = map[string]*smt.Term{}
	ctx := m.Ctx
	allFinite := ctx.True
	for _, p := range params {
		if p.node != nil {
			orc.Params[p.key] = p.node.Float().R
			if p.cls != nil {
				allFinite = ctx.And(allFinite, ctx.Eq(p.cls, ctx.Int(0)))
			}
		} else {
			orc.Params[p.key] = p.ival
		}
	}
	root := m.NewNode("I", sk.Tm)
	spec := orc.Valid(refsem.NodeInst{M: m, N: root})
	if orc.Err() != nil {
		res.SkelError = "oracle: " + orc.Err().Error()
		return res
	}
	validate := m.P.Func("(*Resolved).Validate")
	npath := 0
	m.Explore(func(m *sx.Machine) sx.Value {
		ers := ImportResolved(m, rs, true)
		patchParams(m, ers, params)
		return m.Call(validate, ers, sx.Iface{T: m.P.NodeT, V: root})
	}, func(m *sx.Machine, r *sx.PathResult) {
		v := VerdictOf(r)
		if v == VInconclusive {
			res.Inconclusive = append(res.Inconclusive, r.Outcome+": "+r.Msg)
			return
		}
		var bad *smt.Term
		switch v {
		case VNil:
			res.SawNil = true
			bad = ctx.And(allFinite, m.NoBadJSONNumber(), ctx.Not(spec))
		case VErr:
			res.SawErr = true
			bad = ctx.And(allFinite, m.NoBadJSONNumber(), spec) // (an unparseable json.Number has no JSON meaning: panics only)
		default:
			bad = ctx.True
		}
		concretize := func() (any, map[string]any, error) {
			md, err := GetModel(m)
			if err != nil {
				return nil, nil, err
			}
			sr := NewStringRealizer(m, md)
			inst, err := Concretize(m, md, root, sr)
			return inst, paramValues(md, params), err
		}
		npath++
		if (npath <= 40 || npath%4 == 0) && m.S.Check() == smt.Sat {
			if inst, vals, err := concretize(); err == nil {
				if nrs, err := nativeWithParams(sk, params, vals); err == nil {
					nv, _ := nativeVerdict(nrs, inst)
					if nv != v {
						res.EngineErrors = append(res.EngineErrors, fmt.Sprintf("path validation: engine=%s native=%s instance=%s params=%v", v, nv, DescribeGo(inst), vals))
					} else {
						res.Validated++
						if res.Sample == nil {
							res.Sample = map[string]any{"skeleton": sk.Name, "schema": json.RawMessage(sk.Doc), "parameters": fmt.Sprint(vals), "instance": DescribeGo(inst), "verdict": v.String()}
						}
					}
				} else {
					res.ValidateSkip++
				}
			} else {
				res.ValidateSkip++
			}
		}
		m.S.Push()
		m.S.Assert(bad)
		switch m.S.Check() {
		case smt.Unsat:
			res.VerdictUnsat++
		case smt.Unknown:
			if secondLookUnsat(m) {
				res.VerdictUnsat++
				res.SecondOpinion++
				break
			}
			res.VerdictUnknown++
			res.Inconclusive = append(res.Inconclusive, "verdict query unknown ("+sk.Name+"): "+m.S.LastError)
		case smt.Sat:
			res.VerdictSat++
			if len(res.Findings) >= 3 {
				break
			}
			inst, vals, err := concretize()
			if err != nil {
				res.Inconclusive = append(res.Inconclusive, "counterexample model not realizable: "+err.Error())
				break
			}
			f := Finding{Property: property, Skeleton: sk.Name, Family: sk.Family, Doc: sk.Doc, Draft: sk.Draft, Instance: canonicalJSON(inst), GoValue: DescribeGo(inst), Detail: fmt.Sprintf("Go-constructed schema: document with parameters %v", vals)}
			nrs, err := nativeWithParams(sk, params, vals)
			// Resolve may refuse the parameters (e.g. non-finite numbers): such states are not
			// reachable through the API. Exclude the refused class and ask again.
			for tries := 0; err != nil && !strings.HasPrefix(err.Error(), "PANIC:") && tries < 6; tries++ {
				res.ResolveRefusedParams++
				blocked := false
				for _, p := range params {
					if fv, ok := vals[p.key].(float64); ok && p.cls != nil && (math.IsNaN(fv) || math.IsInf(fv, 0)) {
						m.S.Assert(ctx.Eq(p.cls, ctx.Int(0)))
						blocked = true
					}
				}
				if !blocked || m.S.Check() != smt.Sat {
					err = errRefused
					break
				}
				inst, vals, err = concretize()
				if err != nil {
					break
				}
				nrs, err = nativeWithParams(sk, params, vals)
			}
			if err == errRefused {
				res.VerdictSat--
				res.VerdictUnsat++
				break
			}
			if err != nil {
				if strings.HasPrefix(err.Error(), "PANIC:") {
					f.Kind, f.Observed, f.Expected = "panic", "Resolve: "+err.Error(), "a value or an error"
					res.Findings = append(res.Findings, f)
				} else {
					res.EngineErrors = append(res.EngineErrors, "native resolve with model parameters failed: "+err.Error())
				}
				break
			}
			f.Instance, f.GoValue = canonicalJSON(inst), DescribeGo(inst)
			f.Detail = fmt.Sprintf("Go-constructed schema: document with parameters %v", vals)
			nv, nmsg := nativeVerdict(nrs, inst)
			if nv == VPanic {
				f.Kind, f.Observed, f.Expected = "panic", nmsg, "a value or an error"
				res.Findings = append(res.Findings, f)
				break
			}
			if doc, ok := docWithParams(sk, params, vals); ok {
				sk2 := *sk
				sk2.Doc = doc
				want, oerr := oracleConcrete(m.P, &sk2, inst)
				if oerr != nil {
					res.EngineErrors = append(res.EngineErrors, "oracle on counterexample: "+oerr.Error())
					break
				}
				if (nv == VNil) != want {
					f.Doc = doc
					f.Kind, f.Observed, f.Expected = "verdict-mismatch", nv.String()+" "+trunc(nmsg, 160), map[bool]string{true: "nil", false: "error"}[want]
					res.Findings = append(res.Findings, f)
					break
				}
			}
			res.EngineErrors = append(res.EngineErrors, fmt.Sprintf("counterexample does not reproduce: engine=%s instance=%s params=%v", v, DescribeGo(inst), vals))
		}
		m.S.Pop()
	})
	res.Paths = m.Stats.Paths
	res.Forks = m.Stats.Forks
	res.Steps = m.Stats.Steps
	if m.Stats.PathsCapped {
		res.Inconclusive = append(res.Inconclusive, "path budget exceeded")
	}
	res.Solver = w.S.Stats
	return res
}

var errRefused = fmt.Errorf("refused by Resolve")

// FamilyParam: skeletons with numeric keywords whose values are made symbolic.
func FamilyParam(ts TmplSpec) []*Skeleton {
	var out []*Skeleton
	add := func(name string, doc J) {
		out = append(out, mkSkel("F-param", name, doc, refsem.Draft2020, ts))
	}
	add("minimum", J{"minimum": 0})
	add("maximum", J{"maximum": 0})
	add("exclusiveMinimum", J{"exclusiveMinimum": 0})
	add("exclusiveMaximum", J{"exclusiveMaximum": 0})
	add("min-max", J{"minimum": 0, "maximum": 0})
	add("excl-both", J{"exclusiveMinimum": 0, "exclusiveMaximum": 0})
	add("type-min", J{"type": "integer", "minimum": 0})
	add("minLength", J{"minLength": 0})
	add("maxLength", J{"maxLength": 0})
	add("len-both", J{"minLength": 0, "maxLength": 0})
	add("minItems", J{"minItems": 0})
	add("maxItems", J{"maxItems": 0})
	add("minContains", J{"contains": lInt, "minContains": 0})
	add("maxContains", J{"contains": lInt, "maxContains": 0})
	add("contains-both", J{"contains": lX, "minContains": 0, "maxContains": 0})
	add("minProperties", J{"minProperties": 0})
	add("maxProperties", J{"maxProperties": 0})
	add("props-both", J{"minProperties": 0, "maxProperties": 0, "properties": J{"a": lInt}})
	add("nested", J{"properties": J{"a": J{"minimum": 0}}, "items": J{"maxLength": 0}})
	add("anyOf", J{"anyOf": A{J{"maximum": 0}, J{"minLength": 0}}})
	return out
}
