package hx

import (
	"encoding/json"
	"fmt"
	"go/types"
	"math/big"
	"reflect"
	"strconv"
	"strings"
	"time"

	"github.com/google/jsonschema-go/jsonschema"

	"verif/engine/smt"
	"verif/engine/sx"
)

// C16 tag-parsing clause: fieldJSONInfo (real SSA) against encoding/json's own
// parseTag + isValidTag + tagOptions.Contains (real SSA of the standard library), on the
// tag value  prefix + suffix  where prefix is a symbolic byte string and suffix ranges
// over a concrete list of option spellings.

type TagCase struct {
	Name      string
	PrefixLen int
	Alphabet  string
	Suffix    string
}

// nativeJSONBehaviour observes what encoding/json does with a field F tagged json:"<tag>".
func nativeJSONBehaviour(tag string) (omit bool, name string, optional bool, err error) {
	defer func() {
		if r := recover(); r != nil {
			err = fmt.Errorf("%v", r)
		}
	}()
	st := reflect.StructOf([]reflect.StructField{{Name: "F", Type: reflect.TypeOf(0), Tag: reflect.StructTag(`json:` + strconv.Quote(tag))}})
	nz := reflect.New(st).Elem()
	nz.Field(0).SetInt(7)
	b1, e1 := json.Marshal(nz.Interface())
	if e1 != nil {
		return false, "", false, e1
	}
	var m1 map[string]any
	if e := json.Unmarshal(b1, &m1); e != nil {
		return false, "", false, e
	}
	if len(m1) == 0 {
		return true, "", false, nil
	}
	for k := range m1 {
		name = k
	}
	b0, _ := json.Marshal(reflect.New(st).Elem().Interface())
	var m0 map[string]any
	json.Unmarshal(b0, &m0)
	return false, name, len(m0) == 0, nil
}

var stdSupportsOmitZero = func() bool {
	b, _ := json.Marshal(struct {
		F int `json:",omitzero"`
	}{})
	return string(b) == "{}"
}()

func nativeFieldInfo(tag string) (omit bool, name string, optional bool, err error) {
	defer func() {
		if r := recover(); r != nil {
			err = fmt.Errorf("%v", r)
		}
	}()
	sf := reflect.StructField{Name: "F", Type: reflect.TypeOf(0), Tag: reflect.StructTag(`json:` + strconv.Quote(tag)), Index: []int{0}}
	info := jsonschema.VerifFieldJSONInfo(sf)
	return info.Omit, info.Name, info.Settings["omitempty"] || info.Settings["omitzero"], nil
}

func (w *Worker) RunTagCase(tc *TagCase, property string) *SkelResult {
	t0 := time.Now()
	res := &SkelResult{Skeleton: tc.Name}
	defer func() { res.Elapsed = time.Since(t0) }()
	m := w.NewMachine()
	res.Stats = m.Stats
	c := m.Ctx
	var bytesT []*smt.Term
	bs := &sx.BStr{}
	for j := 0; j < tc.PrefixLen; j++ {
		v := c.Var(fmt.Sprintf("tag.b%d", j), smt.SInt)
		m.DeclareRange(v, big.NewInt(0), big.NewInt(127))
		var alts []*smt.Term
		for k := 0; k < len(tc.Alphabet); k++ {
			alts = append(alts, c.Eq(v, c.Int(int64(tc.Alphabet[k]))))
		}
		m.AddBase(c.Or(alts...))
		m.WantInModel(v)
		bytesT = append(bytesT, v)
		bs.B = append(bs.B, sx.SymInt{T: v})
	}
	for k := 0; k < len(tc.Suffix); k++ {
		bs.B = append(bs.B, uint64(tc.Suffix[k]))
	}
	var tag sx.Value = bs
	if len(bs.B) == 0 {
		tag = ""
	}
	var fInfo, parseTag, isValid, contains sx.Value
	func() {
		defer func() {
			if r := recover(); r != nil {
				res.SkelError = fmt.Sprint(r)
			}
		}()
		fInfo = m.P.Func("fieldJSONInfo")
		parseTag = m.P.FuncIn("encoding/json", "parseTag")
		isValid = m.P.FuncIn("encoding/json", "isValidTag")
		contains = m.P.MethodIn("encoding/json", "tagOptions", "Contains", false)
	}()
	if res.SkelError != "" {
		return res
	}
	jsonInfoT := m.P.NamedType("jsonInfo")
	omitIdx, nameIdx, setIdx := sx.FieldIndex(jsonInfoT, "omit"), sx.FieldIndex(jsonInfoT, "name"), sx.FieldIndex(jsonInfoT, "settings")
	modelTag := func(md Model) string {
		b := make([]byte, 0, tc.PrefixLen+len(tc.Suffix))
		for _, t := range bytesT {
			b = append(b, byte(md.Int(t)))
		}
		return string(b) + tc.Suffix
	}
	npath := 0
	m.Explore(func(m *sx.Machine) sx.Value {
		// implementation side
		sf := sx.Struct{"F", "", sx.Iface{T: m.P.RTypeT, V: sx.RType{T: types.Typ[types.Int]}}, &sx.SymTag{JSON: tag}, uint64(0), []sx.Value{int64(0)}, false}
		info := m.Call(fInfo, sf).(sx.Struct)
		// reference side: encoding/json's own code (typeFields): tag == "-" omits; name, opts := parseTag(tag);
		// if !isValidTag(name) { name = "" }; empty name -> field name
		omitWant := m.Truth(m.StringEq(tag, "-"))
		if omitWant {
			return m.Truth(info[omitIdx])
		}
		if m.Truth(info[omitIdx]) {
			return false
		}
		pt := m.Call(parseTag, tag).(sx.Tuple)
		name, opts := pt[0], pt[1]
		if !m.Truth(m.Call(isValid, name)) {
			name = ""
		}
		if m.Truth(m.StringEq(name, "")) {
			name = "F"
		}
		if !m.Truth(m.StringEq(info[nameIdx], name)) {
			return false
		}
		optWant := m.Truth(m.Call(contains, opts, "omitempty")) || m.Truth(m.Call(contains, opts, "omitzero"))
		optGot := false
		if om, ok := info[setIdx].(*sx.OMap); ok && om != nil {
			if v, ok := om.Get(m, "omitempty"); ok && m.Truth(v) {
				optGot = true
			}
			if v, ok := om.Get(m, "omitzero"); ok && m.Truth(v) {
				optGot = true
			}
		}
		return optWant == optGot
	}, func(m *sx.Machine, r *sx.PathResult) {
		if !r.Decisive() {
			res.Inconclusive = append(res.Inconclusive, r.Outcome+": "+r.Msg)
			return
		}
		ok, isBool := r.Ret.(bool)
		if r.Outcome == sx.OutPanic {
			ok, isBool = false, true
		}
		if !isBool {
			res.Inconclusive = append(res.Inconclusive, fmt.Sprintf("tag harness returned %T", r.Ret))
			return
		}
		npath++
		// every path is a class of tags on which both sides took the same decisions: replay one member natively
		if m.S.Check() != smt.Sat {
			res.Inconclusive = append(res.Inconclusive, "path condition not satisfiable at end of path")
			return
		}
		md, err := GetModel(m)
		if err != nil {
			res.EngineErrors = append(res.EngineErrors, err.Error())
			return
		}
		t := modelTag(md)
		o1, n1, p1, e1 := nativeJSONBehaviour(t)
		o2, n2, p2, e2 := nativeFieldInfo(t)
		// encoding/json honours omitzero only from Go 1.24 on; with an older standard library the
		// optionality of omitzero fields cannot be observed natively (the property counts them as optional)
		cmpOptional := stdSupportsOmitZero || !strings.Contains(t, "omitzero")
		agree := e1 == nil && e2 == nil && o1 == o2 && (o1 || (n1 == n2 && (p1 == p2 || !cmpOptional)))
		if e1 != nil {
			// encoding/json (or reflect.StructOf) refuses this tag: outside the comparison
			res.ValidateSkip++
			if ok {
				res.VerdictUnsat++
			}
			return
		}
		if ok {
			res.VerdictUnsat++ // the path's verdict is concrete: both sides agree for every tag of this class
			if !agree {
				res.EngineErrors = append(res.EngineErrors, fmt.Sprintf("path validation: engine says agreement, native disagrees on tag %q: encoding/json (omit=%v name=%q optional=%v) vs fieldJSONInfo (omit=%v name=%q optional=%v)", t, o1, n1, p1, o2, n2, p2))
			} else {
				res.Validated++
				if res.Sample == nil {
					res.Sample = map[string]any{"tag": t, "omit": o1, "name": n1, "optional": p1}
				}
			}
			return
		}
		res.VerdictSat++
		if agree {
			res.EngineErrors = append(res.EngineErrors, fmt.Sprintf("counterexample does not reproduce: tag %q", t))
			return
		}
		if len(res.Findings) < 6 {
			res.Findings = append(res.Findings, Finding{Property: property, Kind: "tag-mismatch", Skeleton: tc.Name, Family: "F-tag", Doc: "struct{ F int `json:" + strconv.Quote(t) + "` }", GoValue: strconv.Quote(t), Instance: strconv.Quote(t),
				Expected: fmt.Sprintf("encoding/json: omit=%v name=%q optional=%v", o1, n1, p1), Observed: fmt.Sprintf("fieldJSONInfo: omit=%v name=%q optional=%v", o2, n2, p2)})
		}
	})
	res.Paths = m.Stats.Paths
	res.Forks = m.Stats.Forks
	res.Steps = m.Stats.Steps
	if m.Stats.PathsCapped {
		res.Inconclusive = append(res.Inconclusive, "path budget exceeded")
	}
	res.Solver = w.S.Stats
	return res
}

func init() {
	Checks["C16"] = func(cc *CheckCtx, r *Report) {
		maxL := 3
		if cc.Thorough() {
			maxL = 4
		}
		alphabet := "aZ_-,\"\\ 1.$'!@~{:=" // ASCII: letters, digits, allowed and reserved punctuation
		suffixes := []string{"", ",", ",omitempty", ",omitzero", ",omitempty,omitzero", ",string", ",omitempty,", ",,omitzero", ", omitempty", ",omitemptyx", ",Omitempty", "-", "-,"}
		var cases []*TagCase
		for n := 0; n <= maxL; n++ {
			for _, sfx := range suffixes {
				cases = append(cases, &TagCase{Name: fmt.Sprintf("tag.len%d+%q", n, sfx), PrefixLen: n, Alphabet: alphabet, Suffix: sfx})
			}
		}
		skels := make([]*Skeleton, len(cases))
		byName := map[string]*TagCase{}
		for i, c := range cases {
			skels[i] = &Skeleton{Name: c.Name, Family: "F-tag"}
			byName[c.Name] = c
		}
		skels, results := RunSkeletons(cc.P, skels, cc.Workers, cc.Timeout, func(w *Worker, sk *Skeleton) *SkelResult {
			return w.RunTagCase(byName[sk.Name], "C16")
		})
		for i, s := range results {
			for j := range s.Findings {
				s.Findings[j].Class = ClassifyFinding(s.Findings[j])
			}
			r.AddSkel(skels[i], s)
		}
		// isolation from the caller's TypeSchemas (real ForType in the engine, override shared)
		cc.RunForSharedFamily(r)
		// scaffold (concrete, native): fresh tree per call, equal results, Resolve accepts, cycle error
		runForScaffold(cc, r)
		r.Bounds = append(r.Bounds, fmt.Sprintf("tag value = symbolic prefix of length <= %d over {a,Z,_,-,comma,double quote,backslash,space,1,.,$,single quote,!,@,~,{,:,=} followed by one of %d concrete option suffixes; fieldJSONInfo (real SSA) vs encoding/json's parseTag/isValidTag/tagOptions.Contains (real SSA of the standard library) composed as in encoding/json's typeFields; every path's tag class is also replayed against the real encoding/json via reflect.StructOf + json.Marshal", maxL, len(suffixes)))
		r.Outside = append(r.Outside, "clauses that quantify over Go types only (fresh tree per call, cloning of TypeSchemas, cycle detection, IgnoreInvalidTypes pruning, field order): types are declared programs, there is no symbolic input; they are exercised concretely as scaffold over the declared type family and reported, not solver-decided")
	}
}

var _ = strings.Contains

// runForScaffold exercises For/ForType concretely over a declared type family.
func runForScaffold(cc *CheckCtx, r *Report) {
	n, bad := ForScaffold()
	r.Extra["scaffold_for_types"] = n
	r.Extra["scaffold_for_failures"] = len(bad)
	for _, b := range bad {
		r.Findings = append(r.Findings, Finding{Property: "C16", Kind: "for-scaffold", Expected: "fresh, equal, resolvable schema trees", Observed: b})
	}
}
