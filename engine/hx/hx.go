// Package hx holds the harness drivers: native pre-state construction with the real
// package, import into the engine, symbolic execution of the real SSA, verdict queries
// against the reference semantics, native replay, evidence.
package hx

import (
	"encoding/json"
	"fmt"
	"go/types"
	"net/url"
	"os"
	"path/filepath"
	"reflect"
	"strings"
	"sync"

	"github.com/google/jsonschema-go/jsonschema"

	"verif/engine/smt"
	"verif/engine/sx"
)

// RepoDir is the checkout under check: /repo (bin/check exports VERIF_REPO; another value is
// used only to try seeded changes in a scratch worktree).
var RepoDir = func() string {
	if d := os.Getenv("VERIF_REPO"); d != "" {
		return d
	}
	return "/repo"
}()
var PkgDir = RepoDir + "/jsonschema"
var OverlayDst = RepoDir + "/jsonschema/zz_verif_export.go"

// VerifDir is the root of the verification tree (bin/check exports VERIF_ROOT so that a
// snapshot elsewhere uses its own files).
var VerifDir = func() string {
	if d := os.Getenv("VERIF_ROOT"); d != "" {
		return d
	}
	return "/verif"
}()

var OverlaySrc = VerifDir + "/overlay/zz_verif_export.go"

var (
	progOnce sync.Once
	prog     *sx.Program
	progErr  error
)

// Program loads (once) the SSA of /repo/jsonschema with the overlay file.
func Program() (*sx.Program, error) {
	progOnce.Do(func() {
		src, err := os.ReadFile(OverlaySrc)
		if err != nil {
			progErr = err
			return
		}
		prog, progErr = sx.Load(PkgDir, map[string][]byte{OverlayDst: src})
	})
	return prog, progErr
}

// Worker bundles a solver process with per-skeleton machines.
type Worker struct {
	P *sx.Program
	S *smt.Solver
}

func NewWorker(p *sx.Program, timeoutMs int) (*Worker, error) {
	s, err := smt.NewSolver(timeoutMs, "z3", "-in")
	if err != nil {
		return nil, err
	}
	return &Worker{P: p, S: s}, nil
}

func (w *Worker) Close() { w.S.Close() }

// NewMachine starts a fresh exploration context (new term table, solver reset).
func (w *Worker) NewMachine() *sx.Machine {
	ctx := smt.NewCtx()
	w.S.Reset(ctx)
	return sx.NewMachine(w.P, ctx, w.S)
}

// ---- test-suite data

type SuiteGroup struct {
	File        string
	Draft       string // "2020-12" or "7"
	Description string
	SchemaJSON  json.RawMessage
	Tests       []SuiteTest
}

type SuiteTest struct {
	Description string
	Data        json.RawMessage
	Valid       bool
}

// LoadSuite reads the JSON-Schema-Test-Suite copy in the repository's testdata.
func LoadSuite(draftDir string) ([]SuiteGroup, error) {
	files, err := filepath.Glob(filepath.Join(PkgDir, "testdata", draftDir, "*.json"))
	if err != nil {
		return nil, err
	}
	draft := "2020-12"
	if draftDir == "draft7" {
		draft = "7"
	}
	var out []SuiteGroup
	for _, f := range files {
		data, err := os.ReadFile(f)
		if err != nil {
			return nil, err
		}
		var groups []struct {
			Description string
			Schema      json.RawMessage
			Tests       []struct {
				Description string
				Data        json.RawMessage
				Valid       bool
			}
		}
		if err := json.Unmarshal(data, &groups); err != nil {
			return nil, fmt.Errorf("%s: %v", f, err)
		}
		for _, g := range groups {
			sg := SuiteGroup{File: filepath.Base(f), Draft: draft, Description: g.Description, SchemaJSON: g.Schema}
			for _, t := range g.Tests {
				sg.Tests = append(sg.Tests, SuiteTest{t.Description, t.Data, t.Valid})
			}
			out = append(out, sg)
		}
	}
	return out, nil
}

// SuiteLoader mirrors the loader used by the repository's own tests.
func SuiteLoader(uri *url.URL) (*jsonschema.Schema, error) {
	load := func(filename string) (*jsonschema.Schema, error) {
		data, err := os.ReadFile(filename)
		if err != nil {
			return nil, err
		}
		var s jsonschema.Schema
		if err := json.Unmarshal(data, &s); err != nil {
			return nil, fmt.Errorf("unmarshaling JSON at %s: %w", filename, err)
		}
		return &s, nil
	}
	if uri.Host == "localhost:1234" {
		return load(filepath.Join(PkgDir, "testdata/remotes", uri.Path))
	}
	for _, pre := range []struct{ prefix, dir string }{
		{"https://json-schema.org/draft/2020-12/", "meta-schemas/draft2020-12/"},
		{"https://json-schema.org/draft-07/", "meta-schemas/draft7/"},
		{"http://json-schema.org/draft-07/", "meta-schemas/draft7/"},
	} {
		if after, ok := strings.CutPrefix(uri.String(), pre.prefix); ok {
			return load(filepath.Join(PkgDir, pre.dir+after+".json"))
		}
	}
	return nil, fmt.Errorf("don't know how to load %s", uri)
}

// ResolveDoc unmarshals and resolves a schema document natively with the real package.
func ResolveDoc(doc []byte, defaultDraft string, opts *jsonschema.ResolveOptions) (rs *jsonschema.Resolved, s *jsonschema.Schema, err error) {
	defer func() {
		if r := recover(); r != nil {
			err = fmt.Errorf("PANIC: %v", r)
		}
	}()
	s = new(jsonschema.Schema)
	if err := json.Unmarshal(doc, s); err != nil {
		return nil, nil, fmt.Errorf("unmarshal: %w", err)
	}
	if s.Schema == "" {
		s.Schema = defaultDraft
	}
	rs, err = s.Resolve(opts)
	return rs, s, err
}

// NativeValidate runs the real compiled Validate, converting a panic into a result.
func NativeValidate(rs *jsonschema.Resolved, inst any) (err error, panicked any) {
	defer func() {
		if r := recover(); r != nil {
			panicked = r
		}
	}()
	return rs.Validate(inst), nil
}

// ImportResolved copies rs into the engine heap of m (per path).
func ImportResolved(m *sx.Machine, rs *jsonschema.Resolved, shared bool) sx.Value {
	im := sx.NewImporter(m)
	im.Shared = shared
	t := types.NewPointer(m.P.NamedType("Resolved"))
	return im.Import(reflect.ValueOf(rs), t)
}

// Outcome of a Validate-like call in the engine.
type Verdict int

const (
	VNil Verdict = iota
	VErr
	VPanic
	VInconclusive
)

func (v Verdict) String() string {
	return [...]string{"nil", "error", "panic", "inconclusive"}[v]
}

// VerdictOf classifies a path whose return value is an error interface.
func VerdictOf(r *sx.PathResult) Verdict {
	switch r.Outcome {
	case sx.OutReturn:
		if e, ok := r.Ret.(sx.Iface); ok {
			if e.T == nil {
				return VNil
			}
			return VErr
		}
		return VInconclusive
	case sx.OutPanic:
		return VPanic
	}
	return VInconclusive
}

// secondLookUnsat re-decides a verdict query the primary solver answered "unknown" within its
// per-query timeout: first z3 5.1.0 one-shot on the recorded script (120 s), then the primary
// again with twelve times the timeout (a loaded machine makes the short timeout bite).
func secondLookUnsat(m *sx.Machine) bool {
	if m.S.CheckSecondOpinion(120, "z3-new", "-smt2") == smt.Unsat {
		return true
	}
	return m.S.CheckLong(12) == smt.Unsat
}
