package hx

import (
	"encoding/json"
	"fmt"
	"math"
	"math/big"
	"reflect"
	"regexp"
	"sort"
	"strings"
	"unicode/utf8"

	"github.com/google/jsonschema-go/jsonschema"

	"verif/engine/smt"
	"verif/engine/sx"
)

// Model is a solver model restricted to the terms a harness asked for.
type Model map[*smt.Term]smt.Val

// nodeTerms lists the terms whose values determine the concrete instance.
func nodeTerms(m *sx.Machine, nodes []*sx.Node) []*smt.Term {
	var ts []*smt.Term
	seen := map[*smt.Term]bool{}
	add := func(t *smt.Term) {
		if t != nil && t.Op != smt.OpConst && !seen[t] {
			seen[t] = true
			ts = append(ts, t)
		}
	}
	for _, n := range nodes {
		add(n.Tag)
		add(n.B)
		add(n.Mant)
		add(n.Esel)
		add(n.Len)
		add(n.Rep)
		add(n.CRep)
		add(n.Wrap)
		if n.JBad != nil {
			add(n.JBad)
		}
		add(n.NZ)
		add(n.IVal)
		add(n.JN)
		add(n.JK)
		add(n.Str)
		add(m.StrRunes(n.Str))
		add(m.StrBytes(n.Str))
		for _, p := range m.PatternSources() {
			add(m.MatchTerm(m.Pattern(p), n.Str))
		}
		for _, p := range n.Present {
			add(p)
		}
	}
	for _, s := range m.StrConstTerms() {
		add(s)
	}
	for t := range m.JNTexts() {
		add(t)
	}
	return ts
}

// GetModel asks the solver (which must just have answered sat) for the instance variables.
func GetModel(m *sx.Machine) (Model, error) {
	ts := nodeTerms(m, m.Nodes())
	ts = append(ts, m.ExtraModelTerms()...)
	vals, err := m.S.GetValues(ts)
	if err != nil {
		return nil, err
	}
	return Model(vals), nil
}

func (md Model) Int(t *smt.Term) int64 {
	if t.Op == smt.OpConst {
		v, _ := t.Int64()
		return v
	}
	v, ok := md[t]
	if !ok || v.I == nil {
		return 0
	}
	if !v.I.IsInt64() {
		if v.I.Sign() > 0 {
			return math.MaxInt64
		}
		return math.MinInt64
	}
	return v.I.Int64()
}

func (md Model) Big(t *smt.Term) *big.Int {
	if t.Op == smt.OpConst {
		return t.I
	}
	v, ok := md[t]
	if !ok || v.I == nil {
		return new(big.Int)
	}
	return v.I
}

func (md Model) Bool(t *smt.Term) bool {
	if t.Op == smt.OpConst {
		return t.B
	}
	return md[t].B
}

// StringRealizer turns abstract string values into real strings.
type StringRealizer struct {
	m      *sx.Machine
	md     Model
	byAbs  map[string]string // abstract element -> chosen string
	consts map[string]string // abstract element -> constant string
	used   map[string]bool
	Failed string
}

func NewStringRealizer(m *sx.Machine, md Model) *StringRealizer {
	r := &StringRealizer{m: m, md: md, byAbs: map[string]string{}, consts: map[string]string{}, used: map[string]bool{}}
	for s, t := range m.StrConstMap() {
		r.consts[md[t].S] = s
		r.used[s] = true
	}
	// the text of a json.Number is determined by its value
	for t, n := range m.JNTexts() {
		if v, ok := md[t]; ok {
			if _, isConst := r.consts[v.S]; !isConst {
				r.byAbs[v.S] = decimalString(md.Big(n.JN), int(md.Int(n.JK)))
			}
		}
	}
	return r
}

var runeAlphabets = [][]string{
	{"a", "b", "x", "z", "0", "7", " ", "-", "_", "A", "Q", "/", "~", "%", "#"},
	{"é", "ñ", "ß", "Ω"},
	{"€", "中", "日"},
	{"😀", "𝄞"},
}

// Realize returns a concrete string for the abstract string term t.
func (r *StringRealizer) Realize(t *smt.Term) (string, bool) {
	abs := r.md[t].S
	if s, ok := r.consts[abs]; ok {
		return s, true
	}
	if s, ok := r.byAbs[abs]; ok {
		return s, true
	}
	runes := r.md.Int(r.m.StrRunes(t))
	bytes := r.md.Int(r.m.StrBytes(t))
	type pat struct {
		re   *regexp.Regexp
		want bool
	}
	var pats []pat
	for _, src := range r.m.PatternSources() {
		re := r.m.Pattern(src)
		pats = append(pats, pat{re, r.md.Bool(r.m.MatchTerm(re, t))})
	}
	ok := func(s string) bool {
		if r.used[s] {
			return false
		}
		for _, p := range pats {
			if p.re.MatchString(s) != p.want {
				return false
			}
		}
		return true
	}
	if runes > 64 || bytes > 256 || runes < 0 || bytes < runes || bytes > 4*runes {
		r.Failed = fmt.Sprintf("runes=%d bytes=%d out of realizable range", runes, bytes)
		return "", false
	}
	extra := int(bytes - runes) // bytes beyond one per rune
	// distribute extra bytes over runes: n4*3 + n3*2 + n2*1 = extra
	for n4 := 0; n4*3 <= extra; n4++ {
		for n3 := 0; n4*3+n3*2 <= extra; n3++ {
			n2 := extra - n4*3 - n3*2
			n1 := int(runes) - n2 - n3 - n4
			if n1 < 0 {
				continue
			}
			counts := []int{n1, n2, n3, n4}
			// try a few letter choices and orders
			for variant := 0; variant < 400; variant++ {
				var parts []string
				v := variant
				for k := 0; k < 4; k++ {
					alpha := runeAlphabets[k]
					for i := 0; i < counts[k]; i++ {
						parts = append(parts, alpha[(v+i*(k+1))%len(alpha)])
					}
				}
				if variant%3 == 1 {
					for i, j := 0, len(parts)-1; i < j; i, j = i+1, j-1 {
						parts[i], parts[j] = parts[j], parts[i]
					}
				}
				if variant%3 == 2 && len(parts) > 1 {
					parts[0], parts[len(parts)-1] = parts[len(parts)-1], parts[0]
				}
				s := strings.Join(parts, "")
				if ok(s) {
					r.byAbs[abs] = s
					r.used[s] = true
					return s, true
				}
				if len(parts) == 0 {
					break
				}
			}
		}
	}
	// pattern-guided attempts: strings built from the constants of the run
	for c := range r.used {
		for _, cand := range []string{c + "a", "a" + c, c + c, c + "0"} {
			if int64(utf8.RuneCountInString(cand)) == runes && int64(len(cand)) == bytes && ok(cand) {
				r.byAbs[abs] = cand
				r.used[cand] = true
				return cand, true
			}
		}
	}
	r.Failed = fmt.Sprintf("no string with runes=%d bytes=%d and the required pattern matches", runes, bytes)
	return "", false
}

// ConcreteInstance is a model turned into Go values.
type ConcreteInstance struct {
	Canonical any    // float64/string/bool/nil/[]any/map[string]any (what encoding/json would decode)
	Go        any    // the value in the representation the model selected
	GoDesc    string // description of the representation
	JSON      string
}

var anyRT = reflect.TypeOf((*any)(nil)).Elem()

// goType returns the Go type of the node's value (without wrappers) in the model; nil for null.
func goType(md Model, n *sx.Node) reflect.Type {
	switch md.Int(n.Tag) {
	case sx.TagNull:
		return nil
	case sx.TagBool:
		return reflect.TypeOf(false)
	case sx.TagString:
		if md.Int(n.CRep) == sx.CRepTyped {
			return reflect.TypeOf(jsonschema.VerifStr(""))
		}
		return reflect.TypeOf("")
	case sx.TagArray:
		switch md.Int(n.CRep) {
		case sx.CRepTyped:
			return reflect.SliceOf(elemType(md, n.Elem(0)))
		case sx.CRepAlt:
			return reflect.ArrayOf(int(md.Int(n.Len)), anyRT)
		}
		return reflect.TypeOf([]any(nil))
	case sx.TagObject:
		switch md.Int(n.CRep) {
		case sx.CRepTyped:
			return reflect.MapOf(reflect.TypeOf(""), elemType(md, n.Val(0)))
		case sx.CRepAlt:
			return reflect.TypeOf(map[jsonschema.VerifKey]any(nil))
		}
		return reflect.TypeOf(map[string]any(nil))
	}
	switch int(md.Int(n.Rep)) {
	case sx.RepFloat64:
		return reflect.TypeOf(float64(0))
	case sx.RepFloat32:
		return reflect.TypeOf(float32(0))
	case sx.RepInt:
		return reflect.TypeOf(int(0))
	case sx.RepInt8:
		return reflect.TypeOf(int8(0))
	case sx.RepInt16:
		return reflect.TypeOf(int16(0))
	case sx.RepInt32:
		return reflect.TypeOf(int32(0))
	case sx.RepInt64:
		return reflect.TypeOf(int64(0))
	case sx.RepUint:
		return reflect.TypeOf(uint(0))
	case sx.RepUint8:
		return reflect.TypeOf(uint8(0))
	case sx.RepUint16:
		return reflect.TypeOf(uint16(0))
	case sx.RepUint32:
		return reflect.TypeOf(uint32(0))
	case sx.RepUint64:
		return reflect.TypeOf(uint64(0))
	case sx.RepUintptr:
		return reflect.TypeOf(uintptr(0))
	case sx.RepJSONNumber:
		return reflect.TypeOf(json.Number(""))
	}
	return nil
}

func elemType(md Model, first *sx.Node) reflect.Type {
	t := goType(md, first)
	if t == nil {
		return anyRT
	}
	for w := md.Int(first.Wrap); w > 0; w-- {
		t = reflect.PointerTo(t)
	}
	return t
}

// Concretize builds the instance denoted by node n under model md, in the Go
// representation the model selects.
func Concretize(m *sx.Machine, md Model, n *sx.Node, sr *StringRealizer) (any, error) {
	v, err := concretizeInner(m, md, n, sr)
	if err != nil {
		return nil, err
	}
	if md.Int(n.Wrap) > 0 {
		t := goType(md, n)
		if t == nil {
			return (*int)(nil), nil // typed nil pointer
		}
		p := reflect.New(t)
		p.Elem().Set(reflect.ValueOf(v))
		return p.Interface(), nil
	}
	return v, nil
}

func concretizeInner(m *sx.Machine, md Model, n *sx.Node, sr *StringRealizer) (any, error) {
	switch md.Int(n.Tag) {
	case sx.TagNull:
		return nil, nil
	case sx.TagBool:
		return md.Bool(n.B), nil
	case sx.TagNumber:
		return concretizeNumber(m, md, n)
	case sx.TagString:
		s, ok := sr.Realize(n.Str)
		if !ok {
			return nil, fmt.Errorf("unrealizable string: %s", sr.Failed)
		}
		if md.Int(n.CRep) == sx.CRepTyped {
			return jsonschema.VerifStr(s), nil
		}
		return s, nil
	case sx.TagArray:
		l := int(md.Int(n.Len))
		t := goType(md, n)
		var out reflect.Value
		if t.Kind() == reflect.Array {
			out = reflect.New(t).Elem()
		} else {
			out = reflect.MakeSlice(t, l, l)
		}
		for i := 0; i < l; i++ {
			e, err := Concretize(m, md, n.Elem(i), sr)
			if err != nil {
				return nil, err
			}
			if e != nil {
				ev := reflect.ValueOf(e)
				if !ev.Type().AssignableTo(t.Elem()) {
					return nil, fmt.Errorf("model element type %s not assignable to %s", ev.Type(), t.Elem())
				}
				out.Index(i).Set(ev)
			}
		}
		return out.Interface(), nil
	case sx.TagObject:
		t := goType(md, n)
		out := reflect.MakeMap(t)
		for i, k := range n.Keys() {
			if md.Bool(n.Present[i]) {
				e, err := Concretize(m, md, n.Val(i), sr)
				if err != nil {
					return nil, err
				}
				kv := reflect.ValueOf(k).Convert(t.Key())
				if e == nil {
					out.SetMapIndex(kv, reflect.Zero(t.Elem()))
					continue
				}
				ev := reflect.ValueOf(e)
				if !ev.Type().AssignableTo(t.Elem()) {
					return nil, fmt.Errorf("model value type %s not assignable to %s", ev.Type(), t.Elem())
				}
				out.SetMapIndex(kv, ev)
			}
		}
		return out.Interface(), nil
	}
	return nil, fmt.Errorf("bad tag in model")
}

// Canon converts any Go representation of a JSON value into the oracle's constant form:
// nil, bool, *big.Rat (exact), string, []any, map[string]any.
func Canon(v any) any {
	return canonRV(reflect.ValueOf(v))
}

func canonRV(v reflect.Value) any {
	for v.IsValid() && (v.Kind() == reflect.Pointer || v.Kind() == reflect.Interface) {
		v = v.Elem()
	}
	if !v.IsValid() {
		return nil
	}
	if v.Type() == reflect.TypeOf(json.Number("")) {
		r, ok := new(big.Rat).SetString(v.String())
		if !ok {
			return v.String()
		}
		return r
	}
	switch v.Kind() {
	case reflect.Bool:
		return v.Bool()
	case reflect.Int, reflect.Int8, reflect.Int16, reflect.Int32, reflect.Int64:
		return new(big.Rat).SetInt64(v.Int())
	case reflect.Uint, reflect.Uint8, reflect.Uint16, reflect.Uint32, reflect.Uint64, reflect.Uintptr:
		return new(big.Rat).SetInt(new(big.Int).SetUint64(v.Uint()))
	case reflect.Float32, reflect.Float64:
		r := new(big.Rat).SetFloat64(v.Float())
		if r == nil {
			return v.Float()
		}
		return r
	case reflect.String:
		return v.String()
	case reflect.Slice, reflect.Array:
		out := make([]any, v.Len())
		for i := range out {
			out[i] = canonRV(v.Index(i))
		}
		return out
	case reflect.Map:
		out := map[string]any{}
		it := v.MapRange()
		for it.Next() {
			out[it.Key().String()] = canonRV(it.Value())
		}
		return out
	}
	return fmt.Sprintf("<non-JSON %s>", v.Type())
}

func concretizeNumber(m *sx.Machine, md Model, n *sx.Node) (any, error) {
	rep := int(md.Int(n.Rep))
	switch {
	case rep == sx.RepFloat64 || rep == sx.RepFloat32:
		mant := md.Int(n.Mant)
		e := n.Tm.Exps[md.Int(n.Esel)]
		f := math.Ldexp(float64(mant), e)
		if f == 0 && n.NZ != nil && md.Bool(n.NZ) {
			f = math.Copysign(0, -1)
		}
		if math.IsInf(f, 0) {
			return nil, fmt.Errorf("float overflow in model")
		}
		if rep == sx.RepFloat32 {
			return float32(f), nil
		}
		return f, nil
	case rep == sx.RepJSONNumber:
		if n.JBad != nil && md.Bool(n.JBad) {
			return json.Number(sx.BadJSONNumberText), nil // valid JSON, but math/big refuses the exponent
		}
		num := md.Big(n.JN)
		k := int(md.Int(n.JK))
		return json.Number(decimalString(num, k)), nil
	}
	v := md.Big(n.IVal)
	switch rep {
	case sx.RepInt:
		return int(v.Int64()), nil
	case sx.RepInt8:
		return int8(v.Int64()), nil
	case sx.RepInt16:
		return int16(v.Int64()), nil
	case sx.RepInt32:
		return int32(v.Int64()), nil
	case sx.RepInt64:
		return v.Int64(), nil
	case sx.RepUint:
		return uint(v.Uint64()), nil
	case sx.RepUint8:
		return uint8(v.Uint64()), nil
	case sx.RepUint16:
		return uint16(v.Uint64()), nil
	case sx.RepUint32:
		return uint32(v.Uint64()), nil
	case sx.RepUint64:
		return v.Uint64(), nil
	case sx.RepUintptr:
		return uintptr(v.Uint64()), nil
	}
	return nil, fmt.Errorf("bad numeric representation in model")
}

func decimalString(num *big.Int, k int) string {
	neg := num.Sign() < 0
	s := new(big.Int).Abs(num).String()
	if k > 0 {
		for len(s) <= k {
			s = "0" + s
		}
		s = s[:len(s)-k] + "." + s[len(s)-k:]
	}
	if neg {
		s = "-" + s
	}
	return s
}

// DescribeGo renders a Go value with its types (for replay files and samples).
func DescribeGo(v any) string {
	if v == nil {
		return "nil"
	}
	return describeRV(reflect.ValueOf(v))
}

func describeRV(v reflect.Value) string {
	if !v.IsValid() {
		return "nil"
	}
	t := v.Type()
	switch v.Kind() {
	case reflect.Interface:
		if v.IsNil() {
			return "nil"
		}
		return describeRV(v.Elem())
	case reflect.Pointer:
		if v.IsNil() {
			return fmt.Sprintf("(%s)(nil)", t)
		}
		return "&" + describeRV(v.Elem())
	case reflect.Slice, reflect.Array:
		var parts []string
		for i := 0; i < v.Len(); i++ {
			parts = append(parts, describeRV(v.Index(i)))
		}
		return t.String() + "{" + strings.Join(parts, ", ") + "}"
	case reflect.Map:
		var ks []string
		byKey := map[string]reflect.Value{}
		it := v.MapRange()
		for it.Next() {
			ks = append(ks, it.Key().String())
			byKey[it.Key().String()] = it.Value()
		}
		sort.Strings(ks)
		var parts []string
		for _, k := range ks {
			parts = append(parts, fmt.Sprintf("%q: %s", k, describeRV(byKey[k])))
		}
		return t.String() + "{" + strings.Join(parts, ", ") + "}"
	case reflect.String:
		if t.Name() == "string" {
			return fmt.Sprintf("%q", v.String())
		}
		return fmt.Sprintf("%s(%q)", t, v.String())
	case reflect.Float64:
		return fmt.Sprintf("float64(%s)", formatFloat(v.Float()))
	case reflect.Float32:
		return fmt.Sprintf("float32(%s)", formatFloat(v.Float()))
	case reflect.Bool:
		return fmt.Sprint(v.Bool())
	}
	return fmt.Sprintf("%s(%v)", t, v)
}

func formatFloat(f float64) string {
	b, _ := json.Marshal(f)
	return string(b)
}
