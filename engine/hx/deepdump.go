package hx

import (
	"encoding/json"
	"fmt"
	"os"
	"os/exec"
	"path/filepath"
	"reflect"
	"regexp"
	"sort"
	"strings"
	"time"
	"unsafe"
)

// DeepDump renders a native object graph (including unexported fields, following
// pointers, maps in sorted order) for before/after purity comparisons.
func DeepDump(v any) string {
	var sb strings.Builder
	seen := map[unsafe.Pointer]int{}
	dumpRV(&sb, reflect.ValueOf(v), seen, 0)
	return sb.String()
}

var regexpT = reflect.TypeOf((*regexp.Regexp)(nil))

func dumpRV(sb *strings.Builder, v reflect.Value, seen map[unsafe.Pointer]int, depth int) {
	if !v.IsValid() {
		sb.WriteString("<invalid>")
		return
	}
	if depth > 200 {
		sb.WriteString("<deep>")
		return
	}
	if v.CanAddr() && !v.CanInterface() {
		v = reflect.NewAt(v.Type(), unsafe.Pointer(v.UnsafeAddr())).Elem()
	}
	switch v.Kind() {
	case reflect.Pointer:
		if v.IsNil() {
			sb.WriteString("nil")
			return
		}
		if v.Type() == regexpT {
			fmt.Fprintf(sb, "re(%s)", (*regexp.Regexp)(v.UnsafePointer()).String())
			return
		}
		p := v.UnsafePointer()
		if id, ok := seen[p]; ok {
			fmt.Fprintf(sb, "@%d", id)
			return
		}
		seen[p] = len(seen)
		fmt.Fprintf(sb, "&%d", seen[p])
		dumpRV(sb, v.Elem(), seen, depth+1)
	case reflect.Interface:
		if v.IsNil() {
			sb.WriteString("nil")
			return
		}
		fmt.Fprintf(sb, "(%s)", v.Elem().Type())
		dumpRV(sb, v.Elem(), seen, depth+1)
	case reflect.Struct:
		sb.WriteString("{")
		for i := 0; i < v.NumField(); i++ {
			sb.WriteString(v.Type().Field(i).Name + ":")
			dumpRV(sb, v.Field(i), seen, depth+1)
			sb.WriteString(";")
		}
		sb.WriteString("}")
	case reflect.Slice, reflect.Array:
		if v.Kind() == reflect.Slice && v.IsNil() {
			sb.WriteString("nilslice")
			return
		}
		fmt.Fprintf(sb, "[%d:", v.Len())
		for i := 0; i < v.Len(); i++ {
			dumpRV(sb, v.Index(i), seen, depth+1)
			sb.WriteString(",")
		}
		if v.Kind() == reflect.Slice && v.Cap() > v.Len() {
			// the spare capacity is memory of the value too (an in-place append by a callee shows here)
			full := v.Slice(0, v.Cap())
			sb.WriteString("|spare:")
			for i := v.Len(); i < full.Len(); i++ {
				dumpRV(sb, full.Index(i), seen, depth+1)
				sb.WriteString(",")
			}
		}
		sb.WriteString("]")
	case reflect.Map:
		if v.IsNil() {
			sb.WriteString("nilmap")
			return
		}
		type kv struct {
			k string
			v reflect.Value
		}
		var kvs []kv
		it := v.MapRange()
		for it.Next() {
			var kb strings.Builder
			dumpRV(&kb, it.Key(), map[unsafe.Pointer]int{}, depth+1)
			kvs = append(kvs, kv{kb.String(), it.Value()})
		}
		sort.Slice(kvs, func(i, j int) bool { return kvs[i].k < kvs[j].k })
		sb.WriteString("map[")
		for _, e := range kvs {
			sb.WriteString(e.k + "=>")
			dumpRV(sb, e.v, seen, depth+1)
			sb.WriteString(",")
		}
		sb.WriteString("]")
	case reflect.Func:
		if v.IsNil() {
			sb.WriteString("nilfunc")
		} else {
			sb.WriteString("func")
		}
	case reflect.String:
		fmt.Fprintf(sb, "%q", v.String())
	case reflect.Bool:
		fmt.Fprint(sb, v.Bool())
	case reflect.Int, reflect.Int8, reflect.Int16, reflect.Int32, reflect.Int64:
		fmt.Fprint(sb, v.Int())
	case reflect.Uint, reflect.Uint8, reflect.Uint16, reflect.Uint32, reflect.Uint64, reflect.Uintptr:
		fmt.Fprint(sb, v.Uint())
	case reflect.Float32, reflect.Float64:
		fmt.Fprint(sb, v.Float())
	default:
		fmt.Fprintf(sb, "<%s>", v.Kind())
	}
}

const raceTestTemplate = `package jsonschema

import (
	"encoding/json"
	"sync"
	"testing"
)

func TestVerifRace(t *testing.T) {
	var s Schema
	if err := json.Unmarshal([]byte(%q), &s); err != nil {
		t.Fatal(err)
	}
	if s.Schema == "" {
		s.Schema = %q
	}
	rs, err := s.Resolve(nil)
	if err != nil {
		t.Fatal(err)
	}
	var wg sync.WaitGroup
	for g := 0; g < 4; g++ {
		wg.Add(1)
		go func() {
			defer wg.Done()
			for i := 0; i < 20; i++ {
				var inst any
				if err := json.Unmarshal([]byte(%q), &inst); err != nil {
					panic(err)
				}
				%s
			}
		}()
	}
	wg.Wait()
}
`

// ConfirmRace runs the real package under the race detector: several goroutines call
// Validate (or ApplyDefaults on private instances) on one shared Resolved.
func ConfirmRace(doc, defaultSchemaURI, instanceJSON string, applyDefaults bool) (bool, string) {
	dir, err := os.MkdirTemp("", "verif-race-*")
	if err != nil {
		return false, err.Error()
	}
	defer os.RemoveAll(dir)
	call := "rs.Validate(inst)"
	if applyDefaults {
		call = "rs.ApplyDefaults(&inst)"
	}
	src := fmt.Sprintf(raceTestTemplate, doc, defaultSchemaURI, instanceJSON, call)
	testFile := filepath.Join(dir, "zz_verif_race_test.go")
	if err := os.WriteFile(testFile, []byte(src), 0o644); err != nil {
		return false, err.Error()
	}
	ov, _ := json.Marshal(map[string]any{"Replace": map[string]string{RepoDir + "/jsonschema/zz_verif_race_test.go": testFile}})
	ovFile := filepath.Join(dir, "overlay.json")
	os.WriteFile(ovFile, ov, 0o644)
	cmd := exec.Command("go", "test", "-race", "-vet=off", "-count=1", "-overlay", ovFile, "-run", "TestVerifRace", "./jsonschema")
	cmd.Dir = RepoDir
	cmd.Env = append(os.Environ(), "GOFLAGS=-mod=mod", "GOPROXY=off", "GOTOOLCHAIN=local")
	done := make(chan struct{})
	var out []byte
	go func() { out, _ = cmd.CombinedOutput(); close(done) }()
	select {
	case <-done:
	case <-time.After(5 * time.Minute):
		if cmd.Process != nil {
			cmd.Process.Kill()
		}
		return false, "race test timed out"
	}
	return strings.Contains(string(out), "DATA RACE"), string(out)
}

const raceBodyTemplate = `package jsonschema

import (
	"reflect"
	"sync"
	"testing"
)

var _ = reflect.TypeOf

func TestVerifRace(t *testing.T) {
	for round := 0; round < %d; round++ {
		%s
		var wg sync.WaitGroup
		for g := 0; g < 8; g++ {
			wg.Add(1)
			go func() {
				defer wg.Done()
				%s
			}()
		}
		wg.Wait()
	}
}
`

// ConfirmRaceBody runs `rounds` rounds of 8 goroutines executing body (in-package Go code)
// after setup, under the race detector.
func ConfirmRaceBody(rounds int, setup, body string) (bool, string) {
	dir, err := os.MkdirTemp("", "verif-race-*")
	if err != nil {
		return false, err.Error()
	}
	defer os.RemoveAll(dir)
	src := fmt.Sprintf(raceBodyTemplate, rounds, setup, body)
	testFile := filepath.Join(dir, "zz_verif_race_test.go")
	if err := os.WriteFile(testFile, []byte(src), 0o644); err != nil {
		return false, err.Error()
	}
	ov, _ := json.Marshal(map[string]any{"Replace": map[string]string{RepoDir + "/jsonschema/zz_verif_race_test.go": testFile}})
	ovFile := filepath.Join(dir, "overlay.json")
	os.WriteFile(ovFile, ov, 0o644)
	cmd := exec.Command("go", "test", "-race", "-vet=off", "-count=1", "-overlay", ovFile, "-run", "TestVerifRace", "./jsonschema")
	cmd.Dir = RepoDir
	cmd.Env = append(os.Environ(), "GOFLAGS=-mod=mod", "GOPROXY=off", "GOTOOLCHAIN=local")
	done := make(chan struct{})
	var out []byte
	go func() { out, _ = cmd.CombinedOutput(); close(done) }()
	select {
	case <-done:
	case <-time.After(5 * time.Minute):
		if cmd.Process != nil {
			cmd.Process.Kill()
		}
		return false, "race test timed out"
	}
	o := string(out)
	return strings.Contains(o, "DATA RACE") || strings.Contains(o, "concurrent map"), o
}
