package hx

import (
	"fmt"
	"time"

	"github.com/google/jsonschema-go/jsonschema"

	"verif/engine/refsem"
	"verif/engine/smt"
	"verif/engine/sx"
)

// EnumCase validates a symbolic instance against enum / const whose listed values are
// themselves symbolic JSON values (C12c).
type EnumCase struct {
	Name    string
	Tm      *sx.Tmpl // template of the instance
	TmE     *sx.Tmpl // template of each listed value
	NEnum   int      // number of enum values (0 = use const instead)
	FixTagI int
}

// RunEnumCase explores Validate with Schema{Enum: [E1..En]} (or Const: E1).
func (w *Worker) RunEnumCase(ec *EnumCase, property string) *SkelResult {
	t0 := time.Now()
	res := &SkelResult{Skeleton: ec.Name}
	defer func() { res.Elapsed = time.Since(t0) }()
	// native pre-state: a schema with placeholder values in the right shape
	s := &jsonschema.Schema{}
	if ec.NEnum > 0 {
		for i := 0; i < ec.NEnum; i++ {
			s.Enum = append(s.Enum, float64(i))
		}
	} else {
		var c any = float64(0)
		s.Const = &c
	}
	rs, err := s.Resolve(nil)
	if err != nil {
		res.SkelError = err.Error()
		return res
	}
	m := w.NewMachine()
	res.Stats = m.Stats
	inst := m.NewNode("I", ec.Tm)
	if ec.FixTagI >= 0 {
		m.AddBase(inst.TagIs(ec.FixTagI))
	}
	n := ec.NEnum
	if n == 0 {
		n = 1
	}
	var vals []*sx.Node
	for i := 0; i < n; i++ {
		vals = append(vals, m.NewNode(fmt.Sprintf("E%d", i), ec.TmE))
	}
	orc := refsem.NewOracle(m, nil)
	var alts []*smt.Term
	for _, v := range vals {
		alts = append(alts, orc.EqInst(refsem.NodeInst{M: m, N: v}, refsem.NodeInst{M: m, N: inst}))
	}
	ctx := m.Ctx
	spec := ctx.Or(alts...)
	schemaT := m.P.NamedType("Schema")
	resolvedT := m.P.NamedType("Resolved")
	rootIdx := sx.FieldIndex(resolvedT, "root")
	enumIdx := sx.FieldIndex(schemaT, "Enum")
	constIdx := sx.FieldIndex(schemaT, "Const")
	if rootIdx < 0 || enumIdx < 0 || constIdx < 0 {
		res.SkelError = "anchor-missing: Resolved.root / Schema.Enum / Schema.Const"
		return res
	}
	validate := m.P.Func("(*Resolved).Validate")
	npath := 0
	m.Explore(func(m *sx.Machine) sx.Value {
		ers := ImportResolved(m, rs, false)
		root := (*ers.(*sx.Value)).(sx.Struct)[rootIdx].(*sx.Value)
		sch := (*root).(sx.Struct)
		if ec.NEnum > 0 {
			lst := make([]sx.Value, len(vals))
			for i, v := range vals {
				lst[i] = sx.Iface{T: m.P.NodeT, V: v}
			}
			sch[enumIdx] = lst
		} else {
			var cell sx.Value = sx.Iface{T: m.P.NodeT, V: vals[0]}
			sch[constIdx] = &cell
		}
		return m.Call(validate, ers, sx.Iface{T: m.P.NodeT, V: inst})
	}, func(m *sx.Machine, r *sx.PathResult) {
		v := VerdictOf(r)
		if v == VInconclusive {
			res.Inconclusive = append(res.Inconclusive, r.Outcome+": "+r.Msg)
			return
		}
		var bad *smt.Term
		switch v {
		case VNil:
			res.SawNil = true
			bad = ctx.Not(spec)
		case VErr:
			res.SawErr = true
			bad = spec
		default:
			bad = ctx.True
		}
		concretize := func() (any, []any, error) {
			md, err := GetModel(m)
			if err != nil {
				return nil, nil, err
			}
			sr := NewStringRealizer(m, md)
			gi, err := Concretize(m, md, inst, sr)
			if err != nil {
				return nil, nil, err
			}
			var gv []any
			for _, e := range vals {
				g, err := Concretize(m, md, e, sr)
				if err != nil {
					return nil, nil, err
				}
				gv = append(gv, g)
			}
			return gi, gv, nil
		}
		native := func(gi any, gv []any) (Verdict, string) {
			ns := &jsonschema.Schema{}
			if ec.NEnum > 0 {
				ns.Enum = gv
			} else {
				ns.Const = &gv[0]
			}
			nrs, err := ns.Resolve(nil)
			if err != nil {
				return VInconclusive, err.Error()
			}
			return nativeVerdict(nrs, gi)
		}
		npath++
		if (npath <= 40 || npath%8 == 0) && m.S.Check() == smt.Sat {
			if gi, gv, err := concretize(); err == nil {
				nv, _ := native(gi, gv)
				if nv != v {
					res.EngineErrors = append(res.EngineErrors, fmt.Sprintf("path validation: engine=%s native=%s instance=%s values=%s", v, nv, DescribeGo(gi), DescribeGo(gv)))
				} else {
					res.Validated++
					if res.Sample == nil {
						res.Sample = map[string]any{"instance": DescribeGo(gi), "listed_values": DescribeGo(gv), "verdict": v.String()}
					}
				}
			} else {
				res.ValidateSkip++
			}
		}
		m.S.Push()
		m.S.Assert(bad)
		switch m.S.Check() {
		case smt.Unsat:
			res.VerdictUnsat++
		case smt.Unknown:
			if secondLookUnsat(m) {
				res.VerdictUnsat++
				res.SecondOpinion++
				break
			}
			res.VerdictUnknown++
			res.Inconclusive = append(res.Inconclusive, "verdict query unknown: "+m.S.LastError)
		case smt.Sat:
			res.VerdictSat++
			if len(res.Findings) >= 20 {
				break
			}
			gi, gv, err := concretize()
			if err != nil {
				res.Inconclusive = append(res.Inconclusive, "counterexample model not realizable: "+err.Error())
				break
			}
			want := false
			for _, g := range gv {
				eq, oerr := oracleEqConcrete(m.P, g, gi)
				if oerr != nil {
					res.EngineErrors = append(res.EngineErrors, oerr.Error())
				}
				want = want || eq
			}
			nv, nmsg := native(gi, gv)
			f := Finding{Property: property, Skeleton: ec.Name, Family: "F-enum", Instance: canonicalJSON(gi), GoValue: DescribeGo(gi) + "  against listed values  " + DescribeGo(gv), Expected: map[bool]string{true: "nil", false: "error"}[want]}
			switch {
			case nv == VPanic:
				f.Kind, f.Observed = "panic", nmsg
			case (nv == VNil) != want:
				f.Kind, f.Observed = "verdict-mismatch", nv.String()+" "+trunc(nmsg, 160)
			default:
				res.EngineErrors = append(res.EngineErrors, "counterexample does not reproduce: "+f.GoValue)
				m.S.Pop()
				return
			}
			res.Findings = append(res.Findings, f)
		}
		m.S.Pop()
	})
	res.Paths = m.Stats.Paths
	res.Forks = m.Stats.Forks
	res.Steps = m.Stats.Steps
	if m.Stats.PathsCapped {
		res.Inconclusive = append(res.Inconclusive, "path budget exceeded")
	}
	res.Solver = w.S.Stats
	return res
}
