package hx

import (
	"strings"
)

// ClassifyFinding maps a reproduced finding to a known-finding class ("" if none).
// The predicates look only at the concrete failing input.
func ClassifyFinding(f Finding) string {
	for _, c := range findingClasses {
		if c.Match(f) {
			return c.Name
		}
	}
	return ""
}

type findingClass struct {
	Name  string
	Match func(f Finding) bool
}

var findingClasses []findingClass

func init() {
	Checks["C01"] = checkC01
}

var boundsValidate = []string{
	"instance: symbolic JSON template, every node of any of the six JSON types; numbers = 53-bit mantissa x exponent set {-1074,-30,-4..4,30,60,970}; strings abstract (equality, code-point count, byte length, regexp predicates) with <= 64 code points on replay; object keys from a concrete pool computed per schema",
	"one concrete schema skeleton per exploration (enumerated scaffold)",
	"per-path budgets: 2,000,000 SSA instructions, call depth 400, 20,000 paths per skeleton (exceeding any is reported and fails the run)",
}

func checkC01(cc *CheckCtx, r *Report) {
	ts := TmplSpec{Depth: 2, MaxLen: 2, MaxKeys: 3}
	skels := append(FamilySingle(ts), FamilyPair(ts, true)...)
	if cc.Thorough() {
		ts3 := TmplSpec{Depth: 2, MaxLen: 3, MaxKeys: 4}
		skels = append(skels, FamilyTriple(ts, cc.Seed, 300)...)
		skels = append(skels, FamilyNest(ts3, true)...)
	}
	r.Bounds = append(r.Bounds, boundsValidate...)
	r.Bounds = append(r.Bounds, "template T(depth 2, array length <= 2, <= 3 pool keys) for quick; thorough adds seeded triples and nesting with T(2,3,4)")
	r.Outside = append(r.Outside, "multipleOf with non-dyadic divisors; regexp matching on strings outside the realised pool is abstracted (same predicate on both sides); schema recursion only through instance-descending keywords; instances deeper/longer than the template")
	cc.RunValidateFamily(r, skels, VOptions{ValidatePaths: true})
}

var _ = strings.Contains
