package hx

import (
	"fmt"
	"math/big"
	"strings"

	"verif/engine/refsem"
	"verif/engine/sx"
)

// ClassifyFinding maps a reproduced finding to a known-finding class ("" if none).
// The predicates look only at the concrete failing input.
func ClassifyFinding(f Finding) string {
	for _, c := range findingClasses {
		if c.Match(f) {
			return c.Name
		}
	}
	return ""
}

type findingClass struct {
	Name  string
	Match func(f Finding) bool
}

var findingClasses []findingClass

func init() {
	Checks["C01"] = checkC01
	Checks["C02"] = checkC02
	Checks["C03"] = checkC03
	Checks["C06"] = checkC06
	Checks["C07"] = checkC07
	Checks["C08"] = checkC08
}

var allNumReps = []int{sx.RepFloat64, sx.RepFloat32, sx.RepInt, sx.RepInt8, sx.RepInt16, sx.RepInt32, sx.RepInt64, sx.RepUint, sx.RepUint8, sx.RepUint16, sx.RepUint32, sx.RepUint64, sx.RepUintptr, sx.RepJSONNumber}

var two53 = new(big.Int).Lsh(big.NewInt(1), 53)

// repProfile derives a skeleton whose instance template varies one representation dimension.
func repProfile(p *sx.Program, sk *Skeleton, profile string) *Skeleton {
	c := *sk
	tm := *sk.Tm
	c.Name = sk.Name + "@" + profile
	tm.StrT = p.NamedType("VerifStr")
	tm.KeyT = p.NamedType("VerifKey")
	switch profile {
	case "numeric":
		tm.NumReps = allNumReps
		tm.IntAbsLimit = two53
		tm.JNIntegersOnly = true
	case "containers":
		tm.NumReps = []int{sx.RepFloat64, sx.RepInt}
		tm.IntAbsLimit = two53
		tm.ContainerReps = true
	case "wrappers":
		tm.Wrappers = true
	case "all":
		tm.NumReps = []int{sx.RepFloat64, sx.RepInt64, sx.RepUint8, sx.RepJSONNumber}
		tm.IntAbsLimit = two53
		tm.JNIntegersOnly = true
		tm.ContainerReps = true
		tm.Wrappers = true
	}
	c.Tm = &tm
	return &c
}

func checkC08(cc *CheckCtx, r *Report) {
	ts := TmplSpec{Depth: 2, MaxLen: 2, MaxKeys: 2}
	base := append(FamilySingle(ts), FamilyPair(ts, false)...)
	var skels []*Skeleton
	for _, sk := range base {
		kind := strings.SplitN(strings.TrimPrefix(sk.Name, sk.Family+"/"), ".", 2)[0]
		skels = append(skels, repProfile(cc.P, sk, "numeric"))
		if kind != "scalar" || strings.Contains(sk.Doc, "enum") || strings.Contains(sk.Doc, "const") {
			skels = append(skels, repProfile(cc.P, sk, "containers"), repProfile(cc.P, sk, "wrappers"))
		}
	}
	r.Bounds = append(r.Bounds, boundsValidate...)
	r.Bounds = append(r.Bounds, "representation profiles: numeric (all 14 numeric kinds incl. float32 and json.Number, containers canonical), containers (typed slices/maps, Go arrays, named string and named key types; numbers float64|int), wrappers (one pointer layer at top level and in interface slots); integer-kind and json.Number values bounded by |v| <= 2^53 and json.Number texts integral, where the exact value equals the canonical float64 decoding")
	r.Outside = append(r.Outside, "nil slices, nil maps and struct instances (the property's own exclusions); integers beyond 2^53 and json.Number texts that are not exactly a float64 (canonical decoding rounds them; decimal-to-binary rounding is not modelled)")
	cc.RunValidateFamily(r, skels, VOptions{ValidatePaths: true})
}

func checkC02(cc *CheckCtx, r *Report) {
	ts := TmplSpec{Depth: 2, MaxLen: 2, MaxKeys: 3}
	if cc.Thorough() {
		ts = TmplSpec{Depth: 2, MaxLen: 3, MaxKeys: 4}
	}
	skels := FamilyDraft7(ts, true)
	r.Bounds = append(r.Bounds, boundsValidate...)
	r.Outside = append(r.Outside, "2020-12-only keywords inside a draft-07 document; remote documents that declare a different draft than the root")
	cc.RunValidateFamily(r, skels, VOptions{ValidatePaths: true})
}

func checkC03(cc *CheckCtx, r *Report) {
	skels := FamilyRef(cc.Thorough(), cc.Seed)
	r.Bounds = append(r.Bounds, boundsValidate...)
	r.Bounds = append(r.Bounds, "reference topologies are enumerated (scaffold): the solver quantifies over the instance under each ref; Resolve error agreement and loader call counts are native observations per topology")
	r.Outside = append(r.Outside, "URI strings are concrete (net/url is native); references into a location inside a remote document's path, into unknown keywords or non-schema values; embedded resources of loaded documents addressed by their own $id from another document")
	cc.RunValidateFamily(r, skels, VOptions{ValidatePaths: true})
}

func checkC06(cc *CheckCtx, r *Report) {
	var skels []*Skeleton
	if cc.Thorough() {
		skels = append(FamilyDyn(3, 2, cc.Seed, false), FamilyDyn(3, 1, cc.Seed+1, true)...)
		skels = append(skels, FamilyDyn(5, 0, cc.Seed+2, false)[:0]...)
	} else {
		skels = append(FamilyDyn(2, 2, cc.Seed, false), FamilyDyn(2, 1, cc.Seed+1, true)...)
	}
	r.Bounds = append(r.Bounds, "dynamic-scope topologies: 1..2 (quick) / 1..3 (thorough) resources + root, each with $dynamicAnchor/$anchor/no anchor, all visiting orders, hops by $ref / allOf / $dynamicRef, final $dynamicRef in fragment, resource-relative and pointer form, embedded or loader-supplied; instance = one symbolic JSON value; two Validate calls on the same Resolved per path")
	cc.RunValidateFamily(r, skels, VOptions{ValidatePaths: true})
}

func checkC07(cc *CheckCtx, r *Report) {
	ts := TmplSpec{Depth: 2, MaxLen: 3, MaxKeys: 3}
	skels := FamilyNest(ts, cc.Thorough())
	for _, sk := range FamilyPair(TmplSpec{Depth: 2, MaxLen: 2, MaxKeys: 3}, true) {
		if strings.Contains(sk.Doc, "unevaluated") {
			skels = append(skels, sk)
		}
	}
	if cc.Thorough() {
		for _, sk := range FamilyNest(TmplSpec{Depth: 2, MaxLen: 3, MaxKeys: 4}, true) {
			c := *sk
			c.Name += ".all-orders"
			c.AllOrders = true
			skels = append(skels, &c)
		}
	}
	r.Bounds = append(r.Bounds, boundsValidate...)
	cc.RunValidateFamily(r, skels, VOptions{ValidatePaths: true})
}

var boundsValidate = []string{
	"instance: symbolic JSON template, every node of any of the six JSON types; numbers = 53-bit mantissa x exponent set {-1074,-30,-4..4,30,60,970}; strings abstract (equality, code-point count, byte length, regexp predicates) with <= 64 code points on replay; object keys from a concrete pool computed per schema",
	"one concrete schema skeleton per exploration (enumerated scaffold)",
	"per-path budgets: 2,000,000 SSA instructions, call depth 400, 20,000 paths per skeleton (exceeding any is reported and fails the run)",
}

func checkC01(cc *CheckCtx, r *Report) {
	ts := TmplSpec{Depth: 2, MaxLen: 2, MaxKeys: 3}
	skels := append(FamilySingle(ts), FamilyPair(ts, true)...)
	if cc.Thorough() {
		ts3 := TmplSpec{Depth: 2, MaxLen: 3, MaxKeys: 4}
		skels = append(skels, FamilyTriple(ts, cc.Seed, 300)...)
		skels = append(skels, FamilyNest(ts3, true)...)
	}
	r.Bounds = append(r.Bounds, boundsValidate...)
	r.Bounds = append(r.Bounds, "template T(depth 2, array length <= 2, <= 3 pool keys) for quick; thorough adds seeded triples and nesting with T(2,3,4)")
	r.Outside = append(r.Outside, "multipleOf with non-dyadic divisors; regexp matching on strings outside the realised pool is abstracted (same predicate on both sides); schema recursion only through instance-descending keywords; instances deeper/longer than the template")
	cc.RunValidateFamily(r, skels, VOptions{ValidatePaths: true})
}

var _ = strings.Contains

func newBigU(v uint64) *big.Int { return new(big.Int).SetUint64(v) }

func equalCases(p *sx.Program, thorough bool) []*EqualCase {
	mk := func(name string, depth, maxLen, maxKeys int, f func(tm *sx.Tmpl)) *EqualCase {
		keys := []string{"a", "b", "c"}[:maxKeys]
		tx := &sx.Tmpl{Depth: depth, MaxLen: maxLen, Keys: keys, StrT: p.NamedType("VerifStr"), KeyT: p.NamedType("VerifKey")}
		f(tx)
		ty := *tx
		return &EqualCase{Name: "F-equal/" + name, TmX: tx, TmY: &ty, FixTagX: -1, FixTagY: -1}
	}
	split := func(cs ...*EqualCase) []*EqualCase {
		var out []*EqualCase
		for _, c := range cs {
			if c.TmX.Depth == 0 {
				out = append(out, c)
				continue
			}
			for t := 0; t < 6; t++ {
				cc := *c
				cc.Name = fmt.Sprintf("%s.x-%s", c.Name, sx.TagNames[t])
				cc.FixTagX = t
				if t < sx.TagArray {
					out = append(out, &cc)
					continue
				}
				for u := 0; u < 6; u++ {
					cd := cc
					cd.Name = fmt.Sprintf("%s.y-%s", cc.Name, sx.TagNames[u])
					cd.FixTagY = u
					out = append(out, &cd)
				}
			}
		}
		return out
	}
	d, l := 1, 1
	if thorough {
		l = 2
	}
	k := 1
	if thorough {
		k = 2
	}
	return split(
		mk("scalars-all-numeric", 0, 0, 0, func(tm *sx.Tmpl) { tm.NumReps = allNumReps }),
		mk("numeric-in-containers", d, l, k, func(tm *sx.Tmpl) { tm.NumReps = allNumReps }),
		mk("containers", d, l, k, func(tm *sx.Tmpl) {
			tm.NumReps = []int{sx.RepFloat64, sx.RepInt, sx.RepUint64}
			tm.ContainerReps = true
		}),
		mk("wrappers", d, l, k, func(tm *sx.Tmpl) { tm.Wrappers = true; tm.NumReps = []int{sx.RepFloat64, sx.RepInt64} }),
		mk("all-small", 1, 1, 1, func(tm *sx.Tmpl) {
			tm.NumReps = []int{sx.RepFloat64, sx.RepJSONNumber}
			if thorough {
				tm.NumReps = []int{sx.RepFloat64, sx.RepInt64, sx.RepUint8, sx.RepJSONNumber}
			}
			tm.ContainerReps = true
			tm.Wrappers = thorough
		}),
		mk("canonical-len2", 1, 2, 2, func(tm *sx.Tmpl) {}),
		mk("canonical-depth2", 2, 1, 1, func(tm *sx.Tmpl) {}),
	)
}

func init() {
	Checks["C11"] = func(cc *CheckCtx, r *Report) {
		cases := equalCases(cc.P, cc.Thorough())
		skels := make([]*Skeleton, len(cases))
		for i, c := range cases {
			skels[i] = &Skeleton{Name: c.Name, Family: "F-equal"}
		}
		skels, results := RunSkeletons(cc.P, skels, cc.Workers, cc.Timeout, func(w *Worker, sk *Skeleton) *SkelResult {
			for _, c := range cases {
				if c.Name == sk.Name {
					return w.RunEqualCase(c, "C11", false)
				}
			}
			return nil
		})
		for i, s := range results {
			for j := range s.Findings {
				s.Findings[j].Class = ClassifyFinding(s.Findings[j])
			}
			r.AddSkel(skels[i], s)
		}
		r.Bounds = append(r.Bounds, "two independent symbolic JSON values x, y per query, templates T(1,2..3,2) and T(2,2,2); numeric kinds over their full ranges (integers beyond 2^53 included), json.Number n/10^k with k<=3; representation profiles as in C08", "reflexivity, symmetry and transitivity follow within the bound from agreement with mathematical JSON equality")
	}
}

func init() {
	Checks["C12"] = func(cc *CheckCtx, r *Report) {
		p := cc.P
		thorough := cc.Thorough()
		// (a) hash law on the C11 cases
		cases := equalCases(p, thorough)
		byName := map[string]*EqualCase{}
		var skels []*Skeleton
		for _, c := range cases {
			if !thorough && strings.Contains(c.Name, "canonical-len2") {
				continue // the product of two independent traversals; kept for the thorough tier
			}
			c2 := *c
			c2.Name = "F-hash/" + c.Name[len("F-equal/"):]
			byName[c2.Name] = &c2
			skels = append(skels, &Skeleton{Name: c2.Name, Family: "F-hash"})
		}
		// (c) enum / const with symbolic listed values
		enumByName := map[string]*EnumCase{}
		mkT := func(depth, maxLen, keys int, f func(tm *sx.Tmpl)) *sx.Tmpl {
			tm := &sx.Tmpl{Depth: depth, MaxLen: maxLen, Keys: []string{"a", "b"}[:keys], StrT: p.NamedType("VerifStr"), KeyT: p.NamedType("VerifKey")}
			f(tm)
			return tm
		}
		addEnum := func(name string, n int, ti, te *sx.Tmpl) {
			for t := 0; t < 6; t++ {
				ec := &EnumCase{Name: fmt.Sprintf("F-enum/%s.i-%s", name, sx.TagNames[t]), Tm: ti, TmE: te, NEnum: n, FixTagI: t}
				enumByName[ec.Name] = ec
				skels = append(skels, &Skeleton{Name: ec.Name, Family: "F-enum"})
			}
		}
		canon := mkT(1, 1, 1, func(tm *sx.Tmpl) {})
		numeric := mkT(1, 1, 1, func(tm *sx.Tmpl) { tm.NumReps = allNumReps })
		cont := mkT(1, 1, 1, func(tm *sx.Tmpl) { tm.NumReps = []int{sx.RepFloat64, sx.RepInt}; tm.ContainerReps = true })
		wrap := mkT(1, 1, 1, func(tm *sx.Tmpl) { tm.Wrappers = true })
		addEnum("enum2.numeric", 2, numeric, canon)
		addEnum("const.numeric", 0, numeric, canon)
		addEnum("const.containers", 0, cont, canon)
		addEnum("const.wrappers", 0, wrap, canon)
		if thorough {
			addEnum("enum2.containers", 2, cont, canon)
			addEnum("enum3.canonical", 3, canon, canon)
		}
		// (b) uniqueItems end to end: symbolic arrays with symbolic hash function and seed
		uq := func(name string, maxLen int, f func(tm *sx.Tmpl)) {
			sk := mkSkel("F-unique", name, J{"uniqueItems": true}, refsem.Draft2020, TmplSpec{1, maxLen, 1})
			tm := *sk.Tm
			tm.StrT, tm.KeyT = p.NamedType("VerifStr"), p.NamedType("VerifKey")
			f(&tm)
			sk.Tm = &tm
			skels = append(skels, sk)
		}
		uq("canonical-len3", 3, func(tm *sx.Tmpl) {})
		uq("numeric-len2", 2, func(tm *sx.Tmpl) { tm.NumReps = allNumReps })
		uq("containers-len2", 2, func(tm *sx.Tmpl) { tm.NumReps = []int{sx.RepFloat64, sx.RepInt}; tm.ContainerReps = true })
		uq("wrappers-len2", 2, func(tm *sx.Tmpl) { tm.Wrappers = true })
		if thorough {
			uq("canonical-len4", 4, func(tm *sx.Tmpl) {})
			uq("numeric-len3", 3, func(tm *sx.Tmpl) { tm.NumReps = []int{sx.RepFloat64, sx.RepInt64, sx.RepUint64, sx.RepJSONNumber} })
		}
		skels, results := RunSkeletons(cc.P, skels, cc.Workers, cc.Timeout, func(w *Worker, sk *Skeleton) *SkelResult {
			if c, ok := byName[sk.Name]; ok {
				return w.RunEqualCase(c, "C12", true)
			}
			if c, ok := enumByName[sk.Name]; ok {
				return w.RunEnumCase(c, "C12")
			}
			return w.RunValidateSkeleton(sk, VOptions{Property: "C12", ValidatePaths: true})
		})
		for i, s := range results {
			for j := range s.Findings {
				s.Findings[j].Class = ClassifyFinding(s.Findings[j])
			}
			r.AddSkel(skels[i], s)
		}
		r.Bounds = append(r.Bounds,
			"hash law: hashValue on two symbolic values with one symbolic seed; maphash modelled as a chain of uninterpreted mixing functions (one application per token written), so the query ranges over all hash functions and seeds: O-eq(x,y) => equal hashes",
			"enum/const: listed values are symbolic JSON values (templates T(1,1,1)), instance symbolic with symbolic representation",
			"uniqueItems: arrays of length <= 3 (quick) / 4 (thorough), elements depth 1 in canonical and mixed representations; verdict <=> no two elements are JSON-equal, for every hash function, seed and collision pattern")
	}
}
