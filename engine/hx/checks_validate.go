package hx

import (
	"strings"
)

// ClassifyFinding maps a reproduced finding to a known-finding class ("" if none).
// The predicates look only at the concrete failing input.
func ClassifyFinding(f Finding) string {
	for _, c := range findingClasses {
		if c.Match(f) {
			return c.Name
		}
	}
	return ""
}

type findingClass struct {
	Name  string
	Match func(f Finding) bool
}

var findingClasses []findingClass

func init() {
	Checks["C01"] = checkC01
	Checks["C02"] = checkC02
	Checks["C03"] = checkC03
	Checks["C06"] = checkC06
	Checks["C07"] = checkC07
}

func checkC02(cc *CheckCtx, r *Report) {
	ts := TmplSpec{Depth: 2, MaxLen: 2, MaxKeys: 3}
	if cc.Thorough() {
		ts = TmplSpec{Depth: 2, MaxLen: 3, MaxKeys: 4}
	}
	skels := FamilyDraft7(ts, true)
	r.Bounds = append(r.Bounds, boundsValidate...)
	r.Outside = append(r.Outside, "2020-12-only keywords inside a draft-07 document; remote documents that declare a different draft than the root")
	cc.RunValidateFamily(r, skels, VOptions{ValidatePaths: true})
}

func checkC03(cc *CheckCtx, r *Report) {
	skels := FamilyRef(cc.Thorough(), cc.Seed)
	r.Bounds = append(r.Bounds, boundsValidate...)
	r.Bounds = append(r.Bounds, "reference topologies are enumerated (scaffold): the solver quantifies over the instance under each ref; Resolve error agreement and loader call counts are native observations per topology")
	r.Outside = append(r.Outside, "URI strings are concrete (net/url is native); references into a location inside a remote document's path, into unknown keywords or non-schema values; embedded resources of loaded documents addressed by their own $id from another document")
	cc.RunValidateFamily(r, skels, VOptions{ValidatePaths: true})
}

func checkC06(cc *CheckCtx, r *Report) {
	var skels []*Skeleton
	if cc.Thorough() {
		skels = append(FamilyDyn(3, 2, cc.Seed, false), FamilyDyn(3, 1, cc.Seed+1, true)...)
		skels = append(skels, FamilyDyn(5, 0, cc.Seed+2, false)[:0]...)
	} else {
		skels = append(FamilyDyn(2, 2, cc.Seed, false), FamilyDyn(2, 1, cc.Seed+1, true)...)
	}
	r.Bounds = append(r.Bounds, "dynamic-scope topologies: 1..2 (quick) / 1..3 (thorough) resources + root, each with $dynamicAnchor/$anchor/no anchor, all visiting orders, hops by $ref / allOf / $dynamicRef, final $dynamicRef in fragment, resource-relative and pointer form, embedded or loader-supplied; instance = one symbolic JSON value; two Validate calls on the same Resolved per path")
	cc.RunValidateFamily(r, skels, VOptions{ValidatePaths: true})
}

func checkC07(cc *CheckCtx, r *Report) {
	ts := TmplSpec{Depth: 2, MaxLen: 3, MaxKeys: 3}
	skels := FamilyNest(ts, cc.Thorough())
	for _, sk := range FamilyPair(TmplSpec{Depth: 2, MaxLen: 2, MaxKeys: 3}, true) {
		if strings.Contains(sk.Doc, "unevaluated") {
			skels = append(skels, sk)
		}
	}
	if cc.Thorough() {
		for _, sk := range FamilyNest(TmplSpec{Depth: 2, MaxLen: 3, MaxKeys: 4}, true) {
			c := *sk
			c.Name += ".all-orders"
			c.AllOrders = true
			skels = append(skels, &c)
		}
	}
	r.Bounds = append(r.Bounds, boundsValidate...)
	cc.RunValidateFamily(r, skels, VOptions{ValidatePaths: true})
}

var boundsValidate = []string{
	"instance: symbolic JSON template, every node of any of the six JSON types; numbers = 53-bit mantissa x exponent set {-1074,-30,-4..4,30,60,970}; strings abstract (equality, code-point count, byte length, regexp predicates) with <= 64 code points on replay; object keys from a concrete pool computed per schema",
	"one concrete schema skeleton per exploration (enumerated scaffold)",
	"per-path budgets: 2,000,000 SSA instructions, call depth 400, 20,000 paths per skeleton (exceeding any is reported and fails the run)",
}

func checkC01(cc *CheckCtx, r *Report) {
	ts := TmplSpec{Depth: 2, MaxLen: 2, MaxKeys: 3}
	skels := append(FamilySingle(ts), FamilyPair(ts, true)...)
	if cc.Thorough() {
		ts3 := TmplSpec{Depth: 2, MaxLen: 3, MaxKeys: 4}
		skels = append(skels, FamilyTriple(ts, cc.Seed, 300)...)
		skels = append(skels, FamilyNest(ts3, true)...)
	}
	r.Bounds = append(r.Bounds, boundsValidate...)
	r.Bounds = append(r.Bounds, "template T(depth 2, array length <= 2, <= 3 pool keys) for quick; thorough adds seeded triples and nesting with T(2,3,4)")
	r.Outside = append(r.Outside, "multipleOf with non-dyadic divisors; regexp matching on strings outside the realised pool is abstracted (same predicate on both sides); schema recursion only through instance-descending keywords; instances deeper/longer than the template")
	cc.RunValidateFamily(r, skels, VOptions{ValidatePaths: true})
}

var _ = strings.Contains
