package hx

import (
	"encoding/json"
	"fmt"
	"math/big"
	"reflect"
	"strings"

	"github.com/google/jsonschema-go/jsonschema"

	"verif/engine/refsem"
	"verif/engine/sx"
)

// ClassifyFinding maps a reproduced finding to a known-finding class ("" if none).
// The predicates look only at the concrete failing input.
func ClassifyFinding(f Finding) string {
	for _, c := range findingClasses {
		if c.Match(f) {
			return c.Name
		}
	}
	return ""
}

type findingClass struct {
	Name  string
	Match func(f Finding) bool
}

var findingClasses = []findingClass{
	{"duplicate-json-name", func(f Finding) bool {
		// C04: a struct with two fields of the same JSON name at one depth (encoding/json emits neither)
		if f.Kind != "encoding-rejected" || !strings.HasPrefix(f.Skeleton, "F-types/") {
			return false
		}
		for _, tc := range TypeFamily() {
			if "F-types/"+tc.Name == f.Skeleton {
				return hasDuplicateJSONNames(tc.T)
			}
		}
		return false
	}},
	{"float32-overflow", func(f Finding) bool {
		// C09: a number beyond the float32 range validates against {"type":"number"} but does not decode into float32
		return f.Kind == "accepted-but-not-decodable" && strings.Contains(f.Observed, "float32")
	}},
}

func hasDuplicateJSONNames(t reflect.Type) bool {
	for t.Kind() == reflect.Pointer || t.Kind() == reflect.Slice || t.Kind() == reflect.Array || t.Kind() == reflect.Map {
		t = t.Elem()
	}
	if t.Kind() != reflect.Struct {
		return false
	}
	seen := map[string]bool{}
	for i := 0; i < t.NumField(); i++ {
		sf := t.Field(i)
		if !sf.IsExported() || sf.Anonymous {
			continue
		}
		name, _, _ := strings.Cut(sf.Tag.Get("json"), ",")
		if sf.Tag.Get("json") == "-" {
			continue
		}
		if name == "" {
			name = sf.Name
		}
		if seen[name] {
			return true
		}
		seen[name] = true
	}
	return false
}

func init() {
	Checks["C01"] = checkC01
	Checks["C02"] = checkC02
	Checks["C03"] = checkC03
	Checks["C06"] = checkC06
	Checks["C07"] = checkC07
	Checks["C08"] = checkC08
}

var allNumReps = []int{sx.RepFloat64, sx.RepFloat32, sx.RepInt, sx.RepInt8, sx.RepInt16, sx.RepInt32, sx.RepInt64, sx.RepUint, sx.RepUint8, sx.RepUint16, sx.RepUint32, sx.RepUint64, sx.RepUintptr, sx.RepJSONNumber}

var two53 = new(big.Int).Lsh(big.NewInt(1), 53)

// repProfile derives a skeleton whose instance template varies one representation dimension.
func repProfile(p *sx.Program, sk *Skeleton, profile string) *Skeleton {
	c := *sk
	tm := *sk.Tm
	c.Name = sk.Name + "@" + profile
	tm.StrT = p.NamedType("VerifStr")
	tm.KeyT = p.NamedType("VerifKey")
	switch profile {
	case "numeric":
		tm.NumReps = allNumReps
		tm.NegZero = true
		tm.IntAbsLimit = two53
		tm.JNIntegersOnly = true
	case "containers":
		tm.NumReps = []int{sx.RepFloat64, sx.RepInt}
		tm.IntAbsLimit = two53
		tm.ContainerReps = true
	case "wrappers":
		tm.Wrappers = true
	case "badjn":
		tm.NumReps = []int{sx.RepFloat64, sx.RepJSONNumber}
		tm.JNIntegersOnly = true
		tm.IntAbsLimit = two53
		tm.JNAllowBad = true
	case "bigint":
		// 64-bit integer kinds over their whole range, restricted to values that are exactly a float64
		tm.NumReps = []int{sx.RepFloat64, sx.RepInt64, sx.RepUint64, sx.RepUint, sx.RepUintptr}
		tm.IntExactFloat = true
	case "jnspell":
		// typed containers of json.Number whose members may spell equal numbers differently (1, 1.0, 1.00)
		tm.NumReps = []int{sx.RepFloat64, sx.RepJSONNumber}
		tm.IntAbsLimit = new(big.Int).Lsh(big.NewInt(1), 40)
		tm.ContainerReps = true
		tm.RootTyped = true
	case "ptrcontainers":
		// typed containers whose element type is T or *T, or a Go array [n]any
		tm.NumReps = []int{sx.RepFloat64, sx.RepInt}
		tm.IntAbsLimit = two53
		tm.ContainerReps = true
		tm.Wrappers = true
		tm.RootTyped = true
		tm.TypedPtrElems = true
	case "all":
		tm.NumReps = []int{sx.RepFloat64, sx.RepInt64, sx.RepUint8, sx.RepJSONNumber}
		tm.IntAbsLimit = two53
		tm.JNIntegersOnly = true
		tm.ContainerReps = true
		tm.Wrappers = true
	}
	c.Tm = &tm
	return &c
}

func checkC08(cc *CheckCtx, r *Report) {
	ts := TmplSpec{Depth: 2, MaxLen: 2, MaxKeys: 2}
	base := append(FamilySingle(ts), FamilyPair(ts, false)...)
	var skels []*Skeleton
	for _, sk := range base {
		kind := strings.SplitN(strings.TrimPrefix(sk.Name, sk.Family+"/"), ".", 2)[0]
		skels = append(skels, repProfile(cc.P, sk, "numeric"))
		if kind != "scalar" || strings.Contains(sk.Doc, "enum") || strings.Contains(sk.Doc, "const") {
			skels = append(skels, repProfile(cc.P, sk, "containers"), repProfile(cc.P, sk, "wrappers"))
		}
		if sk.Family == "F-single" && kind == "scalar" {
			skels = append(skels, repProfile(cc.P, sk, "bigint"))
		}
		if sk.Family == "F-single" && kind != "scalar" {
			skels = append(skels, repProfile(cc.P, sk, "ptrcontainers"))
		}
		if sk.Family == "F-single" && (strings.Contains(sk.Name, "unique") || strings.Contains(sk.Name, "contains") || strings.Contains(sk.Name, "items")) {
			skels = append(skels, repProfile(cc.P, sk, "jnspell"))
		}
	}
	r.Bounds = append(r.Bounds, boundsValidate...)
	r.Bounds = append(r.Bounds, "representation profiles: numeric (all 14 numeric kinds incl. float32 and json.Number, containers canonical), containers (typed slices/maps, Go arrays, named string and named key types; numbers float64|int), wrappers (one pointer layer at top level and in interface slots); bigint (F-single scalar keywords: int64/uint64/uint/uintptr over their whole range, restricted to values that are exactly a float64), ptrcontainers (F-single container keywords: the root is a typed slice/map whose element type is T, *T or a Go array [n]any), jnspell (array keywords: typed containers of json.Number n/10^k, k <= 3, |n| <= 2^40, so that equal numbers can be spelled differently); otherwise integer-kind and json.Number values bounded by |v| <= 2^53 and json.Number texts integral, where the exact value equals the canonical float64 decoding")
	r.Outside = append(r.Outside, "nil slices, nil maps and struct instances (the property's own exclusions); integers beyond 2^53 and json.Number texts that are not exactly a float64 (canonical decoding rounds them; decimal-to-binary rounding is not modelled)")
	cc.RunValidateFamily(r, skels, VOptions{ValidatePaths: true})
}

func checkC02(cc *CheckCtx, r *Report) {
	ts := TmplSpec{Depth: 2, MaxLen: 2, MaxKeys: 3}
	if cc.Thorough() {
		ts = TmplSpec{Depth: 2, MaxLen: 3, MaxKeys: 4}
	}
	skels := FamilyDraft7(ts, true)
	r.Bounds = append(r.Bounds, boundsValidate...)
	r.Outside = append(r.Outside, "2020-12-only keywords inside a draft-07 document; remote documents that declare a different draft than the root")
	cc.RunValidateFamily(r, skels, VOptions{ValidatePaths: true})
	// (b) the $schema switch: Resolve and Validate run in the engine on Schema{Schema: v}, v a symbolic byte string
	var cases []*KernelCase
	maxL := 48
	for n := 0; n <= maxL; n++ {
		cases = append(cases, &KernelCase{Name: fmt.Sprintf("schema-version.len%d", n), Func: "VerifKernelSchemaVersion", Native: jsonschema.VerifKernelSchemaVersion, Args: []ArgSpec{strArg(n, "")}})
	}
	cc.RunKernels(r, cases)
	r.Bounds = append(r.Bounds, "$schema switch: v = every byte string (bytes 0..127) of length 0..48; the real Resolve (checkStructure, checkLocal, resolveURIs, resolveRefs) and Validate run in the engine on Schema{Schema: v}: Validate reaches the evaluator exactly for \"\" and the three supported URIs, and the draft is 07 exactly for the two draft-07 spellings")
}

func checkC03(cc *CheckCtx, r *Report) {
	skels := FamilyRef(cc.Thorough(), cc.Seed)
	r.Bounds = append(r.Bounds, boundsValidate...)
	r.Bounds = append(r.Bounds, "reference topologies are enumerated (scaffold): the solver quantifies over the instance under each ref; Resolve error agreement and loader call counts are native observations per topology")
	r.Outside = append(r.Outside, "URI strings are concrete (net/url is native); references into a location inside a remote document's path, into unknown keywords or non-schema values; embedded resources of loaded documents addressed by their own $id from another document")
	cc.RunValidateFamily(r, skels, VOptions{ValidatePaths: true})
}

func checkC06(cc *CheckCtx, r *Report) {
	var skels []*Skeleton
	if cc.Thorough() {
		skels = append(FamilyDyn(3, 2, cc.Seed, false), FamilyDyn(3, 1, cc.Seed+1, true)...)
		skels = append(skels, FamilyDyn(5, 0, cc.Seed+2, false)[:0]...)
	} else {
		skels = append(FamilyDyn(2, 2, cc.Seed, false), FamilyDyn(2, 1, cc.Seed+1, true)...)
	}
	skels = append(skels, FamilyDynOrder(false)...)
	r.Bounds = append(r.Bounds, "dynamic-scope topologies: 1..2 (quick) / 1..3 (thorough) resources + root, each with $dynamicAnchor/$anchor/no anchor, all visiting orders, hops by $ref / allOf / $dynamicRef, final $dynamicRef in fragment, resource-relative and pointer form, embedded or loader-supplied; instance = one symbolic JSON value; two Validate calls on the same Resolved per path")
	cc.RunValidateFamily(r, skels, VOptions{ValidatePaths: true})
}

func checkC07(cc *CheckCtx, r *Report) {
	ts := TmplSpec{Depth: 2, MaxLen: 3, MaxKeys: 3}
	skels := FamilyNest(ts, cc.Thorough())
	for _, sk := range FamilyPair(TmplSpec{Depth: 2, MaxLen: 2, MaxKeys: 3}, true) {
		if strings.Contains(sk.Doc, "unevaluated") {
			skels = append(skels, sk)
		}
	}
	if cc.Thorough() {
		for _, sk := range FamilyNest(TmplSpec{Depth: 2, MaxLen: 3, MaxKeys: 4}, true) {
			c := *sk
			c.Name += ".all-orders"
			c.AllOrders = true
			skels = append(skels, &c)
		}
	}
	r.Bounds = append(r.Bounds, boundsValidate...)
	cc.RunValidateFamily(r, skels, VOptions{ValidatePaths: true})
}

var boundsValidate = []string{
	"instance: symbolic JSON template, every node of any of the six JSON types; numbers = 53-bit mantissa x exponent set {-1074,-30,-4..4,30,60,970}; strings abstract (equality, code-point count, byte length, regexp predicates) with <= 64 code points on replay; object keys from a concrete pool computed per schema",
	"one concrete schema skeleton per exploration (enumerated scaffold)",
	"per-path budgets: 2,000,000 SSA instructions, call depth 400, 20,000 paths per skeleton (exceeding any is reported and fails the run)",
}

func checkC01(cc *CheckCtx, r *Report) {
	ts := TmplSpec{Depth: 2, MaxLen: 2, MaxKeys: 3}
	skels := append(FamilySingle(ts), FamilyPair(ts, true)...)
	skels = append(skels, FamilyNest(ts, false)...)
	if cc.Thorough() {
		ts3 := TmplSpec{Depth: 2, MaxLen: 3, MaxKeys: 4}
		skels = append(skels, FamilyTriple(ts, cc.Seed, 300)...)
		skels = append(skels, FamilyNest(ts3, true)...)
	}
	r.Bounds = append(r.Bounds, boundsValidate...)
	r.Bounds = append(r.Bounds, "template T(depth 2, array length <= 2, <= 3 pool keys) for quick; thorough adds seeded triples and nesting with T(2,3,4)")
	r.Outside = append(r.Outside, "multipleOf with non-dyadic divisors; regexp matching on strings outside the realised pool is abstracted (same predicate on both sides); schema recursion only through instance-descending keywords; instances deeper/longer than the template")
	cc.RunValidateFamily(r, skels, VOptions{ValidatePaths: true})
	// numeric keyword values symbolic (finite floats on the mantissa/exponent grid, int32 integers)
	ps := FamilyParam(TmplSpec{Depth: 1, MaxLen: 2, MaxKeys: 2})
	ps, results := RunSkeletons(cc.P, ps, cc.Workers, cc.Timeout, func(w *Worker, sk *Skeleton) *SkelResult {
		return w.RunParamSkeleton(sk, "C01", false)
	})
	for i, s := range results {
		r.AddSkel(ps[i], s)
	}
	r.Bounds = append(r.Bounds, "F-param: the values of minimum/maximum/exclusive*/min*/max* keywords are symbolic too (floats: 53-bit mantissa x exponent set; integers: the int32 range a schema document can carry)")
}

var _ = strings.Contains

func newBigU(v uint64) *big.Int { return new(big.Int).SetUint64(v) }

func equalCases(p *sx.Program, thorough bool) []*EqualCase {
	mk := func(name string, depth, maxLen, maxKeys int, f func(tm *sx.Tmpl)) *EqualCase {
		keys := []string{"a", "b", "c"}[:maxKeys]
		tx := &sx.Tmpl{Depth: depth, MaxLen: maxLen, Keys: keys, StrT: p.NamedType("VerifStr"), KeyT: p.NamedType("VerifKey")}
		f(tx)
		ty := *tx
		return &EqualCase{Name: "F-equal/" + name, TmX: tx, TmY: &ty, FixTagX: -1, FixTagY: -1}
	}
	split := func(cs ...*EqualCase) []*EqualCase {
		var out []*EqualCase
		for _, c := range cs {
			if c.TmX.Depth == 0 {
				out = append(out, c)
				continue
			}
			for t := 0; t < 6; t++ {
				cc := *c
				cc.Name = fmt.Sprintf("%s.x-%s", c.Name, sx.TagNames[t])
				cc.FixTagX = t
				if t < sx.TagArray {
					out = append(out, &cc)
					continue
				}
				for u := 0; u < 6; u++ {
					cd := cc
					cd.Name = fmt.Sprintf("%s.y-%s", cc.Name, sx.TagNames[u])
					cd.FixTagY = u
					out = append(out, &cd)
				}
			}
		}
		return out
	}
	d, l := 1, 1
	if thorough {
		l = 2
	}
	k := 1
	if thorough {
		k = 2
	}
	return split(
		mk("scalars-all-numeric", 0, 0, 0, func(tm *sx.Tmpl) { tm.NumReps = allNumReps; tm.NegZero = true }),
		mk("numeric-in-containers", d, l, k, func(tm *sx.Tmpl) { tm.NumReps = allNumReps; tm.NegZero = true }),
		mk("containers", d, l, k, func(tm *sx.Tmpl) {
			tm.NumReps = []int{sx.RepFloat64, sx.RepInt, sx.RepUint64}
			tm.ContainerReps = true
		}),
		mk("wrappers", d, l, k, func(tm *sx.Tmpl) { tm.Wrappers = true; tm.NumReps = []int{sx.RepFloat64, sx.RepInt64} }),
		mk("all-small", 1, 1, 1, func(tm *sx.Tmpl) {
			tm.NumReps = []int{sx.RepFloat64, sx.RepJSONNumber}
			if thorough {
				tm.NumReps = []int{sx.RepFloat64, sx.RepInt64, sx.RepUint8, sx.RepJSONNumber}
			}
			tm.ContainerReps = true
			tm.Wrappers = thorough
		}),
		mk("canonical-len2", 1, 2, 2, func(tm *sx.Tmpl) {}),
		mk("canonical-depth2", 2, 1, 1, func(tm *sx.Tmpl) {}),
	)
}

func init() {
	Checks["C11"] = func(cc *CheckCtx, r *Report) {
		cases := equalCases(cc.P, cc.Thorough())
		skels := make([]*Skeleton, len(cases))
		for i, c := range cases {
			skels[i] = &Skeleton{Name: c.Name, Family: "F-equal"}
		}
		skels, results := RunSkeletons(cc.P, skels, cc.Workers, cc.Timeout, func(w *Worker, sk *Skeleton) *SkelResult {
			for _, c := range cases {
				if c.Name == sk.Name {
					return w.RunEqualCase(c, "C11", false)
				}
			}
			return nil
		})
		for i, s := range results {
			for j := range s.Findings {
				s.Findings[j].Class = ClassifyFinding(s.Findings[j])
			}
			r.AddSkel(skels[i], s)
		}
		cc.RunKernels(r, []*KernelCase{{Name: "equal-aliased-slices", Func: "VerifKernelEqualAliased", Native: jsonschema.VerifKernelEqualAliased}})
		r.Bounds = append(r.Bounds, "aliasing kernel (concrete): slices sharing a backing array (s vs s[:k], later starts, []any / []int / []string, nested in arrays and objects) are equal exactly when their elements are")
		r.Bounds = append(r.Bounds, "two independent symbolic JSON values x, y per query, templates T(1,2..3,2) and T(2,2,2); numeric kinds over their full ranges (integers beyond 2^53 included), json.Number n/10^k with k<=3; representation profiles as in C08", "reflexivity, symmetry and transitivity follow within the bound from agreement with mathematical JSON equality")
	}
}

func init() {
	Checks["C12"] = func(cc *CheckCtx, r *Report) {
		p := cc.P
		thorough := cc.Thorough()
		// (a) hash law on the C11 cases
		cases := equalCases(p, thorough)
		byName := map[string]*EqualCase{}
		var skels []*Skeleton
		for _, c := range cases {
			if !thorough && strings.Contains(c.Name, "canonical-len2") {
				continue // the product of two independent traversals; kept for the thorough tier
			}
			c2 := *c
			c2.Name = "F-hash/" + c.Name[len("F-equal/"):]
			byName[c2.Name] = &c2
			skels = append(skels, &Skeleton{Name: c2.Name, Family: "F-hash"})
		}
		quickHash := map[string]*EqualCase{}
		if thorough {
			for _, c := range equalCases(p, false) {
				c2 := *c
				c2.Name = "F-hash/" + c.Name[len("F-equal/"):]
				quickHash[c2.Name] = &c2
			}
		}
		// (c) enum / const with symbolic listed values
		enumByName := map[string]*EnumCase{}
		mkT := func(depth, maxLen, keys int, f func(tm *sx.Tmpl)) *sx.Tmpl {
			tm := &sx.Tmpl{Depth: depth, MaxLen: maxLen, Keys: []string{"a", "b"}[:keys], StrT: p.NamedType("VerifStr"), KeyT: p.NamedType("VerifKey")}
			f(tm)
			return tm
		}
		addEnum := func(name string, n int, ti, te *sx.Tmpl) {
			for t := 0; t < 6; t++ {
				ec := &EnumCase{Name: fmt.Sprintf("F-enum/%s.i-%s", name, sx.TagNames[t]), Tm: ti, TmE: te, NEnum: n, FixTagI: t}
				enumByName[ec.Name] = ec
				skels = append(skels, &Skeleton{Name: ec.Name, Family: "F-enum"})
			}
		}
		canon := mkT(1, 1, 1, func(tm *sx.Tmpl) {})
		numeric := mkT(1, 1, 1, func(tm *sx.Tmpl) { tm.NumReps = allNumReps; tm.NegZero = true })
		cont := mkT(1, 1, 1, func(tm *sx.Tmpl) { tm.NumReps = []int{sx.RepFloat64, sx.RepInt}; tm.ContainerReps = true })
		wrap := mkT(1, 1, 1, func(tm *sx.Tmpl) { tm.Wrappers = true })
		addEnum("enum2.numeric", 2, numeric, canon)
		addEnum("const.numeric", 0, numeric, canon)
		addEnum("const.containers", 0, cont, canon)
		addEnum("const.wrappers", 0, wrap, canon)
		canon2 := mkT(1, 1, 2, func(tm *sx.Tmpl) {})
		addEnum("const.canonical-keys2", 0, canon2, canon2) // objects that differ in their key sets (null members vs absent keys)
		if thorough {
			addEnum("enum2.containers", 2, cont, canon)
			addEnum("enum3.canonical", 3, canon, canon)
		}
		// (b) uniqueItems end to end: symbolic arrays with symbolic hash function and seed
		uq := func(name string, maxLen int, f func(tm *sx.Tmpl)) {
			sk := mkSkel("F-unique", name, J{"uniqueItems": true}, refsem.Draft2020, TmplSpec{1, maxLen, 1})
			tm := *sk.Tm
			tm.StrT, tm.KeyT = p.NamedType("VerifStr"), p.NamedType("VerifKey")
			f(&tm)
			sk.Tm = &tm
			skels = append(skels, sk)
		}
		uq("canonical-len3", 3, func(tm *sx.Tmpl) { tm.NegZero = true })
		// degenerate lists: an enum without values admits nothing; a one-element enum is const
		for _, d := range []struct {
			n string
			j J
		}{{"enum-empty", J{"enum": A{}}}, {"enum-empty-with-type", J{"type": "string", "enum": A{}}}, {"enum-one-null", J{"enum": A{nil}}}, {"enum-one-object", J{"enum": A{J{"a": A{}}}}}, {"const-empty-array", J{"const": A{}}}, {"const-empty-object", J{"const": J{}}}} {
			sk := mkSkel("F-enumdoc", d.n, d.j, refsem.Draft2020, TmplSpec{2, 2, 2})
			skels = append(skels, sk)
		}
		uq("numeric-len2", 2, func(tm *sx.Tmpl) { tm.NumReps = allNumReps; tm.NegZero = true })
		uq("containers-len2", 2, func(tm *sx.Tmpl) { tm.NumReps = []int{sx.RepFloat64, sx.RepInt}; tm.ContainerReps = true })
		uq("wrappers-len2", 2, func(tm *sx.Tmpl) { tm.Wrappers = true })
		if thorough {
			uq("canonical-len4", 4, func(tm *sx.Tmpl) {})
			uq("numeric-len3", 3, func(tm *sx.Tmpl) { tm.NumReps = []int{sx.RepFloat64, sx.RepInt64, sx.RepUint64, sx.RepJSONNumber} })
		}
		skels, results := RunSkeletons(cc.P, skels, cc.Workers, cc.Timeout, func(w *Worker, sk *Skeleton) *SkelResult {
			if c, ok := byName[sk.Name]; ok {
				res := w.RunEqualCase(c, "C12", true)
				if q, okq := quickHash[sk.Name]; okq && thorough && budgetExceeded(res) && len(res.Findings) == 0 {
					res = w.RunEqualCase(q, "C12", true)
					res.ReducedBound = "decided on the quick-tier templates (the thorough templates exceeded the path budget)"
				}
				return res
			}
			if c, ok := enumByName[sk.Name]; ok {
				return w.RunEnumCase(c, "C12")
			}
			return w.RunValidateSkeleton(sk, VOptions{Property: "C12", ValidatePaths: true})
		})
		for i, s := range results {
			for j := range s.Findings {
				s.Findings[j].Class = ClassifyFinding(s.Findings[j])
			}
			r.AddSkel(skels[i], s)
		}
		// the same JSON array held as []byte and in other Go representations is a duplicate (symbolic element values)
		cc.RunKernels(r, []*KernelCase{{Name: "unique-mixed-array-representations", Func: "VerifKernelUniqueMixedReps", Native: jsonschema.VerifKernelUniqueMixedReps,
			Args: []ArgSpec{{Kind: "int", Lo: 0, Hi: 255}, {Kind: "int", Lo: 0, Hi: 255}}}})
		r.Bounds = append(r.Bounds, "kernel: uniqueItems on [x, y] where x = []byte{a,b} and y the same array as []any / []int / []float64 / [2]uint8 / []uint8, a and b symbolic bytes: always a duplicate")
		r.Bounds = append(r.Bounds,
			"hash law: hashValue on two symbolic values with one symbolic seed; maphash modelled as a chain of uninterpreted mixing functions (one application per token written), so the query ranges over all hash functions and seeds: O-eq(x,y) => equal hashes",
			"enum/const: listed values are symbolic JSON values (templates T(1,1,1), and T(1,1,2) on both sides for const), instance symbolic with symbolic representation",
			"uniqueItems: arrays of length <= 3 (quick) / 4 (thorough), elements depth 1 in canonical and mixed representations; verdict <=> no two elements are JSON-equal, for every hash function, seed and collision pattern")
	}
}

// premiseSkeletons selects the Validate skeletons on which the write-footprint premise
// of C13/C14 is decided.
func premiseSkeletons(cc *CheckCtx) []*Skeleton {
	ts := TmplSpec{Depth: 2, MaxLen: 2, MaxKeys: 3}
	skels := FamilySingle(ts)
	for _, sk := range FamilyPair(ts, true) {
		if strings.Contains(sk.Name, "logic.") || strings.Contains(sk.Name, "uneval") || strings.Contains(sk.Name, "unique") || cc.Thorough() {
			skels = append(skels, sk)
		}
	}
	skels = append(skels, FamilyNest(ts, cc.Thorough())...)
	skels = append(skels, FamilyDraft7(ts, false)...)
	dyn := FamilyDyn(2, 2, cc.Seed, false)
	for i, sk := range dyn {
		if i%5 == 0 || cc.Thorough() {
			skels = append(skels, sk)
		}
	}
	return skels
}

func init() {
	Checks["C13"] = func(cc *CheckCtx, r *Report) {
		r.Level = "other"
		skels := premiseSkeletons(cc)
		cc.RunValidateFamily(r, skels, VOptions{SharedWritesAreFindings: true})
		// ApplyDefaults on distinct instances: only the instance may be written
		ds := FamilyDefaults(cc.Thorough())
		ds, results := RunSkeletons(cc.P, ds, cc.Workers, cc.Timeout, func(w *Worker, sk *Skeleton) *SkelResult {
			s := w.RunDefaultsSkeleton(sk, "C13")
			if len(s.SharedWrites) > 0 {
				s.Findings = append(s.Findings, Finding{Property: "C13", Kind: "shared-write", Skeleton: sk.Name, Family: sk.Family, Doc: sk.Doc, Expected: "ApplyDefaults writes only to the instance and to memory allocated during the call", Observed: strings.Join(s.SharedWrites, "; ")})
			}
			return s
		})
		for i, s := range results {
			r.AddSkel(ds[i], s)
		}
		// For on shared ForOptions: the override schemas must not be written
		cc.RunForSharedFamily(r)
		// Resolve on a shared Schema tree: no write into the tree (the real Resolve in the engine)
		{
			ds := ResolveOrderDocs()
			ds, results := RunSkeletons(cc.P, ds, cc.Workers, cc.Timeout, func(w *Worker, sk *Skeleton) *SkelResult {
				return w.RunResolveOrders(sk, "C13")
			})
			for i, s := range results {
				r.AddSkel(ds[i], s)
			}
			r.Bounds = append(r.Bounds, "Resolve on a shared Schema tree: the F-resorder documents are imported as shared pre-state and the real Resolve runs in the engine (all map orders); any store, append or map update into the caller's tree is a violation, confirmed by a native deep before/after comparison")
		}
		// Marshal on a shared Schema: no write into it
		cc.RunMarshalPurityFamily(r)
		{
			var cases []*KernelCase
			for n := 0; n <= 2; n++ {
				cases = append(cases, &KernelCase{Name: fmt.Sprintf("marshal-purity.order.len%d", n), Func: "VerifKernelPropertyOrder", Native: jsonschema.VerifKernelPropertyOrder, AllOrders: true, SchemaMarshalsTrue: true,
					Args: []ArgSpec{boolArg(), boolArg(), boolArg(), boolArg(), strArg(n, "abcBz")}})
			}
			cc.RunKernels(r, cases)
		}
		// process-wide caches: complete before publication, never written afterwards
		{
			sk := []*Skeleton{{Name: "F-cache/jsonNames", Family: "F-cache"}}
			sk, res := RunSkeletons(cc.P, sk, 1, cc.Timeout, func(w *Worker, _ *Skeleton) *SkelResult { return w.RunCacheKernel("C13") })
			for i, s := range res {
				r.AddSkel(sk[i], s)
			}
			r.Bounds = append(r.Bounds, "field-name cache (jsonNames): filled from cold in the engine for the Schema type; a value stored into a sync.Map counts as published, and any later write into it is a violation (confirmed with concurrent cold-cache calls under the race detector)")
		}
		r.Explanation = "Schedules are not enumerated (the engine has no model of Go's concurrency). What is decided, by symbolic execution of the real SSA over all instances within the template bounds, is a sufficient condition that makes schedules irrelevant: on every path of Validate (and of ApplyDefaults, except for the caller's own instance) no Store / map update / reflect Set targets memory that existed before the call (the imported Resolved, Schema tree, side tables, package-level variables after initialisation) unless it goes through a sync.Map. Calls that write only call-local memory cannot race with each other and behave as in isolation. A violation is confirmed natively by a deep before/after comparison or by running concurrent calls under the race detector."
		r.Bounds = append(r.Bounds, boundsValidate...)
		r.Outside = append(r.Outside, "CloneSchemas on shared inputs (see C20), Marshal beyond the F-marshalpure schemas and the order kernel, Resolve beyond the F-resorder documents, and For beyond its TypeSchemas overrides (their write footprints are not explored); the Go memory model itself; library internals behind intrinsics (regexp, fmt, maphash are documented safe for concurrent use)")
		r.Extra["paths_with_shared_writes"] = len(r.SharedWrites)
	}
	Checks["C14"] = func(cc *CheckCtx, r *Report) {
		// (a) purity premise: no store into the Resolved, the Schema tree or the instance
		skels := premiseSkeletons(cc)
		if !cc.Thorough() {
			var sub []*Skeleton
			for i, sk := range skels {
				if i%3 == 0 {
					sub = append(sub, sk)
				}
			}
			skels = sub
		}
		// (b) determinism under every map iteration order
		ts := TmplSpec{Depth: 1, MaxLen: 2, MaxKeys: 2}
		if cc.Thorough() {
			ts.MaxKeys = 3
		}
		var orders []*Skeleton
		for _, sk := range append(FamilyPair(ts, false), FamilyDraft7(ts, false)...) {
			if strings.Contains(sk.Name, "object.") || strings.Contains(sk.Name, "dep") || strings.Contains(sk.Name, "pattern") || strings.Contains(sk.Name, "props") {
				c := *sk
				c.Name += ".all-orders"
				c.AllOrders = true
				orders = append(orders, &c)
			}
		}
		if !cc.Thorough() {
			var sub []*Skeleton
			for i, sk := range orders {
				if i%3 == 0 {
					sub = append(sub, sk)
				}
			}
			orders = sub
		}
		skels = append(skels, orders...)
		// (c) all hash seeds: uniqueItems with the symbolic hash model
		skels = append(skels, mkSkel("F-unique", "len3", J{"uniqueItems": true}, refsem.Draft2020, TmplSpec{1, 3, 1}))
		cc.RunValidateFamily(r, skels, VOptions{SharedWritesAreFindings: true, ValidatePaths: true})
		// (d) Resolve is deterministic under every map iteration order (real Resolve in the engine, all orders forked)
		{
			ds := ResolveOrderDocs()
			ds, results := RunSkeletons(cc.P, ds, cc.Workers, cc.Timeout, func(w *Worker, sk *Skeleton) *SkelResult {
				return w.RunResolveOrders(sk, "C14")
			})
			for i, s := range results {
				r.AddSkel(ds[i], s)
			}
			r.Bounds = append(r.Bounds, "Resolve determinism: 13 concrete documents with (duplicate) $id, anchors, dynamic anchors, pointer references and loader-supplied diamonds of documents in mixed drafts; the real Resolve runs in the engine and every map range forks over all permutations of its keys (maps of <= 4 keys; larger maps: every rotation in both directions); each path's rendering of bases/URIs/reference targets/anchors must equal the native one (exhaustive over iteration orders; no symbolic data, so this part is exploration rather than an SMT verdict)")
		}
		cc.RunMarshalPurityFamily(r)
		// (e) Marshal leaves PropertyOrder (and the memory behind it) alone, for every order list and property set
		{
			var cases []*KernelCase
			for n := 0; n <= 2; n++ {
				cases = append(cases, &KernelCase{Name: fmt.Sprintf("marshal-purity.order.len%d", n), Func: "VerifKernelPropertyOrder", Native: jsonschema.VerifKernelPropertyOrder, AllOrders: true, SchemaMarshalsTrue: true,
					Args: []ArgSpec{boolArg(), boolArg(), boolArg(), boolArg(), strArg(n, "abcBz")}})
			}
			cc.RunKernels(r, cases)
			r.Bounds = append(r.Bounds, "Marshal purity: the C19 kernel (real orderedProperties.MarshalJSON, symbolic property presence, order lists of length <= 2 with spare capacity) also asserts that the list and its spare capacity are unchanged after the call")
		}
		// scaffold (native, not solver-decided): Resolve leaves the Schema tree untouched; repeated Marshal is byte-identical
		impure, nondet := 0, 0
		for _, sk := range skels {
			s := new(jsonschema.Schema)
			if json.Unmarshal([]byte(sk.Doc), s) != nil {
				continue
			}
			before := DeepDump(s)
			b1, _ := json.Marshal(s)
			s.Resolve(nil)
			if DeepDump(s) != before {
				impure++
			}
			for i := 0; i < 3; i++ {
				b2, _ := json.Marshal(s)
				if string(b1) != string(b2) {
					nondet++
				}
			}
		}
		r.Extra["scaffold_resolve_mutated_schema"] = impure
		r.Extra["scaffold_marshal_nondeterministic"] = nondet
		if impure > 0 {
			r.Findings = append(r.Findings, Finding{Property: "C14", Kind: "resolve-mutates-schema", Expected: "Resolve leaves the Schema tree untouched", Observed: fmt.Sprintf("%d skeleton(s) whose Schema differs after Resolve (deep comparison)", impure)})
		}
		r.Bounds = append(r.Bounds, boundsValidate...)
		r.Bounds = append(r.Bounds, "map iteration: every range over a map (instance objects, Properties, PatternProperties, dependencies, annotations) forks over all orders of up to 4 keys; since each path is compared with the order-independent reference verdict, agreement on all paths is determinism; hash seeds: symbolic seed and uninterpreted hash function; second call: see C06's two-call paths")
		r.Outside = append(r.Outside, "purity of Resolve and determinism of Marshal are native scaffold observations per skeleton (reported, not solver-decided); cross-process effects other than map order and hash seed")
	}
}

func init() {
	Checks["C10"] = func(cc *CheckCtx, r *Report) {
		// (a) Validate with every numeric Schema field symbolic, including non-finite floats and the
		// full int range (a Go-constructed Schema can hold them), instance symbolic
		ps := FamilyParam(TmplSpec{Depth: 1, MaxLen: 2, MaxKeys: 2})
		for _, sk := range ps {
			tm := *sk.Tm
			tm.NumReps = []int{sx.RepFloat64, sx.RepInt64, sx.RepUint64, sx.RepJSONNumber}
			tm.JNAllowBad = true
			tm.StrT, tm.KeyT = cc.P.NamedType("VerifStr"), cc.P.NamedType("VerifKey")
			sk.Tm = &tm
		}
		ps, results := RunSkeletons(cc.P, ps, cc.Workers, cc.Timeout, func(w *Worker, sk *Skeleton) *SkelResult {
			return w.RunParamSkeleton(sk, "C10", true)
		})
		for i, s := range results {
			for j := range s.Findings {
				s.Findings[j].Class = ClassifyFinding(s.Findings[j])
			}
			r.AddSkel(ps[i], s)
		}
		// (b) every instance representation on the structural skeletons: panics and budget overruns only
		ts := TmplSpec{Depth: 2, MaxLen: 2, MaxKeys: 2}
		var skels []*Skeleton
		for i, sk := range append(FamilySingle(ts), FamilyDraft7(ts, false)...) {
			if (cc.Thorough() || i%2 == 0) && !strings.Contains(sk.Name, "/wide.") {
				a := repProfile(cc.P, sk, "all")
				if strings.Contains(sk.Name, "recursive") || strings.Contains(sk.Name, "unique") || strings.Contains(sk.Name, "remote.") {
					a.Tm.Depth = 1 // every representation dimension at once: keep the instance flat here
				}
				skels = append(skels, a)
			}
			if sk.Family == "F-single" {
				skels = append(skels, repProfile(cc.P, sk, "badjn")) // json.Number values that math/big cannot parse are instances too
			}
		}
		cc.RunValidateFamily(r, skels, VOptions{})
		// (c) ApplyDefaults on arbitrary JSON-shaped instances
		ds := FamilyDefaults(cc.Thorough())
		for _, sk := range FamilyDefaults(cc.Thorough()) {
			// the same with objects held in maps whose key type is a named string type
			c := *sk
			tm := *sk.Tm
			tm.ContainerReps, tm.NamedKeyMapsOnly = true, true
			tm.StrT, tm.KeyT = cc.P.NamedType("VerifStr"), cc.P.NamedType("VerifKey")
			c.Tm = &tm
			c.Name += "@namedkeys"
			ds = append(ds, &c)
		}
		ds, dres := RunSkeletons(cc.P, ds, cc.Workers, cc.Timeout, func(w *Worker, sk *Skeleton) *SkelResult {
			return w.RunDefaultsSkeleton(sk, "C10")
		})
		for i, s := range dres {
			r.AddSkel(ds[i], s)
		}
		// (d) Resolve on reference topologies incl. failing loaders (native scaffold: must return, not panic)
		rf := FamilyRef(cc.Thorough(), cc.Seed)
		cc.RunValidateFamily(r, rf, VOptions{})
		// (f) Resolve on Schema graphs that are not trees, malformed URIs, conflicting fields, hostile loaders
		RunGraphScaffold(r, "C10")
		// (e) For/ForType on the declared type family, recursive types and unsupported kinds at any
		// depth, with every option combination of the scaffold: must return (native scaffold)
		{
			n, bad := ForScaffold()
			r.Extra["scaffold_for_types"] = n
			for _, b := range bad {
				if strings.Contains(b, "panicked") || strings.Contains(b, "did not return") {
					r.Findings = append(r.Findings, Finding{Property: "C10", Kind: "for-panic", Expected: "For returns a schema or an error", Observed: b})
				}
			}
		}
		r.Bounds = append(r.Bounds, boundsValidate...)
		r.Bounds = append(r.Bounds, "json.Number instances include the state \"text that math/big cannot parse\" (realised as 1e9999999), for which only panics are judged; every feasible path that ends in a Go panic (explicit panic, assert, run-time error, reflect-model panic) or exhausts the step/depth budget is a violation candidate, replayed natively under recover; Schema numeric fields range over the float model plus +Inf/-Inf/NaN and the full int range")
		r.Outside = append(r.Outside, "Unmarshal on arbitrary bytes (inside encoding/json); For/ForType beyond the declared type family of the scaffold (types are declared programs; see C16); Schema graphs and loader behaviours beyond the enumerated native cases (F-graph)")
	}
}

func init() {
	Checks["C18"] = func(cc *CheckCtx, r *Report) {
		ts := TmplSpec{Depth: 2, MaxLen: 2, MaxKeys: 3}
		skels := append(FamilySingle(ts), FamilyNest(ts, false)...)
		skels = append(skels, FamilyDraft7(ts, false)...)
		if cc.Thorough() {
			skels = append(skels, FamilyPair(ts, true)...)
		}
		for _, sk := range skels {
			sk.Name += "@havoc"
		}
		cc.RunValidateFamily(r, skels, VOptions{Havoc: true, ValidatePaths: true})
		// (b) scaffold, native: decorating every subschema with non-asserting and unknown keywords
		// leaves the verdict unchanged on the suite's own instances; Unmarshal accepts the decorated documents
		groups, _ := LoadSuite("draft2020-12")
		g7, _ := LoadSuite("draft7")
		groups = append(groups, g7...)
		checked, differs := 0, 0
		for _, g := range groups {
			sk := &Skeleton{Doc: string(g.SchemaJSON), Draft: map[string]int{"2020-12": refsem.Draft2020, "7": refsem.Draft7}[g.Draft], Universe: nil}
			if strings.Contains(sk.Doc, "$ref") || strings.Contains(sk.Doc, "$dynamicRef") {
				continue
			}
			for _, t := range g.Tests {
				var inst any
				json.Unmarshal(t.Data, &inst)
				d, _ := decoratedVerdictDiffers(sk, inst)
				checked++
				if d {
					differs++
				}
			}
		}
		cvChecked, cvBad := caseVariantScaffold()
		r.Extra["scaffold_case_variant_documents"] = cvChecked
		r.Extra["scaffold_case_variant_failures"] = len(cvBad)
		if len(cvBad) > 0 {
			r.Findings = append(r.Findings, Finding{Property: "C18", Kind: "case-variant-keyword-captured", Doc: cvBad[0], Expected: "a keyword that differs from a vocabulary keyword only in letter case is unknown: Unmarshal accepts it and it does not influence validation",
				Observed: fmt.Sprintf("%d of %d case-variant documents are rejected or change the verdict, e.g. %s", len(cvBad), cvChecked, cvBad[0]), Class: "case-variant-keyword"})
		}
		r.Extra["scaffold_decorated_suite_cases"] = checked
		r.Extra["scaffold_decorated_suite_differences"] = differs
		if differs > 0 {
			r.Findings = append(r.Findings, Finding{Property: "C18", Kind: "decoration-changes-verdict", Expected: "same verdict", Observed: fmt.Sprintf("%d of %d suite cases change verdict when decorated", differs, checked)})
		}
		r.Bounds = append(r.Bounds, boundsValidate...)
		r.Bounds = append(r.Bounds, "havoc: in every imported Schema node Title, Description, Comment, Format, ContentEncoding, ContentMediaType (arbitrary strings), Deprecated, ReadOnly, WriteOnly (arbitrary booleans), Default (arbitrary bytes), Examples and Extra (arbitrary JSON values, including an Extra key that differs from a keyword only in case) are unconstrained symbolic values; the reference semantics ignores them")
		r.Outside = append(r.Outside, "clause (b) of the property in full generality - unknown keyword spellings through encoding/json's case-insensitive field matching - is inside encoding/json and is not encoded; it is covered only by the concrete kernel of known case variants (reported as a known finding if present) and the native decoration scaffold; unreferenced $defs entries are covered by the skeleton families (ref skeletons carry unused definitions)")
	}
}

func init() {
	Checks["C05"] = func(cc *CheckCtx, r *Report) {
		var cases []*EquivCase
		// (d) documents of the C01/C02 families
		ts := TmplSpec{Depth: 2, MaxLen: 2, MaxKeys: 3}
		docs := append(FamilySingle(ts), FamilyDraft7(ts, false)...)
		docs = append(docs, FamilyNest(ts, false)...)
		if cc.Thorough() {
			docs = append(docs, FamilyPair(ts, true)...)
		}
		for _, sk := range docs {
			if sk.Universe != nil {
				continue
			}
			tm := *sk.Tm
			if !cc.Thorough() {
				tm.Depth, tm.MaxLen = 1, 2
			}
			cases = append(cases, &EquivCase{Name: "F-roundtrip/" + sk.Name, Doc: sk.Doc, Draft: sk.Draft, Tm: &tm})
		}
		// (d') Go-constructed schemas
		for _, c := range GoSchemaFamily() {
			if !cc.Thorough() {
				c.Tm = &sx.Tmpl{Depth: 1, MaxLen: 2, Keys: []string{"a", "b", "zz"}}
			}
			cases = append(cases, c)
		}
		skels := make([]*Skeleton, len(cases))
		byName := map[string]*EquivCase{}
		for i, c := range cases {
			fam := "F-roundtrip"
			if c.S != nil {
				fam = "F-goschema"
			}
			skels[i] = &Skeleton{Name: c.Name, Family: fam}
			byName[c.Name] = c
		}
		// kernels (a) and (b)
		type kern struct{ run func(w *Worker) *SkelResult }
		kernels := map[string]kern{}
		addK := func(name string, f func(w *Worker) *SkelResult) {
			kernels[name] = kern{f}
			skels = append(skels, &Skeleton{Name: name, Family: "kernel"})
		}
		addK("kernel/integer.dot", func(w *Worker) *SkelResult { return w.RunIntegerKernel(true, "C05") })
		addK("kernel/integer.nodot", func(w *Worker) *SkelResult { return w.RunIntegerKernel(false, "C05") })
		maxX := 2
		if cc.Thorough() {
			maxX = 4
		}
		for _, extra := range []bool{false, true} {
			extra := extra
			for xl := 0; xl <= maxX; xl++ {
				xl := xl
				for yl := 1; yl <= 2; yl++ {
					yl := yl
					if !extra && yl > 1 {
						continue
					}
					addK(fmt.Sprintf("kernel/splice.x%d.extra%v.y%d", xl, extra, yl), func(w *Worker) *SkelResult { return w.RunSpliceKernel(xl, "", extra, yl, "C05") })
				}
			}
			addK(fmt.Sprintf("kernel/splice.not.extra%v", extra), func(w *Worker) *SkelResult { return w.RunSpliceKernel(0, `"not":true`, extra, 1, "C05") })
			addK(fmt.Sprintf("kernel/splice.sym10.extra%v", extra), func(w *Worker) *SkelResult { return w.RunSpliceKernel(10, "", extra, 1, "C05") })
		}
		skels, results := RunSkeletons(cc.P, skels, cc.Workers, cc.Timeout, func(w *Worker, sk *Skeleton) *SkelResult {
			if k, ok := kernels[sk.Name]; ok {
				return k.run(w)
			}
			c := byName[sk.Name]
			res := w.RunEquivCase(c, "C05")
			if budgetExceeded(res) && c.Tm != nil && c.Tm.Depth > 1 {
				// the deep template does not fit the path budget for this schema: decide it on the
				// quick template instead and say so (a reduced bound, never a silent cut)
				small := *c
				small.Tm = &sx.Tmpl{Depth: 1, MaxLen: 2, Keys: c.Tm.Keys, KeysFor: c.Tm.KeysFor}
				res = w.RunEquivCase(&small, "C05")
				res.ReducedBound = "instance template reduced to depth 1 (the depth-2 template exceeded the path budget)"
			}
			return res
		})
		reduced := 0
		for i, s := range results {
			if s.ReducedBound != "" {
				reduced++
			}
			for j := range s.Findings {
				s.Findings[j].Class = ClassifyFinding(s.Findings[j])
			}
			r.AddSkel(skels[i], s)
		}
		if reduced > 0 {
			r.Bounds = append(r.Bounds, fmt.Sprintf("%d schemas were decided on the depth-1 instance template because the depth-2 template exceeded the per-schema path budget", reduced))
		}
		r.Bounds = append(r.Bounds, boundsValidate...)
		r.Bounds = append(r.Bounds, "behavioural equivalence: for each schema (documents of the F-single / F-draft7 / F-nest families; Go-constructed Schema values with each exported field nil / empty-but-present / null constant / one element / nested, alone, paired with five companions, and nested) S' = Unmarshal(Marshal(S)) is computed natively, both are resolved and imported, and the real Validate runs on both with one symbolic instance T(2,2,3) per path: the two verdicts must coincide on every path; scaffold (native, per schema): the second marshal is byte-identical, Resolve agrees")
		r.Bounds = append(r.Bounds, "kernel (a) integer.UnmarshalJSON from its real SSA with encoding/json's number parsing as a contract stub (arbitrary finite float64 incl. 2^31/2^63 boundaries, arbitrary int64, arbitrary parse error): succeeds and stores v exactly when the literal denotes an integer v within int32", "kernel (b) Schema.MarshalJSON from its real SSA with json.Marshal as a contract stub: struct bytes {X}, map bytes {Y}, X and Y arbitrary printable byte strings (|X| <= 2 (4 thorough), and |X| = 10 to cover the spelling \"not\":true): result is {X,Y} / {X} / {Y}, with {} folded to true and {\"not\":true} to false")
		r.Outside = append(r.Outside, "field-by-field population of all Schema fields through encoding/json itself (its body is not encoded): keyword survival and Extra are observed only through byte-identity of the second marshal and through validation behaviour")
	}
}
