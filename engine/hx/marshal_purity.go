package hx

import (
	"encoding/json"
	"fmt"
	"sort"
	"strings"
	"time"

	"github.com/google/jsonschema-go/jsonschema"

	"verif/engine/sx"
)

// Marshal purity (C13, C14): the real (Schema).MarshalJSON runs in the engine on a concrete
// Schema value imported as shared pre-state (slices with spare capacity); json.Marshal of the
// intermediate struct and of the Extra map is stubbed (the body of encoding/json is not
// encoded), so what is explored is everything MarshalJSON itself does before it hands over -
// where an in-place filter or append on PropertyOrder, Required, Types ... would write into
// the caller's schema. A write is confirmed natively by a deep before/after comparison that
// includes spare capacity.

type marshalPurityCase struct {
	name string
	mk   func() *jsonschema.Schema
}

func marshalPurityCases() []marshalPurityCase {
	withCap := func(xs ...string) []string { return append(make([]string, 0, len(xs)+2), xs...) }
	props := func(names ...string) map[string]*jsonschema.Schema {
		m := map[string]*jsonschema.Schema{}
		for _, n := range names {
			m[n] = &jsonschema.Schema{Type: "integer"}
		}
		return m
	}
	return []marshalPurityCase{
		{"order-exact", func() *jsonschema.Schema {
			return &jsonschema.Schema{Properties: props("A", "B"), PropertyOrder: withCap("B", "A")}
		}},
		{"order-stale-first", func() *jsonschema.Schema {
			return &jsonschema.Schema{Properties: props("A", "B"), PropertyOrder: withCap("gone", "B", "A")}
		}},
		{"order-stale-middle-unlisted", func() *jsonschema.Schema {
			return &jsonschema.Schema{Properties: props("A", "B", "C"), PropertyOrder: withCap("B", "gone", "A")}
		}},
		{"order-sorted-subset", func() *jsonschema.Schema {
			return &jsonschema.Schema{Properties: props("a", "b", "c", "d"), PropertyOrder: withCap("b", "d")}
		}},
		{"order-sorted-prefix-with-smaller-unlisted", func() *jsonschema.Schema {
			return &jsonschema.Schema{Properties: props("a", "m", "z"), PropertyOrder: withCap("m", "z")}
		}},
		{"order-subset", func() *jsonschema.Schema {
			return &jsonschema.Schema{Properties: props("A", "B", "C"), PropertyOrder: withCap("C")}
		}},
		{"order-shared-buffer", func() *jsonschema.Schema {
			common := withCap("id", "name", "tags")
			inner := &jsonschema.Schema{Properties: props("id", "extra"), PropertyOrder: common[:1]}
			return &jsonschema.Schema{Properties: map[string]*jsonschema.Schema{"id": inner, "name": {}, "tags": {}}, PropertyOrder: common}
		}},
		{"lists-with-capacity", func() *jsonschema.Schema {
			return &jsonschema.Schema{Types: withCap("string", "null"), Required: withCap("a"), Enum: append(make([]any, 0, 4), 1.0, "x"),
				Properties: props("a"), PropertyOrder: withCap("a"), Extra: map[string]any{"x-k": 1.0}}
		}},
		{"draft7-items", func() *jsonschema.Schema {
			return &jsonschema.Schema{Schema: "http://json-schema.org/draft-07/schema#", ItemsArray: append(make([]*jsonschema.Schema, 0, 3), &jsonschema.Schema{}),
				DependencyStrings: map[string][]string{"a": withCap("b")}}
		}},
	}
}

func (w *Worker) RunMarshalPurity(mc marshalPurityCase, property string) *SkelResult {
	t0 := time.Now()
	res := &SkelResult{Skeleton: "F-marshalpure/" + mc.name}
	defer func() { res.Elapsed = time.Since(t0) }()
	m := w.NewMachine()
	m.TrackShared = true
	res.Stats = m.Stats
	m.JSONMarshalHook = func(m *sx.Machine, args []sx.Value) (sx.Value, bool) {
		x := args[0].(sx.Iface)
		if x.T == nil {
			return nil, false
		}
		t := x.T.String()
		if strings.HasPrefix(t, "map[string]") || strings.HasPrefix(t, "struct{") || strings.HasPrefix(t, "*struct{") {
			return sx.Tuple{bytesToEngineValues(`{"k":1}`), sx.Iface{}}, true
		}
		return nil, false
	}
	var fn sx.Value
	func() {
		defer func() {
			if r := recover(); r != nil {
				res.SkelError = fmt.Sprint(r)
			}
		}()
		fn = m.P.Func("(Schema).MarshalJSON")
	}()
	if res.SkelError != "" {
		return res
	}
	var writes []string
	m.Explore(func(m *sx.Machine) sx.Value {
		im := sx.NewImporter(m)
		im.Shared = true
		return m.Call(fn, im.ImportStruct(mc.mk()))
	}, func(m *sx.Machine, r *sx.PathResult) {
		if !r.Decisive() {
			res.Inconclusive = append(res.Inconclusive, r.Outcome+": "+r.Msg)
			return
		}
		if len(r.SharedWrites) > 0 {
			res.VerdictSat++
			writes = append(writes, r.SharedWrites...)
			return
		}
		res.VerdictUnsat++
	})
	res.Paths, res.Forks, res.Steps = m.Stats.Paths, m.Stats.Forks, m.Stats.Steps
	res.Solver = w.S.Stats
	// native: deep snapshot before/after two Marshal calls; both calls give the same bytes
	s := mc.mk()
	before := DeepDump(s)
	b1, e1 := json.Marshal(s)
	b2, e2 := json.Marshal(s)
	changed := DeepDump(s) != before
	differs := (e1 == nil) != (e2 == nil) || string(b1) != string(b2)
	// the emitted order of "properties": listed-and-present names in list order, then the rest ascending
	if e1 == nil {
		if got, want := propertiesKeyOrder(b1), expectedKeyOrder(s); got != nil && strings.Join(got, ",") != strings.Join(want, ",") {
			res.Findings = append(res.Findings, Finding{Property: property, Kind: "marshal-property-order", Skeleton: res.Skeleton, Family: "F-marshalpure", Doc: "Go-constructed Schema " + mc.name + ": " + string(b1),
				Expected: "properties in the order " + strings.Join(want, ","), Observed: strings.Join(got, ",")})
			return res
		}
	}
	switch {
	case len(writes) == 0 && !changed && !differs:
		res.Validated++
		res.Sample = map[string]any{"schema": mc.name, "marshaled": string(b1), "unchanged_after_marshal": true}
	case changed || differs:
		obs := "the Schema differs after Marshal (deep comparison incl. spare capacity)"
		if differs {
			obs = fmt.Sprintf("two Marshal calls on the same Schema differ: %s (err %v) then %s (err %v)", b1, e1, b2, e2)
		}
		eng := "(no store seen in the engine: the write happens inside code behind the json.Marshal stub)"
		if len(writes) > 0 {
			eng = "engine: " + writes[0]
		}
		res.Findings = append(res.Findings, Finding{Property: property, Kind: "marshal-writes-schema", Skeleton: res.Skeleton, Family: "F-marshalpure", Doc: "Go-constructed Schema " + mc.name + ": " + trunc(before, 300),
			Expected: "Marshal leaves the Schema unchanged and repeated calls give the same bytes", Observed: obs + "; " + eng})
	default:
		res.EngineErrors = append(res.EngineErrors, fmt.Sprintf("engine reports %v during MarshalJSON but the native deep comparison sees no change", writes[0]))
	}
	return res
}

// RunMarshalPurityFamily folds the cases into the report.
func (cc *CheckCtx) RunMarshalPurityFamily(r *Report) {
	cases := marshalPurityCases()
	skels := make([]*Skeleton, len(cases))
	byName := map[string]marshalPurityCase{}
	for i, c := range cases {
		skels[i] = &Skeleton{Name: "F-marshalpure/" + c.name, Family: "F-marshalpure"}
		byName[skels[i].Name] = c
	}
	skels, results := RunSkeletons(cc.P, skels, cc.Workers, cc.Timeout, func(w *Worker, sk *Skeleton) *SkelResult {
		return w.RunMarshalPurity(byName[sk.Name], cc.ID)
	})
	for i, s := range results {
		r.AddSkel(skels[i], s)
	}
	r.Bounds = append(r.Bounds, fmt.Sprintf("Marshal on a shared Schema: (Schema).MarshalJSON runs in the engine on %d Go-constructed schemas (stale/subset PropertyOrder, lists with spare capacity, a PropertyOrder buffer shared between parent and child) imported as shared pre-state, with json.Marshal of the intermediate struct stubbed; stores/appends/copies into the schema are violations; natively the schema is compared deeply (incl. spare capacity) around two Marshal calls whose bytes must agree", len(cases)))
}

// propertiesKeyOrder returns the member names of the top-level "properties" object of a
// marshaled schema, in the order they appear in the bytes (nil if there is none).
func propertiesKeyOrder(b []byte) []string {
	dec := json.NewDecoder(strings.NewReader(string(b)))
	depth := 0
	inProps := false
	expectKey := false
	var keys []string
	var lastKey string
	for {
		tok, err := dec.Token()
		if err != nil {
			break
		}
		switch t := tok.(type) {
		case json.Delim:
			switch t {
			case '{', '[':
				depth++
				if depth == 2 && lastKey == "properties" && t == '{' {
					inProps = true
					keys = []string{}
				}
				expectKey = t == '{'
			case '}', ']':
				if inProps && depth == 2 {
					return keys
				}
				depth--
				expectKey = depth >= 1
			}
		case string:
			if expectKey && dec.More() {
				if depth == 1 {
					lastKey = t
				}
				if inProps && depth == 2 {
					keys = append(keys, t)
				}
				expectKey = false
				continue
			}
			expectKey = true
		default:
			expectKey = true
		}
	}
	return keys
}

func expectedKeyOrder(s *jsonschema.Schema) []string {
	if len(s.Properties) == 0 {
		return nil
	}
	var out []string
	seen := map[string]bool{}
	for _, n := range s.PropertyOrder {
		if _, ok := s.Properties[n]; ok && !seen[n] {
			out = append(out, n)
			seen[n] = true
		}
	}
	var rest []string
	for n := range s.Properties {
		if !seen[n] {
			rest = append(rest, n)
		}
	}
	sort.Strings(rest)
	return append(out, rest...)
}
