package hx

import (
	"encoding/json"
	"fmt"
	"go/types"
	"reflect"
	"sort"
	"strings"
	"time"

	"github.com/google/jsonschema-go/jsonschema"

	"verif/engine/sx"
)

// C20: CloneSchemas from its real SSA (reflection-driven walk over schemaFieldInfos, which
// the package initialiser computes in the engine) on Schema trees whose shape is chosen
// nondeterministically inside the path: two subschema-bearing fields of the root (found
// from the Go types, independently of the package's own field table), each as an empty
// container, one node or two nodes, and one nested child under the first node.

type schemaField struct {
	name string
	idx  int
	kind string // "ptr", "slice", "map"
}

func schemaBearingFields(p *sx.Program) []schemaField {
	st := p.NamedType("Schema").Underlying().(*types.Struct)
	schemaPtr := types.NewPointer(p.NamedType("Schema"))
	var out []schemaField
	for i := 0; i < st.NumFields(); i++ {
		f := st.Field(i)
		switch t := f.Type().(type) {
		case *types.Pointer:
			if types.Identical(t, schemaPtr) {
				out = append(out, schemaField{f.Name(), i, "ptr"})
			}
		case *types.Slice:
			if types.Identical(t.Elem(), schemaPtr) {
				out = append(out, schemaField{f.Name(), i, "slice"})
			}
		case *types.Map:
			if types.Identical(t.Elem(), schemaPtr) {
				out = append(out, schemaField{f.Name(), i, "map"})
			}
		}
	}
	return out
}

type cloneShape struct {
	F1, F2          int // indices into the field list (F2 may equal -1)
	S1, S2          int // 0 empty container / nil pointer stays nil, 1 one node, 2 two nodes
	Nested          int // field index populated (one node) under the first child, -1 none
	SharedNonSchema bool
}

func (w *Worker) RunCloneCase(f1 int, fields []schemaField, property string, thorough bool) *SkelResult {
	t0 := time.Now()
	name := "clone/" + fields[f1].name
	res := &SkelResult{Skeleton: name}
	defer func() { res.Elapsed = time.Since(t0) }()
	m := w.NewMachine()
	m.TrackShared = true
	res.Stats = m.Stats
	schemaT := m.P.NamedType("Schema")
	titleIdx := sx.FieldIndex(schemaT, "Title")
	reqIdx := sx.FieldIndex(schemaT, "Required")
	enumIdx := sx.FieldIndex(schemaT, "Enum")
	var fn sx.Value
	func() {
		defer func() {
			if r := recover(); r != nil {
				res.SkelError = fmt.Sprint(r)
			}
		}()
		fn = m.P.Func("(*Schema).CloneSchemas")
	}()
	if res.SkelError != "" {
		return res
	}
	counter := 0
	newSchema := func(title string) *sx.Value {
		cell := new(sx.Value)
		s := sx.ZeroOf(schemaT).(sx.Struct)
		s[titleIdx] = title
		*cell = s
		counter++
		m.MarkShared(cell) // the original tree is the caller's: CloneSchemas must not write to it
		return cell
	}
	populate := func(m *sx.Machine, parent *sx.Value, f schemaField, shape int, label string) []*sx.Value {
		ps := (*parent).(sx.Struct)
		var kids []*sx.Value
		zero := label == ""
		title := func(t string) string {
			if zero {
				return "" // a zero-valued (empty) subschema
			}
			return t
		}
		switch f.kind {
		case "ptr":
			if shape >= 1 {
				k := newSchema(title(label))
				ps[f.idx] = k
				kids = append(kids, k)
			}
		case "slice":
			lst := make([]sx.Value, 0, shape+2) // spare capacity, as a slice built by append has
			for i := 0; i < shape; i++ {
				k := newSchema(title(fmt.Sprintf("%s[%d]", label, i)))
				lst = append(lst, k)
				kids = append(kids, k)
			}
			for i := range lst {
				m.MarkShared(&lst[i])
			}
			ps[f.idx] = lst
		case "map":
			om := sx.NewOMap(types.Typ[types.String])
			for i := 0; i < shape; i++ {
				k := newSchema(title(fmt.Sprintf("%s{k%d}", label, i)))
				om.Set(m, fmt.Sprintf("k%d", i), k)
				kids = append(kids, k)
			}
			om.Shared = true
			ps[f.idx] = om
		}
		return kids
	}
	describe := func(sh cloneShape) string {
		d := fmt.Sprintf("%s shape %d", fields[sh.F1].name, sh.S1)
		if sh.F2 >= 0 {
			d += fmt.Sprintf(", %s shape %d", fields[sh.F2].name, sh.S2)
		}
		if sh.Nested >= 0 {
			d += ", nested " + fields[sh.Nested].name
		}
		return d
	}
	m.Explore(func(m *sx.Machine) sx.Value {
		sh := cloneShape{F1: f1, F2: -1, Nested: -1}
		sh.S1 = m.ChooseN(3, "clone-shape1")
		f2 := m.ChooseN(len(fields)+1, "clone-field2") - 1
		if f2 >= 0 && f2 != f1 {
			sh.F2 = f2
			if thorough {
				sh.S2 = m.ChooseN(3, "clone-shape2")
			} else {
				sh.S2 = 1
			}
		}
		root := newSchema("root")
		rs := (*root).(sx.Struct)
		shared := []sx.Value{"a", "b"}
		rs[reqIdx] = shared
		rs[enumIdx] = []sx.Value{sx.Iface{T: types.Typ[types.Float64], V: 1.0}}
		kids := populate(m, root, fields[sh.F1], sh.S1, fields[sh.F1].name)
		if sh.F2 >= 0 {
			populate(m, root, fields[sh.F2], sh.S2, "") // the second field holds empty (zero-valued) subschemas
		}
		if len(kids) > 0 && (thorough || sh.F2 < 0) {
			n := m.ChooseN(len(fields)+1, "clone-nested") - 1
			if n >= 0 {
				sh.Nested = n
				populate(m, kids[0], fields[n], 1, "nested."+fields[n].name)
			}
		}
		m.Scratch["shape"] = sh
		m.Scratch["root"] = root
		return m.Call(fn, root)
	}, func(m *sx.Machine, r *sx.PathResult) {
		if !r.Decisive() {
			res.Inconclusive = append(res.Inconclusive, r.Outcome+": "+r.Msg)
			return
		}
		sh, _ := m.Scratch["shape"].(cloneShape)
		if len(r.SharedWrites) > 0 {
			res.VerdictSat++
			if ok, detail := nativeCloneMutatesOriginal(sh, fields); ok {
				if len(res.Findings) < 3 {
					res.Findings = append(res.Findings, Finding{Property: property, Kind: "clone-writes-original", Skeleton: name, Family: "F-clone", Doc: describe(sh), Expected: "CloneSchemas leaves the original tree unchanged", Observed: detail + "; engine: " + r.SharedWrites[0]})
				}
			} else {
				res.EngineErrors = append(res.EngineErrors, "engine reports a write into the original during CloneSchemas ("+r.SharedWrites[0]+") that the native deep comparison does not see: "+describe(sh))
			}
			return
		}
		mkF := func(kind, obs string) {
			res.VerdictSat++
			f := Finding{Property: property, Kind: kind, Skeleton: name, Family: "F-clone", Doc: describe(sh), Expected: "an equal tree that shares no Schema object with the original", Observed: obs}
			if ok, detail := nativeCloneCheck(sh, fields); ok {
				if len(res.Findings) < 3 {
					f.Detail = detail
					res.Findings = append(res.Findings, f)
				}
			} else if strings.Contains(obs, "shape differs") {
				// nil versus empty container in a field that is omitted when empty: the clone still
				// marshals identically (the native check compares the bytes), so the property holds
				res.VerdictSat--
				res.VerdictUnsat++
			} else {
				res.EngineErrors = append(res.EngineErrors, "clone finding does not reproduce natively: "+obs+" / "+describe(sh))
			}
		}
		if r.Outcome == sx.OutPanic {
			mkF("panic", r.Msg)
			return
		}
		root := m.Scratch["root"].(*sx.Value)
		clone, _ := r.Ret.(*sx.Value)
		if clone == nil {
			mkF("clone-nil", "CloneSchemas returned nil")
			return
		}
		orig := map[*sx.Value]bool{}
		collectSchemas(m, root, orig, fields)
		cl := map[*sx.Value]bool{}
		collectSchemas(m, clone, cl, fields)
		for p := range cl {
			if orig[p] {
				mkF("shared-schema", "a Schema object is reachable from both trees")
				return
			}
		}
		if len(cl) != len(orig) {
			mkF("shape-differs", fmt.Sprintf("original has %d schemas, clone %d", len(orig), len(cl)))
			return
		}
		if d := diffSchemas(m, root, clone, fields, schemaT); d != "" {
			mkF("clone-differs", d)
			return
		}
		res.VerdictUnsat++
		res.SawNil = true
		if ok, detail := nativeCloneCheck(sh, fields); ok {
			res.EngineErrors = append(res.EngineErrors, "path validation: engine saw a correct clone, native check fails: "+detail+" / "+describe(sh))
		} else {
			res.Validated++
			if res.Sample == nil {
				res.Sample = map[string]any{"tree": describe(sh), "schemas_in_tree": len(orig), "clone_shares_schema_objects": false}
			}
		}
	})
	res.Paths = m.Stats.Paths
	res.Forks = m.Stats.Forks
	res.Steps = m.Stats.Steps
	if m.Stats.PathsCapped {
		res.Inconclusive = append(res.Inconclusive, "path budget exceeded")
	}
	res.Solver = w.S.Stats
	return res
}

func collectSchemas(m *sx.Machine, p *sx.Value, seen map[*sx.Value]bool, fields []schemaField) {
	if p == nil || seen[p] {
		return
	}
	seen[p] = true
	s := (*p).(sx.Struct)
	for _, f := range fields {
		switch v := s[f.idx].(type) {
		case *sx.Value:
			collectSchemas(m, v, seen, fields)
		case []sx.Value:
			for _, e := range v {
				collectSchemas(m, e.(*sx.Value), seen, fields)
			}
		case *sx.OMap:
			for _, k := range v.Keys() {
				e, _ := v.Get(m, k)
				collectSchemas(m, e.(*sx.Value), seen, fields)
			}
		}
	}
}

// diffSchemas compares two schema trees structurally; non-schema slices must be shared (same backing array).
func diffSchemas(m *sx.Machine, a, b *sx.Value, fields []schemaField, schemaT types.Type) string {
	if (a == nil) != (b == nil) {
		return "nil-ness differs"
	}
	if a == nil {
		return ""
	}
	sa, sb := (*a).(sx.Struct), (*b).(sx.Struct)
	isSchemaField := map[int]schemaField{}
	for _, f := range fields {
		isSchemaField[f.idx] = f
	}
	st := schemaT.Underlying().(*types.Struct)
	for i := range sa {
		if f, ok := isSchemaField[i]; ok {
			switch va := sa[i].(type) {
			case *sx.Value:
				if d := diffSchemas(m, va, sb[i].(*sx.Value), fields, schemaT); d != "" {
					return f.name + ": " + d
				}
			case []sx.Value:
				vb := sb[i].([]sx.Value)
				if (va == nil) != (vb == nil) || len(va) != len(vb) {
					return f.name + ": slice shape differs"
				}
				if cap(va) > 0 && cap(vb) > 0 && &va[:1][0] == &vb[:1][0] {
					return f.name + ": the slice's backing array is shared (an append or assignment through one tree shows in the other)"
				}
				for k := range va {
					if d := diffSchemas(m, va[k].(*sx.Value), vb[k].(*sx.Value), fields, schemaT); d != "" {
						return fmt.Sprintf("%s[%d]: %s", f.name, k, d)
					}
				}
			case *sx.OMap:
				vb := sb[i].(*sx.OMap)
				if (va == nil) != (vb == nil) || va.Len() != vb.Len() {
					return f.name + ": map shape differs"
				}
				if va != nil && va == vb {
					return f.name + ": the map itself is shared (an insertion through one tree shows in the other)"
				}
				for _, k := range va.Keys() {
					ea, _ := va.Get(m, k)
					eb, ok := vb.Get(m, k)
					if !ok {
						return f.name + ": key missing in clone"
					}
					if d := diffSchemas(m, ea.(*sx.Value), eb.(*sx.Value), fields, schemaT); d != "" {
						return fmt.Sprintf("%s{%v}: %s", f.name, k, d)
					}
				}
			}
			continue
		}
		switch va := sa[i].(type) {
		case string, bool, int64, uint64, float64:
			if va != sb[i] {
				return st.Field(i).Name() + ": scalar differs"
			}
		case []sx.Value:
			vb, _ := sb[i].([]sx.Value)
			if len(va) != len(vb) {
				return st.Field(i).Name() + ": length differs"
			}
			if len(va) > 0 && &va[0] != &vb[0] {
				return st.Field(i).Name() + ": a non-schema slice was copied (documented as shared)"
			}
		}
	}
	return ""
}

// nativeCloneCheck builds the same tree natively and checks CloneSchemas on it;
// ok is true when the native clone is wrong (shares a Schema or differs).
// nativeCloneTree builds, natively, the tree the engine path built.
func nativeCloneTree(sh cloneShape, fields []schemaField) *jsonschema.Schema {
	mk := func(title string) *jsonschema.Schema { return &jsonschema.Schema{Title: title} }
	populate := func(parent *jsonschema.Schema, f schemaField, shape int, label string) []*jsonschema.Schema {
		fv := reflect.ValueOf(parent).Elem().FieldByName(f.name)
		var kids []*jsonschema.Schema
		zero := label == ""
		mk := func(t string) *jsonschema.Schema {
			if zero {
				return &jsonschema.Schema{}
			}
			return &jsonschema.Schema{Title: t}
		}
		switch f.kind {
		case "ptr":
			if shape >= 1 {
				k := mk(label)
				fv.Set(reflect.ValueOf(k))
				kids = append(kids, k)
			}
		case "slice":
			lst := make([]*jsonschema.Schema, 0, shape+2)
			for i := 0; i < shape; i++ {
				k := mk(fmt.Sprintf("%s[%d]", label, i))
				lst = append(lst, k)
				kids = append(kids, k)
			}
			fv.Set(reflect.ValueOf(lst))
		case "map":
			mp := map[string]*jsonschema.Schema{}
			for i := 0; i < shape; i++ {
				k := mk(fmt.Sprintf("%s{k%d}", label, i))
				mp[fmt.Sprintf("k%d", i)] = k
				kids = append(kids, k)
			}
			fv.Set(reflect.ValueOf(mp))
		}
		return kids
	}
	root := mk("root")
	root.Required = []string{"a", "b"}
	root.Enum = []any{1.0}
	kids := populate(root, fields[sh.F1], sh.S1, fields[sh.F1].name)
	if sh.F2 >= 0 {
		populate(root, fields[sh.F2], sh.S2, "")
	}
	if sh.Nested >= 0 && len(kids) > 0 {
		populate(kids[0], fields[sh.Nested], 1, "nested."+fields[sh.Nested].name)
	}
	return root
}

// nativeCloneMutatesOriginal reports whether CloneSchemas changes the tree it is called on.
func nativeCloneMutatesOriginal(sh cloneShape, fields []schemaField) (bad bool, detail string) {
	defer func() {
		if r := recover(); r != nil {
			bad, detail = true, fmt.Sprintf("panic: %v", r)
		}
	}()
	root := nativeCloneTree(sh, fields)
	before := DeepDump(root)
	root.CloneSchemas()
	if DeepDump(root) != before {
		return true, "native: the original tree differs after CloneSchemas (deep comparison)"
	}
	return false, ""
}

func nativeCloneCheck(sh cloneShape, fields []schemaField) (bad bool, detail string) {
	defer func() {
		if r := recover(); r != nil {
			bad, detail = true, fmt.Sprintf("panic: %v", r)
		}
	}()
	root := nativeCloneTree(sh, fields)
	clone := root.CloneSchemas()
	collect := func(s *jsonschema.Schema) map[*jsonschema.Schema]bool {
		seen := map[*jsonschema.Schema]bool{}
		var walk func(v reflect.Value)
		walk = func(v reflect.Value) {
			switch v.Kind() {
			case reflect.Pointer:
				if v.IsNil() {
					return
				}
				if sp, ok := v.Interface().(*jsonschema.Schema); ok {
					if seen[sp] {
						return
					}
					seen[sp] = true
				}
				walk(v.Elem())
			case reflect.Struct:
				for i := 0; i < v.NumField(); i++ {
					if v.Type().Field(i).IsExported() {
						walk(v.Field(i))
					}
				}
			case reflect.Slice:
				for i := 0; i < v.Len(); i++ {
					walk(v.Index(i))
				}
			case reflect.Map:
				it := v.MapRange()
				for it.Next() {
					walk(it.Value())
				}
			}
		}
		walk(reflect.ValueOf(s))
		return seen
	}
	o, c := collect(root), collect(clone)
	for p := range c {
		if o[p] {
			return true, "native: clone shares the Schema titled " + p.Title
		}
	}
	if len(o) != len(c) {
		return true, fmt.Sprintf("native: %d schemas in the original, %d in the clone", len(o), len(c))
	}
	var to, tcl []string
	for p := range o {
		to = append(to, p.Title)
	}
	for p := range c {
		tcl = append(tcl, p.Title)
	}
	sort.Strings(to)
	sort.Strings(tcl)
	if fmt.Sprint(to) != fmt.Sprint(tcl) {
		return true, "native: titles differ"
	}
	// schema-holding containers are not shared either (also when empty)
	var shared string
	var cmpC func(a, b *jsonschema.Schema, depth int)
	cmpC = func(a, b *jsonschema.Schema, depth int) {
		if a == nil || b == nil || depth > 6 || shared != "" {
			return
		}
		va, vb := reflect.ValueOf(a).Elem(), reflect.ValueOf(b).Elem()
		for _, f := range fields {
			fa, fb := va.FieldByName(f.name), vb.FieldByName(f.name)
			switch f.kind {
			case "ptr":
				if !fa.IsNil() && !fb.IsNil() {
					cmpC(fa.Interface().(*jsonschema.Schema), fb.Interface().(*jsonschema.Schema), depth+1)
				}
			case "slice":
				if !fa.IsNil() && !fb.IsNil() && fa.Cap() > 0 && fb.Cap() > 0 && fa.Pointer() == fb.Pointer() {
					shared = f.name + ": slice backing array shared"
				}
				for i := 0; i < fa.Len() && i < fb.Len(); i++ {
					cmpC(fa.Index(i).Interface().(*jsonschema.Schema), fb.Index(i).Interface().(*jsonschema.Schema), depth+1)
				}
			case "map":
				if !fa.IsNil() && !fb.IsNil() && fa.Pointer() == fb.Pointer() {
					shared = f.name + ": map shared"
				}
				if !fa.IsNil() && !fb.IsNil() {
					for _, k := range fa.MapKeys() {
						if e := fb.MapIndex(k); e.IsValid() {
							cmpC(fa.MapIndex(k).Interface().(*jsonschema.Schema), e.Interface().(*jsonschema.Schema), depth+1)
						}
					}
				}
			}
		}
	}
	cmpC(root, clone, 0)
	if shared != "" {
		return true, "native: " + shared
	}
	if b1, e1 := json.Marshal(root); e1 == nil {
		if b2, e2 := json.Marshal(clone); e2 != nil || string(b1) != string(b2) {
			return true, fmt.Sprintf("native: original marshals to %s, clone to %s (err %v)", b1, b2, e2)
		}
	}
	if len(clone.Required) > 0 && &clone.Required[0] != &root.Required[0] {
		return true, "native: Required was copied"
	}
	return false, ""
}

func init() {
	Checks["C20"] = func(cc *CheckCtx, r *Report) {
		r.Level = "exploration"
		fields := schemaBearingFields(cc.P)
		var skels []*Skeleton
		for i, f := range fields {
			_ = i
			skels = append(skels, &Skeleton{Name: "clone/" + f.name, Family: "F-clone"})
		}
		idx := map[string]int{}
		for i, f := range fields {
			idx["clone/"+f.name] = i
		}
		skels, results := RunSkeletons(cc.P, skels, cc.Workers, cc.Timeout, func(w *Worker, sk *Skeleton) *SkelResult {
			return w.RunCloneCase(idx[sk.Name], fields, "C20", cc.Thorough())
		})
		total := 0
		for i, s := range results {
			r.AddSkel(skels[i], s)
			total += s.Paths
		}
		r.Extra["evaluations"] = total
		r.Extra["distinct_nontrivial"] = r.VerdictUnsat + r.VerdictSat
		r.Extra["rule"] = fmt.Sprintf("tree shapes are enumerated inside the engine by nondeterministic choice: first field in {%d subschema-bearing fields found from the Go types} x {empty container, one node, two nodes} x second field in {none, any field} x its shape x a nested child under the first node in {none, any field}; every shape is a distinct tree; a case is non-trivial when the tree holds at least one subschema", len(fields))
		r.Extra["schema_bearing_fields"] = len(fields)
		r.Bounds = append(r.Bounds, "CloneSchemas executed from its real SSA (reflect model over the Schema struct; schemaFieldInfos computed by the package initialiser in the engine) on every tree shape of the rule; checked on the engine heap: no Schema object reachable from both trees, same shape and scalar fields, non-schema slices shared; every path is repeated natively")
		r.Outside = append(r.Outside, "there is no symbolic data in this property (only pointer structure), so the solver decides nothing here: this is exhaustive exploration of the listed shapes, claimed at exploration level; marshaling equality is replaced by structural equality; trees deeper than 2 or with more than two populated fields per node")
	}
}
