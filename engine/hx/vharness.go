package hx

import (
	"encoding/json"
	"fmt"
	"net/url"
	"os"
	"sort"
	"strings"
	"sync"
	"sync/atomic"
	"time"

	"github.com/google/jsonschema-go/jsonschema"

	"verif/engine/refsem"
	"verif/engine/smt"
	"verif/engine/sx"
)

// Skeleton is one member of the enumerated scaffold: a concrete schema document
// (plus loader universe) whose instances are explored symbolically.
type Skeleton struct {
	Name     string
	Family   string
	Doc      string
	Draft    int // default draft when the document has no $schema
	BaseURI  string
	Universe map[string]string
	Tm       *sx.Tmpl
	// TwoCalls validates two independent instances on the same Resolved in one path (C06 histories).
	TwoCalls bool
	// AllOrders forks over map iteration orders.
	AllOrders bool
	// ResolveMayRefuse: the package documents that it may refuse this arrangement
	// (any error is acceptable, success must still hit the designated targets).
	ResolveMayRefuse bool
}

// Finding is a reproduced disagreement between the real package and the oracle.
type Finding struct {
	Property string            `json:"property"`
	Kind     string            `json:"kind"` // verdict-mismatch | panic | resolve-mismatch | shared-write | ...
	Skeleton string            `json:"skeleton"`
	Family   string            `json:"family"`
	Doc      string            `json:"schema_document"`
	BaseURI  string            `json:"base_uri,omitempty"`
	Universe map[string]string `json:"universe,omitempty"`
	Draft    int               `json:"default_draft"`
	Instance string            `json:"instance_json"`
	GoValue  string            `json:"instance_go"`
	Expected string            `json:"expected"`
	Observed string            `json:"observed"`
	Detail   string            `json:"detail,omitempty"`
	Class    string            `json:"class,omitempty"` // known-finding class, if any
}

// SkelResult is what one skeleton's exploration established.
type SkelResult struct {
	Skeleton              string
	Paths                 int
	Forks                 int
	Steps                 int64
	VerdictUnsat          int
	VerdictSat            int
	VerdictUnknown        int
	Validated             int // paths whose model instance was replayed natively with the same verdict
	ValidateSkip          int
	Inconclusive          []string
	EngineErrors          []string
	Findings              []Finding
	Sample                map[string]any
	SawNil, SawErr        bool
	SpecSat, SpecUnsatNeg bool
	Stats                 *sx.Stats
	Solver                smt.Stats
	Elapsed               time.Duration
	SkelError             string
	ReducedBound          string // non-empty: the case was decided on a smaller bound than planned (stated in the evidence)
	Skipped               bool   // not explored: the run stopped early (violations confirmed) or passed its deadline
	SecondOpinion         int
	ResolveRefusedParams  int
	sharedTriaged         bool
	SharedWrites          []string
	ResolveErrorAgreed    bool // native Resolve and the oracle both say some reference designates nothing
	ResolveRefused        bool // the package refused a schema its documentation says it may refuse
}

func expectResolve(oerr error) string {
	if oerr != nil {
		return "Resolve returns an error (" + oerr.Error() + ")"
	}
	return "Resolve succeeds"
}

type VOptions struct {
	Property                string
	ValidatePaths           bool // replay a model of every path natively (translator validation)
	Havoc                   bool // C18a: non-asserting Schema fields are replaced by unconstrained symbolic values
	SharedWritesAreFindings bool // C13/C14: a store into shared pre-state or the instance is a violation
	MaxFindings             int
}

func loaderFor(universe map[string]string, counts map[string]int, mu *sync.Mutex) jsonschema.Loader {
	return func(uri *url.URL) (*jsonschema.Schema, error) {
		mu.Lock()
		counts[uri.String()]++
		n := counts[uri.String()]
		mu.Unlock()
		if n > 8 {
			// a resolver that keeps re-loading a document would recurse without bound: cut it
			// here (the repeated request is reported as a finding by the caller)
			return nil, fmt.Errorf("document %s requested %d times: refusing", uri, n)
		}
		text, ok := universe[uri.String()]
		if !ok {
			return nil, fmt.Errorf("no document at %s", uri)
		}
		s := new(jsonschema.Schema)
		if err := json.Unmarshal([]byte(text), s); err != nil {
			return nil, err
		}
		return s, nil
	}
}

func draftDefaultURI(d int) string {
	if d == refsem.Draft7 {
		return "https://json-schema.org/draft-07/schema#"
	}
	return ""
}

func universeBytes(u map[string]string) map[string][]byte {
	out := map[string][]byte{}
	for k, v := range u {
		out[k] = []byte(v)
	}
	return out
}

// NativeResolve resolves the skeleton with the real package.
func NativeResolve(sk *Skeleton) (*jsonschema.Resolved, map[string]int, error) {
	counts := map[string]int{}
	var mu sync.Mutex
	opts := &jsonschema.ResolveOptions{BaseURI: sk.BaseURI}
	if sk.Universe != nil {
		opts.Loader = loaderFor(sk.Universe, counts, &mu)
	}
	rs, _, err := ResolveDoc([]byte(sk.Doc), draftDefaultURI(sk.Draft), opts)
	return rs, counts, err
}

// canonicalJSON renders a concrete instance.
func canonicalJSON(v any) string {
	b, err := json.Marshal(v)
	if err != nil {
		return fmt.Sprintf("<unmarshalable: %v>", err)
	}
	return string(b)
}

// oracleConcrete evaluates the reference semantics on a concrete instance.
func oracleConcrete(p *sx.Program, sk *Skeleton, inst any) (bool, error) {
	m := sx.NewMachine(p, smt.NewCtx(), nil)
	r, err := refsem.NewResolver([]byte(sk.Doc), sk.BaseURI, refsem.MapLoader(universeBytes(sk.Universe)), sk.Draft)
	if err != nil {
		return false, err
	}
	o := refsem.NewOracle(m, r)
	ok := o.Valid(refsem.ConstInst{M: m, V: normalizeForOracle(inst)})
	if o.Err() != nil {
		return false, o.Err()
	}
	if !ok.IsConst() {
		return false, fmt.Errorf("oracle verdict not constant on concrete instance")
	}
	return ok.IsTrue(), nil
}

// normalizeForOracle converts any Go representation of a JSON value to the oracle's
// constant form with exact numbers.
func normalizeForOracle(v any) any { return Canon(v) }

// RunValidateSkeleton explores Validate on a symbolic instance for one skeleton and
// decides, path by path, agreement with the reference semantics.
func (w *Worker) RunValidateSkeleton(sk *Skeleton, opt VOptions) *SkelResult {
	t0 := time.Now()
	res := &SkelResult{Skeleton: sk.Name}
	defer func() { res.Elapsed = time.Since(t0) }()
	if opt.MaxFindings == 0 {
		opt.MaxFindings = 3
	}
	rs, counts, err := NativeResolve(sk)
	rr, rerr := refsem.NewResolver([]byte(sk.Doc), sk.BaseURI, refsem.MapLoader(universeBytes(sk.Universe)), sk.Draft)
	var oerr error = rerr
	if rerr == nil {
		oerr = rr.CheckAllRefs()
	}
	for uri, n := range counts {
		if n > 1 {
			res.Findings = append(res.Findings, Finding{Property: opt.Property, Kind: "loader-called-twice", Skeleton: sk.Name, Family: sk.Family, Doc: sk.Doc, BaseURI: sk.BaseURI, Universe: sk.Universe, Draft: sk.Draft,
				Expected: "each remote document requested at most once", Observed: fmt.Sprintf("%s requested %d times", uri, n)})
		}
	}
	if err != nil && strings.HasPrefix(err.Error(), "PANIC:") {
		res.Findings = append(res.Findings, Finding{Property: opt.Property, Kind: "resolve-panic", Skeleton: sk.Name, Family: sk.Family, Doc: sk.Doc, BaseURI: sk.BaseURI, Universe: sk.Universe, Draft: sk.Draft,
			Expected: expectResolve(oerr), Observed: err.Error()})
		return res
	}
	if (err != nil) != (oerr != nil) {
		if sk.ResolveMayRefuse && err != nil {
			res.ResolveRefused = true
			return res
		}
		obs := "Resolve succeeded"
		if err != nil {
			obs = "Resolve failed: " + err.Error()
		}
		res.Findings = append(res.Findings, Finding{Property: opt.Property, Kind: "resolve-mismatch", Skeleton: sk.Name, Family: sk.Family, Doc: sk.Doc, BaseURI: sk.BaseURI, Universe: sk.Universe, Draft: sk.Draft,
			Expected: expectResolve(oerr), Observed: obs})
		return res
	}
	if err != nil {
		res.ResolveErrorAgreed = true
		return res
	}
	solver0 := w.S.Stats
	m := w.NewMachine()
	m.AllOrders = sk.AllOrders
	m.TrackShared = true
	res.Stats = m.Stats
	orc := refsem.NewOracle(m, rr)
	root := m.NewNode("I", sk.Tm)
	spec := orc.Valid(refsem.NodeInst{M: m, N: root})
	var root2 *sx.Node
	var spec2 *smt.Term
	if sk.TwoCalls {
		root2 = m.NewNode("J", sk.Tm)
		spec2 = refsem.NewOracle(m, rr).Valid(refsem.NodeInst{M: m, N: root2})
	}
	if orc.Err() != nil {
		res.SkelError = "oracle: " + orc.Err().Error()
		return res
	}
	validate := m.P.Func("(*Resolved).Validate")
	var secondVerdict Verdict
	body := func(m *sx.Machine) sx.Value {
		ers := ImportResolved(m, rs, true)
		if opt.Havoc {
			havocMeta(m, ers)
		}
		r1 := m.Call(validate, ers, sx.Iface{T: m.P.NodeT, V: root})
		if sk.TwoCalls {
			// first verdict is kept in Scratch; the second call's verdict is the return value
			m.Scratch["first"] = r1
			return m.Call(validate, ers, sx.Iface{T: m.P.NodeT, V: root2})
		}
		return r1
	}
	_ = secondVerdict
	ctx := m.Ctx
	npath := 0
	m.Explore(body, func(m *sx.Machine, r *sx.PathResult) {
		v := VerdictOf(r)
		if len(r.SharedWrites) > 0 || m.AnyOverlay() {
			res.SharedWrites = append(res.SharedWrites, r.SharedWrites...)
			if m.AnyOverlay() {
				res.SharedWrites = append(res.SharedWrites, "write into the instance")
			}
			if opt.SharedWritesAreFindings && !res.sharedTriaged {
				res.sharedTriaged = true
				w.triageSharedWrite(m, sk, rs, root, r, res, opt)
			}
		}
		if v == VInconclusive {
			res.Inconclusive = append(res.Inconclusive, r.Outcome+": "+r.Msg)
			return
		}
		var bad *smt.Term
		switch v {
		case VNil:
			res.SawNil = true
			bad = ctx.And(m.NoBadJSONNumber(), ctx.Not(spec))
		case VErr:
			res.SawErr = true
			bad = ctx.And(m.NoBadJSONNumber(), spec) // (an unparseable json.Number has no JSON meaning: panics only)
		case VPanic:
			bad = ctx.True
		}
		if sk.TwoCalls && v != VPanic {
			// r.Ret is the second verdict; the first one is in Scratch
			first, _ := m.Scratch["first"].(sx.Iface)
			var bad1 *smt.Term
			if first.T == nil {
				bad1 = ctx.Not(spec)
			} else {
				bad1 = spec
			}
			var bad2 *smt.Term
			if v == VNil {
				bad2 = ctx.Not(spec2)
			} else {
				bad2 = spec2
			}
			bad = ctx.Or(bad1, bad2)
		}
		// translator validation on this path (every path at first, then a 1-in-4 sample)
		npath++
		if opt.ValidatePaths && (npath <= 60 || npath%4 == 0) {
			w.validatePath(m, sk, rs, root, root2, v, res, opt)
		}
		m.S.Push()
		m.S.Assert(bad)
		ans := m.S.Check()
		switch ans {
		case smt.Unsat:
			res.VerdictUnsat++
		case smt.Unknown:
			// second opinion from z3 5.1.0 on the same assertion stack (one-shot, 120 s)
			if secondLookUnsat(m) {
				res.VerdictUnsat++
				res.SecondOpinion++
				break
			}
			res.VerdictUnknown++
			res.Inconclusive = append(res.Inconclusive, "verdict query unknown ("+sk.Name+"): "+m.S.LastError)
		case smt.Sat:
			res.VerdictSat++
			if len(res.Findings) < opt.MaxFindings {
				w.triage(m, sk, rs, root, root2, v, res, opt)
			}
		}
		m.S.Pop()
	})
	res.Paths = m.Stats.Paths
	res.Forks = m.Stats.Forks
	res.Steps = m.Stats.Steps
	if m.Stats.PathsCapped {
		res.Inconclusive = append(res.Inconclusive, "path budget exceeded")
	}
	res.Solver = w.S.Stats
	res.Solver.Queries -= solver0.Queries
	res.Solver.Sat -= solver0.Sat
	res.Solver.Unsat -= solver0.Unsat
	res.Solver.Unknown -= solver0.Unknown
	res.Solver.Time -= solver0.Time
	return res
}

// modelInstances concretizes the root instance(s) from the solver's current model.
func (w *Worker) modelInstances(m *sx.Machine, root, root2 *sx.Node) (any, any, error) {
	md, err := GetModel(m)
	if err != nil {
		return nil, nil, err
	}
	sr := NewStringRealizer(m, md)
	inst, err := Concretize(m, md, root, sr)
	if err != nil {
		return nil, nil, err
	}
	var inst2 any
	if root2 != nil {
		inst2, err = Concretize(m, md, root2, sr)
		if err != nil {
			return nil, nil, err
		}
	}
	return inst, inst2, nil
}

func nativeVerdict(rs *jsonschema.Resolved, inst any) (Verdict, string) {
	err, p := NativeValidate(rs, inst)
	switch {
	case p != nil:
		return VPanic, fmt.Sprint(p)
	case err != nil:
		return VErr, err.Error()
	}
	return VNil, ""
}

// validatePath replays a model of the path condition natively: the real compiled code
// must produce the verdict the engine computed on this path.
func (w *Worker) validatePath(m *sx.Machine, sk *Skeleton, rs *jsonschema.Resolved, root, root2 *sx.Node, v Verdict, res *SkelResult, opt VOptions) {
	if m.S.Check() != smt.Sat {
		res.ValidateSkip++
		return
	}
	inst, inst2, err := w.modelInstances(m, root, root2)
	if err != nil {
		res.ValidateSkip++
		return
	}
	var nv Verdict
	if root2 != nil {
		first, _ := m.Scratch["first"].(sx.Iface)
		n1, _ := nativeVerdict(rs, inst)
		want1 := VErr
		if first.T == nil {
			want1 = VNil
		}
		if n1 != want1 {
			res.EngineErrors = append(res.EngineErrors, fmt.Sprintf("path validation (first call): engine=%s native=%s instance=%s", want1, n1, canonicalJSON(inst)))
			return
		}
		nv, _ = nativeVerdict(rs, inst2)
		inst = inst2
	} else {
		nv, _ = nativeVerdict(rs, inst)
	}
	if nv != v {
		if opt.Havoc {
			// the path depends on the (symbolic) non-asserting fields: the undecorated native run
			// need not follow it. If decorating the document changes the native verdict, that is
			// the violation this harness looks for.
			if differs, detail := decoratedVerdictDiffers(sk, inst); differs {
				if len(res.Findings) < 3 {
					res.Findings = append(res.Findings, Finding{Property: opt.Property, Kind: "non-asserting-keyword-changes-verdict", Skeleton: sk.Name, Family: sk.Family, Doc: sk.Doc, Draft: sk.Draft,
						Instance: canonicalJSON(inst), GoValue: DescribeGo(inst), Expected: "same verdict with and without non-asserting / unknown keywords", Observed: detail})
				}
				return
			}
		}
		res.EngineErrors = append(res.EngineErrors, fmt.Sprintf("path validation: engine=%s native=%s instance=%s", v, nv, DescribeGo(inst)))
		return
	}
	res.Validated++
	if res.Sample == nil {
		res.Sample = map[string]any{"skeleton": sk.Name, "schema": json.RawMessage(sk.Doc), "instance": DescribeGo(inst), "verdict": v.String()}
	}
}

// triage turns a sat verdict query into a reproduced finding or an engine error.
func (w *Worker) triage(m *sx.Machine, sk *Skeleton, rs *jsonschema.Resolved, root, root2 *sx.Node, v Verdict, res *SkelResult, opt VOptions) {
	inst, inst2, err := w.modelInstances(m, root, root2)
	if err != nil {
		// refine: unrealizable string model; report as inconclusive for this query
		res.Inconclusive = append(res.Inconclusive, "counterexample model not realizable: "+err.Error())
		return
	}
	check := func(inst any, call string) bool {
		nv, nmsg := nativeVerdict(rs, inst)
		want, oerr := oracleConcrete(m.P, sk, inst)
		if oerr != nil {
			res.EngineErrors = append(res.EngineErrors, "oracle on counterexample: "+oerr.Error())
			return true
		}
		expected := "error"
		if want {
			expected = "nil"
		}
		if nv == VPanic {
			res.Findings = append(res.Findings, Finding{Property: opt.Property, Kind: "panic", Skeleton: sk.Name, Family: sk.Family, Doc: sk.Doc, BaseURI: sk.BaseURI, Universe: sk.Universe, Draft: sk.Draft,
				Instance: canonicalJSON(inst), GoValue: DescribeGo(inst), Expected: expected, Observed: "panic: " + nmsg, Detail: call})
			return true
		}
		if (nv == VNil) != want {
			res.Findings = append(res.Findings, Finding{Property: opt.Property, Kind: "verdict-mismatch", Skeleton: sk.Name, Family: sk.Family, Doc: sk.Doc, BaseURI: sk.BaseURI, Universe: sk.Universe, Draft: sk.Draft,
				Instance: canonicalJSON(inst), GoValue: DescribeGo(inst), Expected: expected, Observed: nv.String() + " " + trunc(nmsg, 200), Detail: call})
			return true
		}
		return false
	}
	if check(inst, "first call") {
		return
	}
	if opt.Havoc {
		if differs, detail := decoratedVerdictDiffers(sk, inst); differs {
			res.Findings = append(res.Findings, Finding{Property: opt.Property, Kind: "non-asserting-keyword-changes-verdict", Skeleton: sk.Name, Family: sk.Family, Doc: sk.Doc, Draft: sk.Draft,
				Instance: canonicalJSON(inst), GoValue: DescribeGo(inst), Expected: "same verdict with and without non-asserting / unknown keywords", Observed: detail})
			return
		}
	}
	if root2 != nil && check(inst2, "second call on the same Resolved") {
		return
	}
	res.EngineErrors = append(res.EngineErrors, fmt.Sprintf("counterexample does not reproduce natively: engine verdict %s, instance %s", v, DescribeGo(inst)))
}

func trunc(s string, n int) string {
	if len(s) > n {
		return s[:n] + "..."
	}
	return s
}

// Early stop and deadline. Once StopAfter violations outside the known classes have been
// confirmed natively the remaining skeletons are not explored (the run fails anyway); past
// RunDeadline the remaining skeletons are skipped and the run is inconclusive (exit 2).
var (
	runStart     = time.Now()
	RunDeadline  time.Duration
	StopAfter    int32 = 6
	newFindings  int32
	knownClasses map[string]bool
	knownOnce    sync.Once
)

func shouldStop() bool {
	if atomic.LoadInt32(&newFindings) >= StopAfter {
		return true
	}
	return RunDeadline > 0 && time.Since(runStart) > RunDeadline
}

func noteFindings(s *SkelResult) {
	if s == nil || len(s.Findings) == 0 {
		return
	}
	knownOnce.Do(func() {
		knownClasses = map[string]bool{}
		ks, _ := LoadKnown()
		for _, k := range ks {
			if k.Status == "known" {
				knownClasses[k.Property+"/"+k.Class] = true
			}
		}
	})
	for _, f := range s.Findings {
		cl := f.Class
		if cl == "" {
			cl = ClassifyFinding(f)
		}
		if cl == "" || !knownClasses[f.Property+"/"+cl] {
			atomic.AddInt32(&newFindings, 1)
		}
	}
}

// RunSkeletons runs fn over all skeletons on a pool of workers.
func RunSkeletons(p *sx.Program, skels []*Skeleton, workers int, timeoutMs int, fn func(w *Worker, sk *Skeleton) *SkelResult) ([]*Skeleton, []*SkelResult) {
	if only := os.Getenv("SYMGO_ONLY"); only != "" {
		var keep []*Skeleton
		for _, sk := range skels {
			if strings.Contains(sk.Name, only) {
				keep = append(keep, sk)
			}
		}
		skels = keep
	}
	out := make([]*SkelResult, len(skels))
	var wg sync.WaitGroup
	ch := make(chan int)
	for i := 0; i < workers; i++ {
		wg.Add(1)
		go func() {
			defer wg.Done()
			w, err := NewWorker(p, timeoutMs)
			if err != nil {
				panic(err)
			}
			defer w.Close()
			for idx := range ch {
				t0 := time.Now()
				if shouldStop() {
					out[idx] = &SkelResult{Skeleton: skels[idx].Name, Skipped: true}
					continue
				}
				out[idx] = fn(w, skels[idx])
				noteFindings(out[idx])
				if os.Getenv("SYMGO_PROGRESS") != "" {
					fmt.Fprintf(os.Stderr, "progress: %s paths=%d %.1fs\n", skels[idx].Name, out[idx].Paths, time.Since(t0).Seconds())
				}
			}
		}()
	}
	for i := range skels {
		ch <- i
	}
	close(ch)
	wg.Wait()
	return skels, out
}

func sortedCounts(m map[string]int) []string {
	var ks []string
	for k := range m {
		ks = append(ks, k)
	}
	sort.Slice(ks, func(i, j int) bool { return m[ks[i]] > m[ks[j]] })
	var out []string
	for _, k := range ks {
		out = append(out, fmt.Sprintf("%s x%d", k, m[k]))
	}
	return out
}

var _ = strings.Contains

// triageSharedWrite confirms natively that Validate writes to state shared between
// calls: first by a deep before/after comparison of the Resolved and the instance,
// then under the race detector.
func (w *Worker) triageSharedWrite(m *sx.Machine, sk *Skeleton, rs *jsonschema.Resolved, root *sx.Node, r *sx.PathResult, res *SkelResult, opt VOptions) {
	what := strings.Join(r.SharedWrites, "; ")
	if m.AnyOverlay() {
		what += "; write into the instance"
	}
	var inst any
	if m.S.Check() == smt.Sat {
		inst, _, _ = w.modelInstances(m, root, nil)
	}
	f := Finding{Property: opt.Property, Kind: "shared-write", Skeleton: sk.Name, Family: sk.Family, Doc: sk.Doc, BaseURI: sk.BaseURI, Universe: sk.Universe, Draft: sk.Draft,
		Instance: canonicalJSON(inst), GoValue: DescribeGo(inst), Expected: "Validate writes only to memory allocated during the call", Detail: what}
	before := DeepDump(rs)
	instBefore := DeepDump(inst)
	NativeValidate(rs, inst)
	if after := DeepDump(rs); after != before {
		f.Observed = "the Resolved differs after Validate (deep comparison)"
		res.Findings = append(res.Findings, f)
		return
	}
	if DeepDump(inst) != instBefore {
		f.Observed = "the instance differs after Validate (deep comparison)"
		res.Findings = append(res.Findings, f)
		return
	}
	if sk.Universe == nil && sk.BaseURI == "" {
		raced, out := ConfirmRace(sk.Doc, draftDefaultURI(sk.Draft), canonicalJSON(inst), false)
		if raced {
			f.Observed = "data race reported by the race detector for concurrent Validate calls on one Resolved"
			res.Findings = append(res.Findings, f)
			return
		}
		res.EngineErrors = append(res.EngineErrors, "shared write seen by the engine ("+what+") not confirmed natively: "+trunc(out, 300))
		return
	}
	res.EngineErrors = append(res.EngineErrors, "shared write seen by the engine ("+what+") not confirmed by deep comparison (race test needs a loader-free skeleton)")
}

func budgetExceeded(r *SkelResult) bool {
	for _, m := range r.Inconclusive {
		if m == "path budget exceeded" {
			return true
		}
	}
	return false
}
