package hx

import (
	"fmt"
	"go/types"
	"reflect"
	"time"

	"github.com/google/jsonschema-go/jsonschema"

	"verif/engine/sx"
)

// For with a shared TypeSchemas entry (C13, C16): the real ForType runs in the engine on the
// overlay types verifHolder / verifOver with the caller's override schema imported as
// shared pre-state (slices carry spare capacity, as slices built by append or decoded by
// encoding/json do). A store, append or copy into the override is a violation (two
// concurrent For calls would race on it, and later calls would see a different override),
// as is a result that differs between the two calls or between the two pointer fields.

type ForSharedCase struct {
	Name string
	Mk   func() *jsonschema.Schema
}

func ForSharedCases() []*ForSharedCase {
	withCap := func(xs ...string) []string {
		s := make([]string, 0, len(xs)+2)
		return append(s, xs...)
	}
	return []*ForSharedCase{
		{"type-string", func() *jsonschema.Schema { return &jsonschema.Schema{Type: "string"} }},
		{"types-two", func() *jsonschema.Schema { return &jsonschema.Schema{Types: withCap("string", "number")} }},
		{"types-three-required", func() *jsonschema.Schema {
			return &jsonschema.Schema{Types: withCap("string", "number", "boolean"), Required: withCap("a"), Enum: append(make([]any, 0, 4), "x", 1.0)}
		}},
		{"types-with-null", func() *jsonschema.Schema { return &jsonschema.Schema{Types: withCap("null", "string")} }},
		{"empty", func() *jsonschema.Schema { return &jsonschema.Schema{} }},
		{"array-of-empty", func() *jsonschema.Schema { return &jsonschema.Schema{Type: "array", Items: &jsonschema.Schema{}} }},
		{"not-empty", func() *jsonschema.Schema { return &jsonschema.Schema{Not: &jsonschema.Schema{}} }},
		{"object-props", func() *jsonschema.Schema {
			return &jsonschema.Schema{Type: "object", Properties: map[string]*jsonschema.Schema{"k": {Types: withCap("integer", "string")}}, PropertyOrder: withCap("k"), Required: withCap("k")}
		}},
	}
}

func (w *Worker) RunForShared(fc *ForSharedCase, property string) *SkelResult {
	t0 := time.Now()
	res := &SkelResult{Skeleton: "F-forshared/" + fc.Name}
	defer func() { res.Elapsed = time.Since(t0) }()
	m := w.NewMachine()
	m.TrackShared = true
	res.Stats = m.Stats
	fn := m.P.Func("VerifKernelForShared")
	schemaPtr := types.NewPointer(m.P.NamedType("Schema"))
	native := func() (ok bool, changed bool, desc string, panicked any) {
		defer func() {
			if r := recover(); r != nil {
				panicked = r
			}
		}()
		o := fc.Mk()
		before := DeepDump(o)
		desc = before
		ok = jsonschema.VerifKernelForShared(o)
		return ok, DeepDump(o) != before, before, nil
	}
	var writes []string
	sawFalse := false
	m.Explore(func(m *sx.Machine) sx.Value {
		im := sx.NewImporter(m)
		im.Shared = true
		return m.Call(fn, im.Import(reflect.ValueOf(fc.Mk()), schemaPtr))
	}, func(m *sx.Machine, r *sx.PathResult) {
		if r.Outcome == sx.OutPanic {
			sawFalse = true
			return
		}
		if !r.Decisive() {
			res.Inconclusive = append(res.Inconclusive, r.Outcome+": "+r.Msg)
			return
		}
		writes = append(writes, r.SharedWrites...)
		switch b := r.Ret.(type) {
		case bool:
			if b && len(r.SharedWrites) == 0 {
				res.VerdictUnsat++
				res.SawNil = true
			} else {
				res.VerdictSat++
				sawFalse = sawFalse || !b
			}
		default:
			res.Inconclusive = append(res.Inconclusive, fmt.Sprintf("kernel returned %T", r.Ret))
		}
	})
	res.Paths = m.Stats.Paths
	res.Forks = m.Stats.Forks
	res.Steps = m.Stats.Steps
	if m.Stats.PathsCapped {
		res.Inconclusive = append(res.Inconclusive, "path budget exceeded")
	}
	res.Solver = w.S.Stats
	ok, changed, desc, pan := native()
	if len(writes) == 0 && !sawFalse {
		if pan != nil || !ok || changed {
			res.EngineErrors = append(res.EngineErrors, fmt.Sprintf("engine: For leaves the override alone and is repeatable; native: ok=%v changed=%v panic=%v", ok, changed, pan))
		} else {
			res.Validated++
			res.Sample = map[string]any{"kernel": "VerifKernelForShared", "override": trunc(desc, 200), "holds": true}
		}
		return res
	}
	// replay
	obs := ""
	switch {
	case pan != nil:
		obs = fmt.Sprint("panic: ", pan)
	case changed:
		obs = "the caller's TypeSchemas entry is modified by For"
	case !ok:
		obs = "the two calls (or the two pointer fields) see different overrides"
	default:
		res.EngineErrors = append(res.EngineErrors, fmt.Sprintf("engine reports %v (result false: %v) but the native run leaves the override unchanged and repeatable", writes, sawFalse))
		return res
	}
	what := ""
	if len(writes) > 0 {
		what = writes[0]
	}
	res.Findings = append(res.Findings, Finding{Property: property, Kind: "for-writes-shared-override", Skeleton: res.Skeleton, Family: "F-forshared", Doc: "TypeSchemas override " + trunc(desc, 300),
		Expected: "For leaves the schemas in ForOptions.TypeSchemas untouched and gives the same result on every call", Observed: obs, Detail: what})
	return res
}

// RunForSharedFamily runs the For-with-shared-override cases and folds them into the report.
func (cc *CheckCtx) RunForSharedFamily(r *Report) {
	cases := ForSharedCases()
	skels := make([]*Skeleton, len(cases))
	byName := map[string]*ForSharedCase{}
	for i, c := range cases {
		skels[i] = &Skeleton{Name: "F-forshared/" + c.Name, Family: "F-forshared"}
		byName[skels[i].Name] = c
	}
	skels, results := RunSkeletons(cc.P, skels, cc.Workers, cc.Timeout, func(w *Worker, sk *Skeleton) *SkelResult {
		return w.RunForShared(byName[sk.Name], cc.ID)
	})
	for i, s := range results {
		r.AddSkel(skels[i], s)
	}
	r.Bounds = append(r.Bounds, fmt.Sprintf("For on shared options: the real ForType runs in the engine on the overlay types verifHolder{P,Q *verifOver; R []verifOver; S verifOver} with %d TypeSchemas overrides for verifOver imported as shared pre-state whose slices have spare capacity; any store, append or copy into the override, a failing call, or a difference between two calls / two pointer fields is a violation (concrete inputs: exploration of the real code's write footprint, confirmed natively by a deep before/after comparison that includes spare capacity)", len(cases)))
}

// RunCacheKernel (C13): the field-name cache is filled from cold in the engine; a write into
// the cached map after its publication through the sync.Map is a violation, confirmed by
// running concurrent cold-cache calls under the race detector.
func (w *Worker) RunCacheKernel(property string) *SkelResult {
	t0 := time.Now()
	res := &SkelResult{Skeleton: "F-cache/jsonNames"}
	defer func() { res.Elapsed = time.Since(t0) }()
	m := w.NewMachine()
	m.TrackShared = true
	res.Stats = m.Stats
	fn := m.P.Func("VerifKernelJSONNamesCache")
	var writes []string
	sawFalse := false
	m.Explore(func(m *sx.Machine) sx.Value { return m.Call(fn) }, func(m *sx.Machine, r *sx.PathResult) {
		if !r.Decisive() {
			res.Inconclusive = append(res.Inconclusive, r.Outcome+": "+r.Msg)
			return
		}
		writes = append(writes, r.SharedWrites...)
		if b, ok := r.Ret.(bool); r.Outcome == sx.OutReturn && ok && b && len(r.SharedWrites) == 0 {
			res.VerdictUnsat++
			res.SawNil = true
			return
		}
		res.VerdictSat++
		sawFalse = sawFalse || len(r.SharedWrites) == 0
	})
	res.Paths, res.Forks, res.Steps = m.Stats.Paths, m.Stats.Forks, m.Stats.Steps
	res.Solver = w.S.Stats
	nativeOK := func() (ok bool) {
		defer func() {
			if recover() != nil {
				ok = false
			}
		}()
		return jsonschema.VerifKernelJSONNamesCache()
	}()
	if len(writes) == 0 && !sawFalse {
		if !nativeOK {
			res.EngineErrors = append(res.EngineErrors, "engine: cache kernel holds; native: it does not")
		} else {
			res.Validated++
			res.Sample = map[string]any{"kernel": "VerifKernelJSONNamesCache", "holds": true}
		}
		return res
	}
	f := Finding{Property: property, Kind: "cache-written-after-publication", Skeleton: res.Skeleton, Family: "F-cache", Doc: "jsonNames(reflect.TypeFor[Schema]()) from a cold cache",
		Expected: "the cached field-name set is complete before it is published through the sync.Map and never written afterwards"}
	if !nativeOK {
		f.Observed = "the kernel fails natively (wrong or incomplete name set)"
		res.Findings = append(res.Findings, f)
		return res
	}
	raced, out := ConfirmRaceBody(150, "jsonNamesMap.Clear()", "m := jsonNames(reflect.TypeFor[Schema]()); _ = m[\"title\"]; _ = len(m)")
	if !raced {
		res.EngineErrors = append(res.EngineErrors, fmt.Sprintf("engine reports %v but 150 cold-cache rounds of 8 goroutines under the race detector show nothing: %s", writes, trunc(out, 300)))
		return res
	}
	f.Observed = "data race between concurrent cold-cache calls (race detector)"
	if len(writes) > 0 {
		f.Detail = writes[0]
	}
	res.Findings = append(res.Findings, f)
	return res
}
