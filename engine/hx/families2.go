package hx

import (
	"fmt"
	"math/rand"
	"sort"
	"strings"

	"verif/engine/refsem"
	"verif/engine/sx"
)

const d7http = "http://json-schema.org/draft-07/schema#"
const d7https = "https://json-schema.org/draft-07/schema#"

func draft7Frags() []Frag {
	g := "d7"
	return []Frag{
		{"itemsArray", J{"items": A{lInt, lX}}, g},
		{"itemsArrayAddl", J{"items": A{lInt}, "additionalItems": lBoolT}, g},
		{"itemsArrayAddlFalse", J{"items": A{lInt, lX}, "additionalItems": false}, g},
		{"itemsArrayEmptyAddlFalse", J{"items": A{}, "additionalItems": false}, g},
		{"itemsArrayEmptyAddl", J{"items": A{}, "additionalItems": lInt}, g},
		{"itemsSchemaAddlIgnored", J{"items": lInt, "additionalItems": false}, g},
		{"addlWithoutItems", J{"additionalItems": false}, g},
		{"itemsSchemaAddl", J{"items": lInt, "additionalItems": false}, g},
		{"addlItemsAlone", J{"additionalItems": false}, g},
		{"itemsSchema", J{"items": lMin3}, g},
		{"contains", J{"contains": lX}, g},
		{"depStrings", J{"dependencies": J{"a": A{"b"}}}, g},
		{"depSchema", J{"dependencies": J{"a": J{"properties": J{"b": lInt}}}}, g},
		{"depBoth", J{"dependencies": J{"a": A{"b"}, "b": J{"required": A{"zz"}}}}, g},
		{"depBool", J{"dependencies": J{"a": false}}, g},
		{"props", J{"properties": J{"a": lInt, "b": lX}}, g},
		{"addlFalse", J{"additionalProperties": false}, g},
		{"pattern", J{"patternProperties": J{"^a": lStr2}}, g},
		{"propNames", J{"propertyNames": J{"maxLength": 1}}, g},
		{"required", J{"required": A{"a"}}, g},
		{"minItems", J{"minItems": 1}, g},
		{"maxItems", J{"maxItems": 1}, g},
		{"unique", J{"uniqueItems": true}, g},
		{"type", J{"type": A{"integer", "null"}}, g},
		{"const", J{"const": 2}, g},
		{"enum", J{"enum": A{1, "a", nil}}, g},
		{"exclMin", J{"exclusiveMinimum": 1}, g},
		{"maximum", J{"maximum": 3}, g},
		{"maxLength", J{"maxLength": 1}, g},
		{"ifThenElse", J{"if": lInt, "then": lMin3, "else": lStr2}, g},
		{"allOf", J{"allOf": A{lInt, lMin3}}, g},
		{"anyOf", J{"anyOf": A{lInt, lStr2}}, g},
		{"oneOf", J{"oneOf": A{lInt, lMin3}}, g},
		{"not", J{"not": lInt}, g},
	}
}

// FamilyDraft7 builds draft-07 skeletons: single keywords and pairs of the draft-07
// vocabulary, $ref with siblings at several positions, fragment $id anchors,
// definitions, and remote documents with and without their own $schema.
func FamilyDraft7(ts TmplSpec, pairs bool) []*Skeleton {
	var out []*Skeleton
	add := func(name string, doc J, universe map[string]string) {
		sk := mkSkel("F-draft7", name, doc, refsem.Draft7, ts)
		if strings.Contains(name, "unique") {
			sk.Tm = TmplSpec{1, ts.MaxLen, ts.MaxKeys}.For(sk.Doc)
		}
		sk.Universe = universe
		if universe != nil {
			docs := []string{sk.Doc}
			for _, d := range universe {
				docs = append(docs, d)
			}
			sk.Tm = TmplFor(docs, ts.Depth, ts.MaxLen, ts.MaxKeys)
		}
		out = append(out, sk)
	}
	fs := draft7Frags()
	for i, f := range fs {
		schemaURI := d7http
		if i%2 == 1 {
			schemaURI = d7https
		}
		add("single."+f.Name, merge(J{"$schema": schemaURI}, f.J), nil)
	}
	if pairs {
		for i := range fs {
			for j := i + 1; j < len(fs); j++ {
				if conflict(fs[i].J, fs[j].J) {
					continue
				}
				// keep pairs within the array group, the object group, or involving logic
				if (i <= 6 || i >= 16) && (j >= 7 && j <= 15) && i < 25 {
					continue
				}
				add(fmt.Sprintf("pair.%s+%s", fs[i].Name, fs[j].Name), merge(fs[i].J, fs[j].J), nil)
			}
		}
	}
	// $ref with siblings: siblings must be ignored, at the root and in subschemas
	sib := J{"type": "string", "maxLength": 0, "required": A{"zz"}, "minimum": 100}
	add("refsib.root", merge(J{"$schema": d7http, "$ref": "#/definitions/d", "definitions": J{"d": lInt}}, sib), nil)
	add("refsib.property", J{"$schema": d7https, "properties": J{"a": merge(J{"$ref": "#/definitions/d"}, sib)}, "definitions": J{"d": lInt}}, nil)
	add("refsib.items", J{"items": A{merge(J{"$ref": "#/definitions/d"}, sib)}, "definitions": J{"d": lMin3}}, nil)
	add("refsib.allOf", J{"allOf": A{merge(J{"$ref": "#/definitions/d"}, J{"not": true})}, "definitions": J{"d": lInt}}, nil)
	add("refsib.anyOf-nested", J{"anyOf": A{merge(J{"$ref": "#/definitions/d"}, J{"const": "nope"}), lStr2}, "definitions": J{"d": lInt}}, nil)
	add("refsib.dependencies", J{"dependencies": J{"a": merge(J{"$ref": "#/definitions/d"}, J{"required": A{"zz"}})}, "definitions": J{"d": J{"required": A{"b"}}}}, nil)
	add("refsib.idIgnored", J{"$id": "http://h/root.json", "properties": J{"a": J{"$id": "http://other/x.json", "$ref": "#/definitions/d"}}, "definitions": J{"d": lInt}}, nil)
	// fragment $id as plain-name anchor
	add("idanchor.basic", J{"$schema": d7http, "$ref": "#foo", "definitions": J{"d": merge(J{"$id": "#foo"}, lInt)}}, nil)
	add("idanchor.inResource", J{"$id": "http://h/root.json", "properties": J{"a": J{"$ref": "sub.json#foo"}}, "definitions": J{"s": J{"$id": "sub.json", "definitions": J{"d": merge(J{"$id": "#foo"}, lMin3)}}}}, nil)
	add("definitions.pointer", J{"properties": J{"a": J{"$ref": "#/definitions/x/definitions/y"}}, "definitions": J{"x": J{"definitions": J{"y": lX}}}}, nil)
	add("recursive.items", J{"items": J{"$ref": "#"}, "type": A{"array", "integer"}}, nil)
	// remote documents
	remoteNo := `{"type":"integer","items":[{"type":"string"}],"additionalItems":false}`
	remoteWith := `{"$schema":"` + d7http + `","items":[{"type":"integer"}],"additionalItems":{"type":"boolean"},"dependencies":{"a":["b"]}}`
	remoteRefSib := `{"definitions":{"d":{"type":"integer"}},"$ref":"#/definitions/d","maxLength":0,"type":"string"}`
	u := map[string]string{"http://h/remote-no.json": remoteNo, "http://h/remote-with.json": remoteWith, "http://h/remote-refsib.json": remoteRefSib}
	add("remote.root-noschema", J{"$schema": d7http, "$id": "http://h/root.json", "$ref": "remote-no.json"}, u)
	add("remote.sub-noschema", J{"$schema": d7https, "$id": "http://h/root.json", "properties": J{"a": J{"$ref": "remote-no.json"}}}, u)
	add("remote.sub-withschema", J{"$schema": d7http, "$id": "http://h/root.json", "properties": J{"a": J{"$ref": "remote-with.json"}}, "additionalProperties": J{"$ref": "remote-no.json"}}, u)
	add("remote.items-refsib", J{"$schema": d7http, "$id": "http://h/root.json", "items": J{"$ref": "remote-refsib.json"}}, u)
	// chains of $schema-less documents and fragment-$id anchors / $id beside $ref inside them:
	// every document loaded through $ref without its own $schema is read under the root's draft
	anchorDoc := `{"definitions":{"d":{"$id":"#foo","type":"integer"}},"$ref":"#foo"}`
	idRefDoc := `{"definitions":{"d":{"type":"integer"}},"properties":{"p":{"$id":"http://elsewhere/x.json","$ref":"#/definitions/d"}}}`
	hopDoc := func(target string) string { return `{"$ref":"` + target + `"}` }
	uc := map[string]string{"http://h/anchor.json": anchorDoc, "http://h/idref.json": idRefDoc, "http://h/hop-anchor.json": hopDoc("anchor.json"), "http://h/hop-idref.json": hopDoc("idref.json"), "http://h/hop2.json": hopDoc("hop-anchor.json")}
	add("remote.root-anchor", J{"$schema": d7http, "$id": "http://h/root.json", "$ref": "anchor.json"}, uc)
	add("remote.sub-anchor", J{"$schema": d7https, "$id": "http://h/root.json", "properties": J{"a": J{"$ref": "anchor.json"}}}, uc)
	add("remote.sub-idref", J{"$schema": d7http, "$id": "http://h/root.json", "items": J{"$ref": "idref.json"}}, uc)
	add("remote.chain-anchor", J{"$schema": d7http, "$id": "http://h/root.json", "$ref": "hop-anchor.json"}, uc)
	add("remote.chain-idref", J{"$schema": d7https, "$id": "http://h/root.json", "$ref": "hop-idref.json"}, uc)
	add("remote.chain3-anchor", J{"$schema": d7http, "$id": "http://h/root.json", "properties": J{"a": J{"$ref": "hop2.json"}}}, uc)
	// the reference sits inside an embedded resource (a subschema with its own $id): the loaded
	// document still inherits the draft the *document* declares at its root
	add("remote.from-embedded-resource", J{"$schema": d7http, "$id": "http://h/root.json", "properties": J{"a": J{"$id": "http://h/sub/emb.json", "properties": J{"p": J{"$ref": "../anchor.json"}}}}}, uc)
	add("remote.from-embedded-resource-idref", J{"$schema": d7https, "$id": "http://h/root.json", "definitions": J{"e": J{"$id": "emb2.json", "items": J{"$ref": "idref.json"}}}, "properties": J{"q": J{"$ref": "emb2.json"}}}, uc)
	add("remote.anyOf", J{"$schema": d7http, "$id": "http://h/root.json", "anyOf": A{J{"$ref": "remote-with.json"}, J{"$ref": "remote-refsib.json"}}}, u)
	return out
}

// FamilyDyn enumerates dynamic-scope topologies (C06): n resources, each with a
// $dynamicAnchor / $anchor / no anchor named T on a marker subschema {"const": k},
// entered in a chain through $ref / applicator / $dynamicRef hops; the last hop is a
// $dynamicRef in fragment, resource-relative or pointer form.
func FamilyDyn(maxN int, sampleAbove int, seed int64, remote bool) []*Skeleton {
	var out []*Skeleton
	rng := rand.New(rand.NewSource(seed))
	kinds := []string{"dyn", "plain", "none"}
	hops := []string{"ref", "allOf", "dynref", "anyOfFail", "ifFail"}
	entries := []string{"root", "interior"}
	const decoyID = "http://x/decoy"
	// the decoy resource declares the dynamic anchor too and always fails: entering it inside a
	// branch whose failure is absorbed must leave no trace in the dynamic scope
	decoy := J{"$id": decoyID, "$defs": J{"t": J{"$dynamicAnchor": "T", "const": 999}}, "not": J{}}
	forms := []string{"frag", "rel", "ptr", "ref+frag"}
	tm := &sx.Tmpl{Depth: 0, MaxLen: 0}
	marker := func(kind string, k int) J {
		switch kind {
		case "dyn":
			return J{"$dynamicAnchor": "T", "const": k}
		case "plain":
			return J{"$anchor": "T", "const": k}
		}
		return J{"const": k}
	}
	var gen func(n int, assign []string, perm []int, hop, form string, rootKind string, remoteIdx int, entry string, twice bool)
	gen = func(n int, assign []string, perm []int, hop, form string, rootKind string, remoteIdx int, entry string, twice bool) {
		// resource i has id "http://x/r<i>"; chain: root -> perm[0] -> perm[1] ... -> last.
		// entry "interior": a resource is entered at #/$defs/entry, its root is never evaluated.
		id := func(i int) string { return fmt.Sprintf("http://x/r%d", i) }
		target := func(i int) string {
			if entry == "interior" {
				return id(i) + "#/$defs/entry"
			}
			return id(i)
		}
		usesDecoy := false
		hopTo := func(target string) J {
			switch hop {
			case "allOf":
				return J{"allOf": A{J{"$ref": target}}}
			case "dynref":
				return J{"$dynamicRef": target}
			case "anyOfFail":
				usesDecoy = true
				return J{"anyOf": A{J{"$ref": decoyID}, J{"$ref": target}}}
			case "ifFail":
				usesDecoy = true
				return J{"if": J{"$ref": decoyID}, "else": J{"$ref": target}}
			}
			return J{"$ref": target}
		}
		defs := J{}
		universe := map[string]string{}
		for pos, i := range perm {
			res := J{"$id": id(i), "$defs": J{"t": marker(assign[i], i+1)}}
			cont := J{}
			if pos+1 < len(perm) {
				cont = hopTo(target(perm[pos+1]))
			} else {
				switch form {
				case "frag":
					cont["$dynamicRef"] = "#T"
				case "rel":
					cont["$dynamicRef"] = id(i) + "#T"
				case "ptr":
					cont["$dynamicRef"] = "#/$defs/t"
				case "ref+frag":
					// the same reference is first resolved as a plain $ref, then as a $dynamicRef
					cont["$ref"] = "#T"
					cont["$dynamicRef"] = "#T"
				}
			}
			if entry == "interior" {
				res["$defs"].(J)["entry"] = cont
			} else {
				res = merge(res, cont)
			}
			if remote && pos >= remoteIdx {
				universe[id(i)] = js(res)
			} else {
				defs[fmt.Sprintf("r%d", i)] = res
			}
		}
		defs["t"] = marker(rootKind, 100)
		root := merge(J{"$id": "http://x/root", "$defs": defs}, hopTo(target(perm[0])))
		if twice && len(perm) > 1 && !remote && entry == "root" && hop == "ref" {
			// the first resource of the chain is itself the second allOf branch (not behind a $ref),
			// so that both visits of the $dynamicRef happen at the same stack depth
			key := fmt.Sprintf("r%d", perm[0])
			inline := defs[key]
			delete(defs, key)
			root = J{"$id": "http://x/root", "$defs": defs, "allOf": A{J{"$ref": target(perm[len(perm)-1])}, inline}}
		} else if twice && len(perm) > 1 {
			// the resource that holds the $dynamicRef is reached twice within one Validate call:
			// first directly from the root (a shorter dynamic scope, and - with a loader - before the
			// other resources are loaded), then through the whole chain
			root = J{"$id": "http://x/root", "$defs": defs, "allOf": A{J{"$ref": target(perm[len(perm)-1])}, hopTo(target(perm[0]))}}
		}
		if usesDecoy {
			if remote {
				universe[decoyID] = js(decoy)
			} else {
				defs["decoy"] = decoy
			}
		}
		name := fmt.Sprintf("n%d.%s.root-%s.perm%v.%s.%s", n, strings.Join(assign, "-"), rootKind, perm, hop, form)
		if entry != "root" {
			name += "." + entry
		}
		if twice {
			name += ".twice"
		}
		if remote {
			name += fmt.Sprintf(".remote%d", remoteIdx)
		}
		sk := &Skeleton{Name: "F-dyn/" + name, Family: "F-dyn", Doc: js(root), Draft: refsem.Draft2020, Tm: tm, TwoCalls: true}
		if remote {
			sk.Universe = universe
		}
		out = append(out, sk)
	}
	for n := 1; n <= maxN; n++ {
		var assigns [][]string
		var rec func(cur []string)
		rec = func(cur []string) {
			if len(cur) == n {
				assigns = append(assigns, append([]string(nil), cur...))
				return
			}
			for _, k := range kinds {
				rec(append(cur, k))
			}
		}
		rec(nil)
		perms := permutations(n)
		for _, as := range assigns {
			for _, pm := range perms {
				for _, hop := range hops {
					for _, form := range forms {
						for _, rk := range []string{"dyn", "none"} {
							if n > sampleAbove && rng.Intn(8) != 0 {
								continue
							}
							ri := -1
							if remote {
								// the chain's suffix starting at position ri is supplied by the loader
								ri = rng.Intn(len(pm))
							}
							for _, en := range entries {
								if en == "interior" && hop == "dynref" {
									continue // a $dynamicRef with a JSON Pointer fragment is a plain reference: covered by "ref"
								}
								gen(n, as, pm, hop, form, rk, ri, en, false)
								if n >= 2 && en == "root" && (hop == "ref" || hop == "allOf") {
									gen(n, as, pm, hop, form, rk, ri, en, true)
								}
							}
						}
					}
				}
			}
		}
	}
	return out
}

func permutations(n int) [][]int {
	var out [][]int
	var rec func(cur []int, used []bool)
	rec = func(cur []int, used []bool) {
		if len(cur) == n {
			out = append(out, append([]int(nil), cur...))
			return
		}
		for i := 0; i < n; i++ {
			if !used[i] {
				used[i] = true
				rec(append(cur, i), used)
				used[i] = false
			}
		}
	}
	rec(nil, make([]bool, n))
	return out
}

// FamilyRef enumerates reference topologies (C03).
func FamilyRef(thorough bool, seed int64) []*Skeleton {
	var out []*Skeleton
	type rootCfg struct {
		name, id, base string
	}
	roots := []rootCfg{
		{"noid-nobase", "", ""},
		{"absid", "http://h/dir/root.json", ""},
		{"noid-base", "", "http://b/dir/doc.json"},
		{"relid-base", "sub/root.json", "http://b/dir/doc.json"},
		{"absid-base", "http://h/dir/root.json", "http://b/other.json"},
		{"urn", "urn:example:root", ""},
		// an absolute $id is normalised like any other reference (RFC 3986 5.2.2 removes its dot segments)
		{"absid-dots", "http://h/dir/sub/../root.json", ""},
	}
	embeddedIDs := []string{"sub/x.json", "../y.json", "./z", "http://other/abs.json", "x.json"}
	mk1 := func(name string, root rootCfg, doc J, refs map[string]string, universe map[string]string, mayRefuse bool) {
		props := J{}
		for k, r := range refs {
			props[k] = J{"$ref": r}
		}
		d := merge(doc, J{"properties": props})
		if root.id != "" {
			d["$id"] = root.id
		}
		sk := &Skeleton{Name: "F-ref/" + root.name + "." + name, Family: "F-ref", Doc: js(d), Draft: refsem.Draft2020, BaseURI: root.base, Universe: universe, ResolveMayRefuse: mayRefuse}
		docs := []string{sk.Doc}
		for _, u := range universe {
			docs = append(docs, u)
		}
		sk.Tm = TmplFor(docs, 2, 1, 5)
		out = append(out, sk)
	}
	mk := func(name string, root rootCfg, doc J, refs map[string]string, universe map[string]string, mayRefuse bool) {
		if len(refs) <= 3 {
			mk1(name, root, doc, refs, universe, mayRefuse)
			if len(refs) == 1 {
				return
			}
		}
		for _, k := range sortedKeysS(refs) {
			mk1(name+"."+k, root, doc, map[string]string{k: refs[k]}, universe, mayRefuse)
		}
	}
	for _, root := range roots {
		hasBase := root.id != "" && !strings.HasPrefix(root.id, "sub/") || root.base != ""
		absolute := hasBase
		// local fragments only: fine under any base
		mk("local", root, J{"$defs": J{"t": J{"$anchor": "top", "const": 1}, "u": J{"const": 2, "$defs": J{"v": J{"$anchor": "deep", "const": 3}}}}},
			map[string]string{"p": "#/$defs/t", "a": "#top", "n": "#/$defs/u/$defs/v", "d": "#deep", "self": "#"}, nil, false)
		// "#" designates the root of the *resource* it occurs in: inside an embedded resource, that resource
		mk("hash-in-embedded-resource", root, J{"$defs": J{"e": J{"$id": "http://emb/e.json", "properties": J{"r": J{"$ref": "#"}}, "not": J{"const": 7}}}},
			map[string]string{"d": "http://emb/e.json", "self": "#"}, nil, false)
		mk("hash-pointer-in-embedded-resource", root, J{"$defs": J{"e": J{"$id": "http://emb/e.json", "properties": J{"r": J{"$ref": "#/$defs/k"}}, "$defs": J{"k": J{"const": 8}}}, "k": J{"const": 9}}},
			map[string]string{"d": "http://emb/e.json", "k": "#/$defs/k"}, nil, false)
		mk("local-missing-anchor", root, J{"$defs": J{"t": J{"$anchor": "top", "const": 1}}}, map[string]string{"a": "#nope"}, nil, false)
		mk("local-missing-pointer", root, J{"$defs": J{"t": J{"const": 1}}}, map[string]string{"a": "#/$defs/zz"}, nil, false)
		mk("local-absent-keyword", root, J{"$defs": J{"t": J{"const": 1}}}, map[string]string{"a": "#/not", "b": "#/$defs/t/items", "c": "#/additionalProperties"}, nil, false)
		// array indices are "0" or a digit 1-9 followed by digits (RFC 6901 section 4): anything else designates nothing
		arr2 := J{"allOf": A{J{"const": 1}, J{"const": 2}}}
		mk("local-array-index", root, arr2, map[string]string{"a": "#/allOf/1", "b": "#/allOf/0"}, nil, false)
		for i, bad := range []string{"+1", "-0", "+0", "01", "1_", "0x1", " 1", "2", "18446744073709551617", "36893488147419103232", "-"} {
			mk(fmt.Sprintf("local-bad-array-index-%d", i), root, arr2, map[string]string{"a": "#/allOf/" + bad}, nil, false)
		}
		mk("local-nonschema-pointer", root, J{"$defs": J{"t": J{"const": 1}}}, map[string]string{"a": "#/$defs/t/const"}, nil, false)
		if !absolute || strings.HasPrefix(root.id, "urn:") {
			// relative references need a hierarchical absolute base (under a urn: base
			// net/url and RFC 3986 5.2.3 differ; outside the claim)
			continue
		}
		for ei, eid := range embeddedIDs {
			if !thorough && ei > 2 {
				continue
			}
			emb := J{"$id": eid, "$anchor": "ea", "const": 10, "$defs": J{"in": J{"$anchor": "ain", "const": 11}, "q": J{"$ref": "#ain"}, "qp": J{"$ref": "#/$defs/in"}}}
			doc := J{"$defs": J{"e": emb, "t": J{"$anchor": "ain", "const": 1}}}
			refs := map[string]string{
				"byid":      eid,
				"byidanch":  eid + "#ea",
				"byidinner": eid + "#ain",
				"byidptr":   eid + "#/$defs/in",
				"rootain":   "#ain",
				"ptr":       "#/$defs/e",
				"ptrcross":  "#/$defs/e/$defs/in",
				"viaq":      "#/$defs/e/$defs/q",
				"viaqp":     "#/$defs/e/$defs/qp",
			}
			mk(fmt.Sprintf("embedded%d", ei), root, doc, refs, nil, false)
			// anchors are scoped: the embedded resource's anchor is not visible from the root resource
			mk(fmt.Sprintf("embedded%d-scope", ei), root, J{"$defs": J{"e": emb}}, map[string]string{"bad": "#ea"}, nil, false)
			// nested relative $id under a relative $id
			nested := J{"$id": eid, "$defs": J{"n": J{"$id": "deeper/n.json", "$anchor": "na", "const": 20}}}
			nid := refsem.Resolve(refsem.Resolve(refsem.ParseURI(rootBaseOf(root.id, root.base)), refsem.ParseURI(eid)), refsem.ParseURI("deeper/n.json")).String()
			mk(fmt.Sprintf("nested%d", ei), root, J{"$defs": J{"e": nested}}, map[string]string{"abs": nid, "absanch": nid + "#na", "ptr": "#/$defs/e/$defs/n"}, nil, false)
		}
		// loader universes
		rbase := rootBaseOf(root.id, root.base)
		rel := func(r string) string {
			return refsem.Resolve(refsem.ParseURI(rbase), refsem.ParseURI(r)).WithoutFragment().String()
		}
		u1 := map[string]string{rel("remote.json"): `{"$anchor":"ra","const":30,"$defs":{"in":{"const":31}}}`}
		mk("remote-basic", root, J{}, map[string]string{"r": "remote.json", "ra": "remote.json#ra", "rp": "remote.json#/$defs/in", "again": "./remote.json"}, u1, false)
		// absolute references with dot segments are normalised like relative ones (RFC 3986 5.2.2)
		if u := refsem.ParseURI(rbase); u.HasAuthority {
			dots := u.Scheme + "://" + u.Authority + "/nowhere/.." + rel("remote.json")[len(u.Scheme+"://"+u.Authority):]
			mk("remote-absolute-dots", root, J{}, map[string]string{"r": dots, "ra": dots + "#ra"}, u1, false)
			emb := J{"$id": "sub/x.json", "const": 12}
			embAbs := refsem.Resolve(refsem.ParseURI(rbase), refsem.ParseURI("sub/x.json")).String()
			eu := refsem.ParseURI(embAbs)
			mk("embedded-absolute-dots", root, J{"$defs": J{"e": emb}}, map[string]string{"d": eu.Scheme + "://" + eu.Authority + "/a/./../" + eu.Path[1:]}, nil, false)
		}
		// an embedded resource whose absolute $id carries dot segments: it is known under the
		// normalised URI, whichever spelling a reference uses, and references from inside it
		// resolve against the normalised base
		embDots := J{"$id": "http://other/a/b/../c/./abs.json", "$anchor": "ea", "const": 13, "$defs": J{"in": J{"$anchor": "ain", "const": 14}, "q": J{"$ref": "#/$defs/in"}, "qa": J{"$ref": "#ain"}, "qs": J{"$ref": "sib.json"}, "sib": J{"$id": "sib.json", "const": 15}}}
		mk("embedded-absolute-id-dots", root, J{"$defs": J{"e": embDots}}, map[string]string{
			"norm": "http://other/a/c/abs.json", "normanch": "http://other/a/c/abs.json#ea", "normptr": "http://other/a/c/abs.json#/$defs/in",
			"asis": "http://other/a/b/../c/./abs.json", "asisanch": "http://other/a/b/../c/./abs.json#ain",
			"viaq": "#/$defs/e/$defs/q", "viaqa": "#/$defs/e/$defs/qa", "viaqs": "#/$defs/e/$defs/qs", "sib": "http://other/a/c/sib.json"}, nil, false)
		mk("remote-missing", root, J{}, map[string]string{"r": "nowhere.json"}, u1, false)
		mk("remote-missing-anchor", root, J{}, map[string]string{"r": "remote.json#zz"}, u1, false)
		// chain a -> b
		u2 := map[string]string{
			rel("a.json"): `{"properties":{"x":{"$ref":"b.json#/$defs/m"}},"$defs":{"k":{"const":40}}}`,
			rel("b.json"): `{"$defs":{"m":{"const":41}},"$anchor":"broot"}`,
		}
		mk("remote-chain", root, J{}, map[string]string{"a": "a.json", "ak": "a.json#/$defs/k", "b": "b.json#/$defs/m"}, u2, false)
		// canonical id differs from retrieval URI
		u3 := map[string]string{rel("alias.json"): `{"$id":"http://canon/c.json","$anchor":"ca","const":50,"$defs":{"s":{"$ref":"#ca"}}}`}
		mk("remote-alias", root, J{}, map[string]string{"byretrieval": "alias.json", "s": "alias.json#/$defs/s", "anch": "alias.json#ca"}, u3, false)
		mk("remote-alias-canonical", root, J{}, map[string]string{"a1-first": "alias.json", "b2-canon": "http://canon/c.json#ca"}, u3, false) // (resolved in key order: the retrieval comes first)
		// ... and a *relative* $id: the canonical URI is the $id resolved against the retrieval URI
		u3r := map[string]string{rel("alias2.json"): `{"$id":"canon2.json","$anchor":"ca","const":51,"$defs":{"s":{"$ref":"#ca"}}}`}
		mk("remote-alias-relative-id", root, J{}, map[string]string{"a1-first": "alias2.json", "b2-canon": "canon2.json#ca", "b3-canonroot": "./canon2.json"}, u3r, false)
		mk("remote-alias-relative-id-unloaded", root, J{}, map[string]string{"a1-canon": "canon2.json#ca", "b2-first": "alias2.json"}, u3r, false)
		// cycles and diamonds with pointer and anchor fragments
		cyc := func(frag string) map[string]string {
			return map[string]string{
				rel("ca.json"): `{"$anchor":"x","type":"object","properties":{"next":{"$ref":"cb.json"}},"$defs":{"x":{"const":60}}}`,
				rel("cb.json"): `{"type":"object","properties":{"back":{"$ref":"ca.json` + frag + `"}}}`,
			}
		}
		mk("cycle-pointer", root, J{}, map[string]string{"c": "ca.json"}, cyc("#/$defs/x"), false)
		mk("cycle-root", root, J{}, map[string]string{"c": "ca.json"}, cyc(""), false)
		mk("cycle-anchor", root, J{}, map[string]string{"c": "ca.json"}, cyc("#x"), false)
		// a cycle through the retrieval URIs of documents whose canonical $id is elsewhere
		acyc := map[string]string{
			rel("ya.json"): `{"$id":"http://canon/ya.json","type":"object","properties":{"next":{"$ref":"` + rel("yb.json") + `"}}}`,
			rel("yb.json"): `{"$id":"http://canon/yb.json","type":"object","properties":{"back":{"$ref":"` + rel("ya.json") + `"}}}`,
		}
		mk("cycle-aliased", root, J{}, map[string]string{"c": "ya.json"}, acyc, false)
		dia := func(frag string) map[string]string {
			return map[string]string{
				rel("db.json"): `{"$anchor":"x","const":70,"$defs":{"x":{"const":71}}}`,
				rel("dc.json"): `{"properties":{"viab":{"$ref":"db.json` + frag + `"}}}`,
			}
		}
		mk("diamond-pointer", root, J{}, map[string]string{"b": "db.json", "c": "dc.json"}, dia("#/$defs/x"), false)
		mk("diamond-anchor", root, J{}, map[string]string{"b": "db.json", "c": "dc.json"}, dia("#x"), false)
	}
	// relative reference under a non-absolute base: the package documents that it may refuse
	mk("relative-nobase", roots[0], J{"$defs": J{"e": J{"$id": "http://abs/e.json", "const": 5}}}, map[string]string{"r": "http://abs/e.json"}, nil, false)
	_ = seed
	return out
}

func rootBaseOf(id, base string) string {
	if id == "" {
		return base
	}
	return refsem.Resolve(refsem.ParseURI(base), refsem.ParseURI(id)).WithoutFragment().String()
}

func sortedKeysS(m map[string]string) []string {
	ks := make([]string, 0, len(m))
	for k := range m {
		ks = append(ks, k)
	}
	sort.Strings(ks)
	return ks
}

// FamilyPtr: "#"+percent-encoded JSON Pointer of every subschema location of a maximal
// document, resolved end to end through Resolve and validated (C17-K3).
func FamilyPtr(draft int) []*Skeleton {
	keys := []string{"", "/", "~", "~0", "~1", "%", " ", "é", "0", "-", "a/b", "a", "01", "+1", "%25", "a b", "%41", "A", "a+b",
		// a literal '+' next to a character that has to be percent-encoded, with the sibling a
		// form-decoding (QueryUnescape) would select instead; an encoded '+'; a key that is
		// itself the text of an escape of '+'
		"a+b c", "a b c", "+é", " é", "%2B", "+"}
	esc := func(k string) string {
		return strings.ReplaceAll(strings.ReplaceAll(k, "~", "~0"), "/", "~1")
	}
	pct := func(s string) string {
		var sb strings.Builder
		for i := 0; i < len(s); i++ {
			c := s[i]
			if c >= 'a' && c <= 'z' || c >= 'A' && c <= 'Z' || c >= '0' && c <= '9' || strings.IndexByte("-._~/$+", c) >= 0 {
				sb.WriteByte(c)
			} else {
				fmt.Fprintf(&sb, "%%%02X", c)
			}
		}
		return sb.String()
	}
	next := 0
	mark := func() J { next++; return J{"const": next} }
	mx := J{}
	var ptrs []string
	single := []string{"additionalProperties", "propertyNames", "contains", "not", "if", "then", "else"}
	arrays := []string{"allOf", "anyOf", "oneOf"}
	maps := []string{"properties", "patternProperties"}
	if draft == refsem.Draft2020 {
		single = append(single, "unevaluatedProperties", "unevaluatedItems", "contentSchema", "items")
		arrays = append(arrays, "prefixItems")
		maps = append(maps, "$defs", "dependentSchemas")
	} else {
		single = append(single, "additionalItems")
		arrays = append(arrays, "items")
		maps = append(maps, "definitions", "dependencies")
	}
	for _, kw := range single {
		mx[kw] = mark()
		ptrs = append(ptrs, "/"+kw)
	}
	for _, kw := range arrays {
		mx[kw] = A{mark(), mark()}
		ptrs = append(ptrs, "/"+kw+"/0", "/"+kw+"/1")
	}
	for _, kw := range maps {
		mm := J{}
		for _, k := range keys {
			if kw == "patternProperties" && (k == "%" || k == "+1" || k == "%25" || k == "%41" || k == "a+b" || k == "a+b c" || k == "a b c" || k == "+é" || k == " é" || k == "%2B" || k == "+") {
				continue // not valid regular expressions / irrelevant
			}
			mm[k] = mark()
			ptrs = append(ptrs, "/"+kw+"/"+esc(k))
		}
		mx[kw] = mm
	}
	var out []*Skeleton
	defsKw := "$defs"
	if draft == refsem.Draft7 {
		defsKw = "definitions"
	}
	add := func(name, ref string) {
		doc := J{defsKw: J{"max": mx}, "properties": J{"r": J{"$ref": ref}}}
		sk := &Skeleton{Name: fmt.Sprintf("F-ptr/d%d.%s", draft, name), Family: "F-ptr", Doc: js(doc), Draft: draft}
		sk.Tm = &sx.Tmpl{Depth: 1, MaxLen: 0, Keys: []string{"r"}}
		out = append(out, sk)
	}
	for _, p := range ptrs {
		add(p, "#"+pct("/"+defsKw+"/max"+p))
		if strings.Contains(p, "+") {
			// the same pointer with '+' itself percent-encoded (both spellings are valid fragments)
			add(p+".plus-encoded", "#"+strings.ReplaceAll(pct("/"+defsKw+"/max"+p), "+", "%2B"))
		}
	}
	// invalid or dangling pointers: Resolve must fail
	for _, bad := range []string{"/allOf/2", "/allOf/-", "/allOf/01", "/allOf/+1", "/allOf/-0", "/allOf/1x", "/allOf/", "/properties/zz", "/not/not", "/nope", "/properties", "/allOf", "/properties/~", "/properties/~2", "/required/0", "/type"} {
		add("bad:"+bad, "#"+pct("/"+defsKw+"/max"+bad))
	}
	return out
}

// FamilyDynOrder: one generic resource with a $dynamicRef instantiated twice, under sibling
// properties, by two resources that declare the same dynamic anchor differently. Within one
// Validate call the anchor is looked up under two dynamic scopes; explored under every
// iteration order of the properties map (C14) and as plain skeletons (C06).
func FamilyDynOrder(allOrders bool) []*Skeleton {
	box := J{"$id": "http://x/box", "properties": J{"value": J{"$dynamicRef": "#T"}}, "$defs": J{"t": J{"$dynamicAnchor": "T"}}}
	inst := func(id string, tconstraint J) J {
		return J{"$id": id, "$ref": "http://x/box", "$defs": J{"t": merge(J{"$dynamicAnchor": "T"}, tconstraint)}}
	}
	docs := map[string]J{
		"two-instantiations": {"$id": "http://x/root", "properties": J{"a": J{"$ref": "http://x/intbox"}, "b": J{"$ref": "http://x/strbox"}},
			"$defs": J{"box": box, "i": inst("http://x/intbox", J{"type": "integer"}), "s": inst("http://x/strbox", J{"type": "string"})}},
		"three-instantiations": {"$id": "http://x/root", "properties": J{"a": J{"$ref": "http://x/intbox"}, "b": J{"$ref": "http://x/strbox"}, "c": J{"$ref": "http://x/box"}},
			"$defs": J{"box": box, "i": inst("http://x/intbox", J{"type": "integer"}), "s": inst("http://x/strbox", J{"type": "string"})}},
		"allOf-two-instantiations": {"$id": "http://x/root", "allOf": A{J{"properties": J{"a": J{"$ref": "http://x/intbox"}}}, J{"properties": J{"b": J{"$ref": "http://x/strbox"}}}},
			"$defs": J{"box": box, "i": inst("http://x/intbox", J{"type": "integer"}), "s": inst("http://x/strbox", J{"type": "string"})}},
	}
	var names []string
	for n := range docs {
		names = append(names, n)
	}
	sort.Strings(names)
	var out []*Skeleton
	for _, n := range names {
		d := js(docs[n])
		sk := &Skeleton{Name: "F-dynorder/" + n, Family: "F-dynorder", Doc: d, Draft: refsem.Draft2020, AllOrders: allOrders}
		sk.Tm = &sx.Tmpl{Depth: 2, MaxLen: 0, Keys: []string{"a", "b", "c", "value"}, KeysFor: func(node string) ([]string, bool) {
			if node == "I" {
				return []string{"a", "b", "c"}, true
			}
			return []string{"value"}, true
		}}
		if allOrders {
			sk.Name += ".all-orders"
		}
		out = append(out, sk)
	}
	return out
}
