package hx

import (
	"encoding/json"
	"fmt"
	"go/types"
	"reflect"
	"time"

	"github.com/google/jsonschema-go/jsonschema"

	"verif/engine/refsem"
	"verif/engine/sx"
)

// Resolve determinism under map iteration order (C14).
//
// The schema document is concrete; the only nondeterminism of Resolve is the order in which
// Go ranges over maps. The engine executes the real Resolve (check, resolveURIs,
// resolveRefs) from its SSA and forks at every map range over all permutations of the
// keys (maps of <= 4 keys); at the end of every path the overlay function
// VerifResolveSummary renders what Resolve computed. All paths must yield the summary the
// native run produced. There is no symbolic data in this harness: it is an exhaustive
// exploration of iteration orders by the symbolic executor, not an SMT verdict; the
// solver only prunes infeasible choices.

func (w *Worker) RunResolveOrders(sk *Skeleton, property string) *SkelResult {
	t0 := time.Now()
	res := &SkelResult{Skeleton: sk.Name}
	defer func() { res.Elapsed = time.Since(t0) }()
	parse := func() (*jsonschema.Schema, error) {
		s := new(jsonschema.Schema)
		if err := json.Unmarshal([]byte(sk.Doc), s); err != nil {
			return nil, err
		}
		if s.Schema == "" {
			s.Schema = draftDefaultURI(sk.Draft)
		}
		return s, nil
	}
	parseDocs := func() map[string]*jsonschema.Schema {
		out := map[string]*jsonschema.Schema{}
		for uri, text := range sk.Universe {
			d := new(jsonschema.Schema)
			if json.Unmarshal([]byte(text), d) == nil {
				out[uri] = d
			}
		}
		return out
	}
	nativeSummary := func() (out string, panicked any) {
		defer func() {
			if r := recover(); r != nil {
				panicked = r
			}
		}()
		s, err := parse()
		if err != nil {
			return "unmarshal-error", nil
		}
		if sk.Universe != nil {
			return jsonschema.VerifResolveSummaryWith(s, parseDocs()), nil
		}
		return jsonschema.VerifResolveSummary(s), nil
	}
	want, pan := nativeSummary()
	if pan != nil {
		res.SkelError = fmt.Sprint("native Resolve panicked: ", pan)
		return res
	}
	if want == "unmarshal-error" {
		res.SkelError = "document does not unmarshal"
		return res
	}
	m := w.NewMachine()
	m.AllOrders = true
	res.Stats = m.Stats
	fn := m.P.Func("VerifResolveSummary")
	if sk.Universe != nil {
		fn = m.P.Func("VerifResolveSummaryWith")
	}
	schemaPtr := types.NewPointer(m.P.NamedType("Schema"))
	docsT := types.NewMap(types.Typ[types.String], schemaPtr)
	differ := map[string]bool{}
	var schemaWrites []string
	m.Explore(func(m *sx.Machine) sx.Value {
		m.OrderOncePerMap = true
		m.AllOrders = true // (the kernel switches it off for its order-independent rendering; on again for every path)
		s, _ := parse()
		// the caller's schema tree is shared pre-state: Resolve must not write to it (C14); the
		// documents a loader hands over are the resolver's own
		m.TrackShared = true
		im := sx.NewImporter(m)
		im.Shared = true
		root := im.Import(reflect.ValueOf(s), schemaPtr)
		if sk.Universe != nil {
			im2 := sx.NewImporter(m)
			return m.Call(fn, root, im2.Import(reflect.ValueOf(parseDocs()), docsT))
		}
		return m.Call(fn, root)
	}, func(m *sx.Machine, r *sx.PathResult) {
		if len(r.SharedWrites) > 0 && len(schemaWrites) < 3 {
			schemaWrites = append(schemaWrites, r.SharedWrites[0])
		}
		if r.Outcome == sx.OutPanic {
			differ["panic: "+r.Msg] = true
			return
		}
		if !r.Decisive() {
			res.Inconclusive = append(res.Inconclusive, r.Outcome+": "+r.Msg)
			return
		}
		got, ok := sx.ConcreteString(r.Ret)
		if !ok {
			res.Inconclusive = append(res.Inconclusive, fmt.Sprintf("summary is not a concrete string (%T)", r.Ret))
			return
		}
		if got == want {
			res.VerdictUnsat++ // this order gives the reference result
			res.Validated++
			return
		}
		res.VerdictSat++
		differ[got] = true
	})
	res.Paths = m.Stats.Paths
	res.Forks = m.Stats.Forks
	res.Steps = m.Stats.Steps
	if m.Stats.PathsCapped {
		res.Inconclusive = append(res.Inconclusive, "path budget exceeded")
	}
	res.Solver = w.S.Stats
	if res.Sample == nil {
		res.Sample = map[string]any{"schema": sk.Doc, "iteration_orders_explored": res.Paths, "summary": trunc(want, 300)}
	}
	if len(schemaWrites) > 0 {
		// replay: deep snapshot (incl. spare capacity) of the schema tree before and after a native Resolve
		s, _ := parse()
		before := DeepDump(s)
		func() {
			defer func() { recover() }()
			if sk.Universe != nil {
				jsonschema.VerifResolveSummaryWith(s, parseDocs())
			} else {
				jsonschema.VerifResolveSummary(s)
			}
		}()
		if DeepDump(s) != before {
			res.Findings = append(res.Findings, Finding{Property: property, Kind: "resolve-writes-schema", Skeleton: sk.Name, Family: sk.Family, Doc: sk.Doc, Draft: sk.Draft,
				Expected: "Resolve leaves the Schema tree it is given unchanged", Observed: "the tree differs after Resolve (deep comparison); engine: " + schemaWrites[0]})
		} else {
			res.EngineErrors = append(res.EngineErrors, "engine reports a write into the schema tree during Resolve ("+schemaWrites[0]+") but the native deep comparison sees none")
		}
		return res
	}
	if len(differ) == 0 {
		return res
	}
	// replay: Go randomises map iteration, so a dependence on it shows up across repeated native runs
	seen := map[string]bool{want: true}
	for i := 0; i < 3000 && len(seen) < 2; i++ {
		g, p := nativeSummary()
		if p != nil {
			g = fmt.Sprint("panic: ", p)
		}
		seen[g] = true
	}
	var other string
	for g := range differ {
		other = g
		break
	}
	if len(seen) < 2 {
		res.EngineErrors = append(res.EngineErrors, fmt.Sprintf("an iteration order gives a different Resolve result in the engine but 3000 native runs agree: engine %q native %q", trunc(other, 200), trunc(want, 200)))
		return res
	}
	for g := range seen {
		if g != want {
			other = g
		}
	}
	res.Findings = append(res.Findings, Finding{Property: property, Kind: "resolve-nondeterministic", Skeleton: sk.Name, Family: sk.Family, Doc: sk.Doc, Draft: sk.Draft,
		Expected: "every Resolve of the same schema computes the same bases, URIs, reference targets and anchors", Observed: "two runs differ: " + trunc(firstDiff(want, other), 300),
		Detail: fmt.Sprintf("%d iteration orders explored, %d distinct results", res.Paths, len(differ)+1)})
	return res
}

func firstDiff(a, b string) string {
	la, lb := splitLines(a), splitLines(b)
	for i := 0; i < len(la) || i < len(lb); i++ {
		var x, y string
		if i < len(la) {
			x = la[i]
		}
		if i < len(lb) {
			y = lb[i]
		}
		if x != y {
			return fmt.Sprintf("%q vs %q", x, y)
		}
	}
	return "(equal)"
}

func splitLines(s string) []string {
	var out []string
	cur := ""
	for _, r := range s {
		if r == '\n' {
			out = append(out, cur)
			cur = ""
			continue
		}
		cur += string(r)
	}
	if cur != "" {
		out = append(out, cur)
	}
	return out
}

// ResolveOrderDocs are the documents of the determinism family: references by $id, by
// anchor and by pointer next to duplicate identifiers, whose resolution is the place where
// an order dependence would show.
func ResolveOrderDocs() []*Skeleton {
	mk := func(name string, doc J) *Skeleton {
		return &Skeleton{Name: "F-resorder/" + name, Family: "F-resorder", Doc: js(doc), Draft: refsem.Draft2020}
	}
	mkU := func(name string, doc J, universe map[string]string) *Skeleton {
		sk := mk(name, doc)
		sk.Universe = universe
		return sk
	}
	str, num := J{"type": "string"}, J{"type": "number"}
	return []*Skeleton{
		mk("ids-distinct", J{"$id": "http://h/root.json", "$defs": J{"a": merge(J{"$id": "a.json"}, str), "b": merge(J{"$id": "b.json"}, num)}, "properties": J{"p": J{"$ref": "a.json"}, "q": J{"$ref": "http://h/b.json"}}}),
		mk("ids-duplicate-abs-rel", J{"$id": "http://h/root.json", "$defs": J{"a": merge(J{"$id": "http://h/item.json"}, str), "b": merge(J{"$id": "item.json"}, num)}, "properties": J{"p": J{"$ref": "item.json"}}}),
		mk("ids-duplicate-same", J{"$id": "http://h/root.json", "$defs": J{"a": merge(J{"$id": "item.json"}, str), "b": merge(J{"$id": "item.json"}, num), "c": merge(J{"$id": "item.json"}, J{"type": "null"})}, "$ref": "item.json"}),
		mk("ids-duplicate-nested", J{"$id": "http://h/root.json", "properties": J{"x": J{"$defs": J{"a": merge(J{"$id": "http://h/i.json"}, str)}}, "y": J{"$defs": J{"a": merge(J{"$id": "i.json"}, num)}}}, "items": J{"$ref": "i.json"}}),
		mk("id-equals-root", J{"$id": "http://h/root.json", "$defs": J{"a": merge(J{"$id": "root.json"}, str)}, "properties": J{"p": J{"$ref": "root.json"}}}),
		mk("anchors-per-resource", J{"$id": "http://h/root.json", "$defs": J{"a": J{"$id": "a.json", "$defs": J{"t": merge(J{"$anchor": "T"}, str)}}, "b": J{"$id": "b.json", "$defs": J{"t": merge(J{"$anchor": "T"}, num)}}}, "properties": J{"p": J{"$ref": "a.json#T"}, "q": J{"$ref": "b.json#T"}}}),
		mk("dynamic-anchors", J{"$id": "http://h/root.json", "$defs": J{"a": J{"$id": "a.json", "$defs": J{"t": merge(J{"$dynamicAnchor": "T"}, str)}, "$dynamicRef": "#T"}, "b": J{"$id": "b.json", "$defs": J{"t": merge(J{"$dynamicAnchor": "T"}, num)}, "$ref": "a.json"}}, "$ref": "b.json"}),
		mk("pointer-refs", J{"$defs": J{"a": str, "b": num, "c": J{"$ref": "#/$defs/a"}}, "properties": J{"p": J{"$ref": "#/$defs/c"}, "q": J{"$ref": "#/$defs/b"}}, "patternProperties": J{"^x": J{"$ref": "#/properties/p"}}}),
		mk("draft7-like-dependencies", J{"dependentSchemas": J{"a": J{"$ref": "#/$defs/s"}, "b": J{"$ref": "#/$defs/n"}}, "$defs": J{"s": str, "n": num}}),
		mkU("remote-diamond-mixed-drafts", J{"$id": "http://h/root.json", "properties": J{"a": J{"$ref": "a.json"}, "c": J{"$ref": "c.json#foo"}}}, map[string]string{
			"http://h/a.json": `{"$schema":"http://json-schema.org/draft-07/schema#","title":"A","properties":{"x":{"$ref":"c.json"}}}`,
			"http://h/c.json": `{"title":"C","$anchor":"foo","$defs":{"d":{"title":"Cd","$anchor":"bar"}}}`,
		}),
		mkU("remote-diamond", J{"$id": "http://h/root.json", "properties": J{"a": J{"$ref": "a.json"}, "c": J{"$ref": "c.json#foo"}}}, map[string]string{
			"http://h/a.json": `{"title":"A","$ref":"c.json#/$defs/d"}`,
			"http://h/c.json": `{"title":"C","$defs":{"d":{"title":"Cd","$anchor":"foo"}}}`,
		}),
		mkU("remote-draft7-root", J{"$schema": "http://json-schema.org/draft-07/schema#", "$id": "http://h/root.json", "definitions": J{"p": J{"$ref": "c.json"}, "q": J{"$id": "#frag", "title": "q"}}, "properties": J{"a": J{"$ref": "a.json"}}}, map[string]string{
			"http://h/a.json": `{"$schema":"https://json-schema.org/draft/2020-12/schema","title":"A","properties":{"x":{"$ref":"c.json"}}}`,
			"http://h/c.json": `{"title":"C","definitions":{"k":{"$id":"#k","title":"Ck"}}}`,
		}),
		mk("unresolvable-two", J{"properties": J{"p": J{"$ref": "#/$defs/missing1"}, "q": J{"$ref": "#/$defs/missing2"}}}),
	}
}
