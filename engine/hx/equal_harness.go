package hx

import (
	"fmt"
	"hash/maphash"
	"os"
	"time"

	"github.com/google/jsonschema-go/jsonschema"

	"verif/engine/refsem"
	"verif/engine/smt"
	"verif/engine/sx"
)

// EqualCase is one template configuration for the Equal / hash harnesses.
type EqualCase struct {
	Name    string
	TmX     *sx.Tmpl
	TmY     *sx.Tmpl
	Triple  bool
	FixTagX int // -1 = free; otherwise X's JSON type is fixed (splits the exploration across workers)
	FixTagY int
}

func nativeEqual(x, y any) (res bool, panicked any) {
	defer func() {
		if r := recover(); r != nil {
			panicked = r
		}
	}()
	return jsonschema.Equal(x, y), nil
}

// oracleEqConcrete is O-eq on two concrete values.
func oracleEqConcrete(p *sx.Program, x, y any) (bool, error) {
	m := sx.NewMachine(p, smt.NewCtx(), nil)
	o := refsem.NewOracle(m, nil)
	t := o.EqInst(refsem.ConstInst{M: m, V: Canon(x), Path: "x"}, refsem.ConstInst{M: m, V: Canon(y), Path: "y"})
	if !t.IsConst() {
		return false, fmt.Errorf("O-eq not constant on concrete values")
	}
	return t.IsTrue(), nil
}

// RunEqualCase explores Equal(x, y) on two symbolic values.
func (w *Worker) RunEqualCase(ec *EqualCase, property string, hashLaw bool) *SkelResult {
	t0 := time.Now()
	res := &SkelResult{Skeleton: ec.Name}
	defer func() { res.Elapsed = time.Since(t0) }()
	solver0 := w.S.Stats
	m := w.NewMachine()
	res.Stats = m.Stats
	x := m.NewNode("X", ec.TmX)
	y := m.NewNode("Y", ec.TmY)
	if ec.FixTagX >= 0 {
		m.AddBase(x.TagIs(ec.FixTagX))
	}
	if ec.FixTagY >= 0 {
		m.AddBase(y.TagIs(ec.FixTagY))
	}
	orc := refsem.NewOracle(m, nil)
	spec := orc.EqInst(refsem.NodeInst{M: m, N: x}, refsem.NodeInst{M: m, N: y})
	ctx := m.Ctx
	fn := m.P.Func("Equal")
	if hashLaw {
		fn = m.P.Func("verifHashPair")
	}
	sk := &Skeleton{Name: ec.Name, Family: "F-equal"}
	npath := 0
	m.Explore(func(m *sx.Machine) sx.Value {
		return m.Call(fn, sx.Iface{T: m.P.NodeT, V: x}, sx.Iface{T: m.P.NodeT, V: y})
	}, func(m *sx.Machine, r *sx.PathResult) {
		if !r.Decisive() {
			res.Inconclusive = append(res.Inconclusive, r.Outcome+": "+r.Msg)
			return
		}
		var bad *smt.Term
		var desc string
		switch {
		case r.Outcome == sx.OutPanic:
			bad, desc = ctx.True, "panic"
		case hashLaw:
			tu := r.Ret.(sx.Tuple)
			h1, h2 := intTermOf(m, tu[0]), intTermOf(m, tu[1])
			bad, desc = ctx.And(spec, ctx.Ne(h1, h2)), "hashes"
		default:
			switch b := r.Ret.(type) {
			case bool:
				desc = fmt.Sprint(b)
				if b {
					res.SawNil = true
					bad = ctx.Not(spec)
				} else {
					res.SawErr = true
					bad = spec
				}
			case *smt.Term:
				desc = "symbolic"
				bad = ctx.Xor(b, spec)
			}
		}
		// translator validation (every path at first, then a 1-in-8 sample: model extraction dominates the cost)
		npath++
		if !hashLaw && (npath <= 40 || npath%8 == 0) && m.S.Check() == smt.Sat {
			if gx, gy, err := w.modelInstances(m, x, y); err == nil {
				got, pan := nativeEqual(gx, gy)
				nat := fmt.Sprint(got)
				if pan != nil {
					nat = "panic"
				}
				if desc != "symbolic" && nat != desc {
					res.EngineErrors = append(res.EngineErrors, fmt.Sprintf("path validation: engine=%s native=%s x=%s y=%s", desc, nat, DescribeGo(gx), DescribeGo(gy)))
				} else {
					res.Validated++
					if res.Sample == nil {
						res.Sample = map[string]any{"x": DescribeGo(gx), "y": DescribeGo(gy), "Equal": nat}
					}
				}
			} else {
				res.ValidateSkip++
			}
		}
		m.S.Push()
		m.S.Assert(bad)
		switch m.S.Check() {
		case smt.Unsat:
			res.VerdictUnsat++
		case smt.Unknown:
			res.VerdictUnknown++
			res.Inconclusive = append(res.Inconclusive, "verdict query unknown: "+m.S.LastError)
		case smt.Sat:
			res.VerdictSat++
			if len(res.Findings) < 40 {
				gx, gy, err := w.modelInstances(m, x, y)
				if err != nil {
					res.Inconclusive = append(res.Inconclusive, "counterexample model not realizable: "+err.Error())
					break
				}
				want, oerr := oracleEqConcrete(m.P, gx, gy)
				if oerr != nil {
					res.EngineErrors = append(res.EngineErrors, oerr.Error())
					break
				}
				f := Finding{Property: property, Skeleton: ec.Name, Family: sk.Family, Instance: canonicalJSON(gx) + " vs " + canonicalJSON(gy), GoValue: DescribeGo(gx) + "  vs  " + DescribeGo(gy), Expected: fmt.Sprint(want)}
				if hashLaw {
					if !want {
						res.EngineErrors = append(res.EngineErrors, "hash-law counterexample whose values are not equal: "+f.GoValue)
						break
					}
					differ := false
					for i := 0; i < 16 && !differ; i++ {
						a, b, pan := nativeHashPair(gx, gy)
						if pan != nil {
							f.Kind, f.Observed = "panic", fmt.Sprint(pan)
							differ = true
						} else if a != b {
							f.Kind, f.Observed = "hash-law", fmt.Sprintf("equal values hash differently (%#x vs %#x)", a, b)
							differ = true
						}
					}
					if !differ {
						res.EngineErrors = append(res.EngineErrors, "hash-law counterexample does not reproduce: "+f.GoValue)
						break
					}
					f.Expected = "equal hashes"
					res.Findings = append(res.Findings, f)
					break
				}
				got, pan := nativeEqual(gx, gy)
				switch {
				case pan != nil:
					f.Kind, f.Observed = "panic", fmt.Sprint(pan)
				case got != want:
					f.Kind, f.Observed = "equal-mismatch", fmt.Sprint(got)
				default:
					res.EngineErrors = append(res.EngineErrors, fmt.Sprintf("counterexample does not reproduce: engine=%s x=%s y=%s", desc, DescribeGo(gx), DescribeGo(gy)))
					m.S.Pop()
					return
				}
				res.Findings = append(res.Findings, f)
			}
		}
		m.S.Pop()
	})
	res.Paths = m.Stats.Paths
	res.Forks = m.Stats.Forks
	res.Steps = m.Stats.Steps
	if m.Stats.PathsCapped {
		res.Inconclusive = append(res.Inconclusive, "path budget exceeded")
	}
	res.Solver = w.S.Stats
	res.Solver.Queries -= solver0.Queries
	res.Solver.Time -= solver0.Time
	if os.Getenv("SYMGO_PROGRESS") != "" {
		fmt.Fprintf(os.Stderr, "solver: check %.1fs models %d in %.1fs\n", res.Solver.Time.Seconds(), w.S.Stats.Models, w.S.Stats.ModelTime.Seconds())
	}
	return res
}

func nativeHashPair(x, y any) (a, b uint64, panicked any) {
	defer func() {
		if r := recover(); r != nil {
			panicked = r
		}
	}()
	a, b = jsonschema.VerifHashPairSeed(maphash.MakeSeed(), x, y)
	return
}

func intTermOf(m *sx.Machine, v sx.Value) *smt.Term {
	switch v := v.(type) {
	case sx.SymInt:
		return v.T
	case int64:
		return m.Ctx.Int(v)
	case uint64:
		return m.Ctx.BigInt(newBigU(v))
	}
	panic(fmt.Sprintf("intTermOf %T", v))
}
