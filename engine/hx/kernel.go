package hx

import (
	"encoding/json"
	"fmt"
	"math/big"
	"reflect"
	"strings"
	"time"

	"github.com/google/jsonschema-go/jsonschema"

	"verif/engine/refsem"
	"verif/engine/smt"
	"verif/engine/sx"
)

// A kernel is an in-package Go function of the overlay file that returns true when the
// property holds on its arguments. The engine executes it from its SSA with symbolic
// arguments; the solver must show that "returns false" (or a panic) is infeasible on
// every path; a counterexample is replayed by calling the same function natively.

// ArgSpec describes one symbolic kernel argument.
type ArgSpec struct {
	Kind     string // "string", "int", "bool", "concrete"
	Len      int    // strings: exact byte length
	Alphabet string // strings: admissible bytes ("" = any byte 0..127)
	Lo, Hi   int64  // ints
	Value    any    // concrete arguments (native Go value: string, int, bool)
}

type KernelCase struct {
	AllOrders          bool // fork over map iteration orders
	SchemaMarshalsTrue bool // json.Marshal of a *Schema value returns the bytes "true" (empty schemas only)
	Name               string
	Func               string // name of the overlay function
	Native             any    // the native function (for replay)
	Args               []ArgSpec
}

type kernelArg struct {
	spec  ArgSpec
	bytes []*smt.Term
	iv    *smt.Term
	bv    *smt.Term
}

func (w *Worker) RunKernel(kc *KernelCase, property string) *SkelResult {
	t0 := time.Now()
	res := &SkelResult{Skeleton: kc.Name}
	defer func() { res.Elapsed = time.Since(t0) }()
	m := w.NewMachine()
	m.AllOrders = kc.AllOrders
	if kc.SchemaMarshalsTrue {
		m.JSONMarshalHook = func(m *sx.Machine, args []sx.Value) (sx.Value, bool) {
			x := args[0].(sx.Iface)
			if x.T != nil && x.T.String() == "*"+m.P.Path+".Schema" {
				if pv, ok := x.V.(*sx.Value); ok && pv != nil {
					if st, ok := (*pv).(sx.Struct); ok {
						if idx := sx.FieldIndex(m.P.NamedType("Schema"), "Title"); idx >= 0 && st[idx] == jsonschema.VerifFailTitle {
							return sx.Tuple{[]sx.Value(nil), m.NewError("json: unsupported type: func()")}, true
						}
					}
				}
				return sx.Tuple{[]sx.Value{uint64('t'), uint64('r'), uint64('u'), uint64('e')}, sx.Iface{}}, true
			}
			return nil, false
		}
	}
	res.Stats = m.Stats
	c := m.Ctx
	var args []*kernelArg
	var engineArgs []sx.Value
	for i, a := range kc.Args {
		ka := &kernelArg{spec: a}
		switch a.Kind {
		case "string":
			bs := &sx.BStr{}
			for j := 0; j < a.Len; j++ {
				v := c.Var(fmt.Sprintf("arg%d.b%d", i, j), smt.SInt)
				m.DeclareRange(v, big.NewInt(0), big.NewInt(255))
				if a.Alphabet == "" {
					m.AddBase(c.InRange(v, big.NewInt(0), big.NewInt(127)))
				} else {
					var alts []*smt.Term
					for k := 0; k < len(a.Alphabet); k++ {
						alts = append(alts, c.Eq(v, c.Int(int64(a.Alphabet[k]))))
					}
					m.AddBase(c.Or(alts...))
				}
				m.WantInModel(v)
				ka.bytes = append(ka.bytes, v)
				bs.B = append(bs.B, sx.SymInt{T: v})
			}
			if a.Len == 0 {
				engineArgs = append(engineArgs, "")
			} else {
				engineArgs = append(engineArgs, bs)
			}
		case "int":
			v := c.Var(fmt.Sprintf("arg%d.i", i), smt.SInt)
			m.AddBase(c.InRange(v, big.NewInt(a.Lo), big.NewInt(a.Hi)))
			m.DeclareRange(v, big.NewInt(a.Lo), big.NewInt(a.Hi))
			m.WantInModel(v)
			ka.iv = v
			engineArgs = append(engineArgs, sx.SymInt{T: v})
		case "bool":
			v := c.Var(fmt.Sprintf("arg%d.b", i), smt.SBool)
			m.WantInModel(v)
			ka.bv = v
			engineArgs = append(engineArgs, v)
		case "concrete":
			switch x := a.Value.(type) {
			case string:
				engineArgs = append(engineArgs, x)
			case int:
				engineArgs = append(engineArgs, int64(x))
			case bool:
				engineArgs = append(engineArgs, x)
			default:
				res.SkelError = fmt.Sprintf("unsupported concrete argument %T", x)
				return res
			}
		}
		args = append(args, ka)
	}
	var fn sx.Value
	func() {
		defer func() {
			if r := recover(); r != nil {
				res.SkelError = fmt.Sprint(r)
			}
		}()
		fn = m.P.Func(kc.Func)
	}()
	if res.SkelError != "" {
		return res
	}
	nativeArgs := func(md Model) []reflect.Value {
		var out []reflect.Value
		for _, ka := range args {
			switch ka.spec.Kind {
			case "string":
				b := make([]byte, len(ka.bytes))
				for j, t := range ka.bytes {
					b[j] = byte(md.Int(t))
				}
				out = append(out, reflect.ValueOf(string(b)))
			case "int":
				out = append(out, reflect.ValueOf(int(md.Int(ka.iv))))
			case "bool":
				out = append(out, reflect.ValueOf(md.Bool(ka.bv)))
			case "concrete":
				out = append(out, reflect.ValueOf(ka.spec.Value))
			}
		}
		return out
	}
	callNative := func(in []reflect.Value) (ok bool, panicked any) {
		defer func() {
			if r := recover(); r != nil {
				panicked = r
			}
		}()
		out := reflect.ValueOf(kc.Native).Call(in)
		return out[0].Bool(), nil
	}
	describe := func(in []reflect.Value) string {
		s := ""
		for i, v := range in {
			if i > 0 {
				s += ", "
			}
			s += fmt.Sprintf("%#v", v.Interface())
		}
		return s
	}
	npath := 0
	m.Explore(func(m *sx.Machine) sx.Value {
		return m.Call(fn, engineArgs...)
	}, func(m *sx.Machine, r *sx.PathResult) {
		if !r.Decisive() {
			res.Inconclusive = append(res.Inconclusive, r.Outcome+": "+r.Msg)
			return
		}
		var bad *smt.Term
		outcome := ""
		if r.Outcome == sx.OutPanic {
			bad, outcome = c.True, "panic"
		} else {
			switch b := r.Ret.(type) {
			case bool:
				bad = c.Bool(!b)
				outcome = fmt.Sprint(b)
				if b {
					res.SawNil = true
				} else {
					res.SawErr = true
				}
			case *smt.Term:
				bad = c.Not(b)
				outcome = "symbolic"
			default:
				res.Inconclusive = append(res.Inconclusive, fmt.Sprintf("kernel returned %T", r.Ret))
				return
			}
		}
		npath++
		if (npath <= 50 || npath%4 == 0) && m.S.Check() == smt.Sat {
			if md, err := GetModel(m); err == nil {
				in := nativeArgs(md)
				ok, pan := callNative(in)
				nat := fmt.Sprint(ok)
				if pan != nil {
					nat = "panic"
				}
				if outcome != "symbolic" && nat != outcome {
					res.EngineErrors = append(res.EngineErrors, fmt.Sprintf("path validation: engine=%s native=%s args=(%s)", outcome, nat, describe(in)))
				} else {
					res.Validated++
					if res.Sample == nil {
						res.Sample = map[string]any{"kernel": kc.Func, "arguments": describe(in), "holds": nat}
					}
				}
			}
		}
		m.S.Push()
		m.S.Assert(bad)
		switch m.S.Check() {
		case smt.Unsat:
			res.VerdictUnsat++
		case smt.Unknown:
			res.VerdictUnknown++
			res.Inconclusive = append(res.Inconclusive, "verdict query unknown: "+m.S.LastError)
		case smt.Sat:
			res.VerdictSat++
			if len(res.Findings) >= 5 {
				break
			}
			md, err := GetModel(m)
			if err != nil {
				res.EngineErrors = append(res.EngineErrors, err.Error())
				break
			}
			in := nativeArgs(md)
			ok, pan := callNative(in)
			if kc.AllOrders {
				// the engine chose a map iteration order; natively the order is random: repeat
				for try := 0; try < 60 && ok && pan == nil; try++ {
					ok, pan = callNative(in)
				}
			}
			f := Finding{Property: property, Skeleton: kc.Name, Family: "kernel", Doc: kc.Func, GoValue: describe(in), Instance: describe(in), Expected: "kernel " + kc.Func + " returns true", Detail: kernelArgsJSON(in)}
			switch {
			case pan != nil:
				f.Kind, f.Observed = "panic", fmt.Sprint(pan)
			case !ok:
				f.Kind, f.Observed = "kernel-false", "returns false"
			default:
				res.EngineErrors = append(res.EngineErrors, fmt.Sprintf("counterexample does not reproduce: engine=%s args=(%s)", outcome, describe(in)))
				m.S.Pop()
				return
			}
			res.Findings = append(res.Findings, f)
		}
		m.S.Pop()
	})
	res.Paths = m.Stats.Paths
	res.Forks = m.Stats.Forks
	res.Steps = m.Stats.Steps
	if m.Stats.PathsCapped {
		res.Inconclusive = append(res.Inconclusive, "path budget exceeded")
	}
	res.Solver = w.S.Stats
	return res
}

// RunKernels runs kernel cases on the worker pool and folds them into the report.
func (cc *CheckCtx) RunKernels(r *Report, cases []*KernelCase) {
	skels := make([]*Skeleton, len(cases))
	byName := map[string]*KernelCase{}
	for i, k := range cases {
		skels[i] = &Skeleton{Name: k.Name, Family: "kernel:" + k.Func}
		byName[k.Name] = k
	}
	skels, results := RunSkeletons(cc.P, skels, cc.Workers, cc.Timeout, func(w *Worker, sk *Skeleton) *SkelResult {
		return w.RunKernel(byName[sk.Name], cc.ID)
	})
	for i, s := range results {
		for j := range s.Findings {
			s.Findings[j].Class = ClassifyFinding(s.Findings[j])
		}
		r.AddSkel(skels[i], s)
	}
}

func strArg(n int, alphabet string) ArgSpec {
	return ArgSpec{Kind: "string", Len: n, Alphabet: alphabet}
}
func conArg(v any) ArgSpec { return ArgSpec{Kind: "concrete", Value: v} }

func init() {
	Checks["C17"] = func(cc *CheckCtx, r *Report) {
		maxK, maxP := 4, 5
		if cc.Thorough() {
			maxK, maxP = 6, 7
		}
		var cases []*KernelCase
		for n := 0; n <= maxK; n++ {
			cases = append(cases, &KernelCase{Name: fmt.Sprintf("K1.escape-roundtrip.len%d", n), Func: "VerifKernelEscapeRoundTrip", Native: jsonschema.VerifKernelEscapeRoundTrip, Args: []ArgSpec{strArg(n, "")}})
		}
		for n := 0; n <= maxP; n++ {
			cases = append(cases, &KernelCase{Name: fmt.Sprintf("K1.parse.len%d", n), Func: "VerifKernelParse", Native: jsonschema.VerifKernelParse, Args: []ArgSpec{strArg(n, "a01~/-+")}})
		}
		for n := 0; n <= 3; n++ {
			cases = append(cases, &KernelCase{Name: fmt.Sprintf("K1.noslash.len%d", n), Func: "VerifKernelParseNoSlash", Native: jsonschema.VerifKernelParseNoSlash, Args: []ArgSpec{strArg(n, "a~/0")}})
		}
		// K2: the typed walk on a maximal schema; first segment ranges concretely over every JSON name
		// of a Schema field plus non-keywords, second segment symbolic
		seg1s := []string{"title", "type", "required", "enum", "const", "$ref", "unknown", "Properties", "items~0", ""}
		for _, nf := range jsonschema.VerifSchemaFieldNames() {
			for i := 0; i < len(nf); i++ {
				if nf[i] == '=' {
					seg1s = append(seg1s, nf[:i])
					break
				}
			}
		}
		seen := map[string]bool{}
		maxS := 2
		if cc.Thorough() {
			maxS = 3
		}
		for variant := 0; variant < 2; variant++ {
			for _, s1 := range seg1s {
				key := fmt.Sprintf("%d|%s", variant, s1)
				if seen[key] {
					continue
				}
				seen[key] = true
				cases = append(cases, &KernelCase{Name: fmt.Sprintf("K2.v%d.%s", variant, s1), Func: "VerifKernelDeref", Native: jsonschema.VerifKernelDeref,
					Args: []ArgSpec{conArg(variant), conArg(s1), conArg(false), conArg("")}})
				for n := 0; n <= maxS; n++ {
					cases = append(cases, &KernelCase{Name: fmt.Sprintf("K2.v%d.%s.seg2len%d", variant, s1, n), Func: "VerifKernelDeref", Native: jsonschema.VerifKernelDeref,
						Args: []ArgSpec{conArg(variant), conArg(s1), conArg(true), strArg(n, "a01~-+%n ot9")}})
				}
			}
		}
		// array indices on the long array (12 members): every 1..3-character segment over digits, sign, underscore, letters
		for n := 1; n <= 3; n++ {
			cases = append(cases, &KernelCase{Name: fmt.Sprintf("K2.v0.anyOf.index-len%d", n), Func: "VerifKernelDeref", Native: jsonschema.VerifKernelDeref,
				Args: []ArgSpec{conArg(0), conArg("anyOf"), conArg(true), strArg(n, "0129_+-xXbo ")}})
		}
		// very long digit strings: an index beyond every integer type still designates nothing
		for _, pre := range []string{"1844674407370955161", "3689348814741910323", "922337203685477580", "429496729", "4294967296"} {
			for n := 1; n <= 2; n++ {
				cases = append(cases, &KernelCase{Name: fmt.Sprintf("K2.v0.anyOf.bigindex.%s+len%d", pre, n), Func: "VerifKernelDerefBigIndex", Native: jsonschema.VerifKernelDerefBigIndex,
					Args: []ArgSpec{conArg(pre), strArg(n, "0123456789")}})
			}
		}
		// symbolic first segment (short), no second segment
		for n := 0; n <= 3; n++ {
			cases = append(cases, &KernelCase{Name: fmt.Sprintf("K2.seg1len%d", n), Func: "VerifKernelDeref", Native: jsonschema.VerifKernelDeref,
				Args: []ArgSpec{conArg(0), strArg(n, "ifnot~01$"), conArg(false), conArg("")}})
		}
		cc.RunKernels(r, cases)
		// K3: end to end through Resolve with percent-encoded fragments
		ptr := append(FamilyPtr(refsem.Draft2020), FamilyPtr(refsem.Draft7)...)
		cc.RunValidateFamily(r, ptr, VOptions{ValidatePaths: true})
		r.Bounds = append(r.Bounds, "K3: for every subschema location of a maximal document of each draft (same key pool plus keys needing percent-encoding) the reference '#'+percent-encoded pointer is resolved natively and Validate is compared with the independent RFC 6901 resolver on a symbolic instance; 16 invalid or dangling pointers per draft must make Resolve fail")
		r.Outside = append(r.Outside, "percent-decoding itself is net/url's (native, concrete strings); pointers with more than two symbolic segments")
		r.Bounds = append(r.Bounds, fmt.Sprintf("K2: dereferenceJSONPointer on a maximal schema of either draft shape (every subschema-bearing keyword populated, map keys incl. \"\", /, ~, ~0, ~1, %%, space, non-ASCII, digits, -, 01, +1): first segment = every JSON field name and some non-keywords (enumerated), second segment = all strings of length <= %d over {a,0,1,9,~,-,+,%%,n,o,t,space}, and for the 12-member array anyOf all index strings of length <= 3 over {0,1,2,9,_,+,-,x,X,b,o,space} and the digit strings around 2^31, 2^32, 2^63, 2^64 and 2^65 (concrete prefix + 1..2 symbolic digits); result must be the subschema RFC 6901 designates, else an error", maxS))
		r.Bounds = append(r.Bounds, fmt.Sprintf("K1: escape/unescape/parse on all byte strings (bytes 0..127) of length <= %d and all pointers over the alphabet {a,0,1,~,/,-,+} of length <= %d, executed from the real SSA incl. the strings.Replacer contract model built from the package initialiser's arguments", maxK, maxP))
	}
}

func boolArg() ArgSpec { return ArgSpec{Kind: "bool"} }

func init() {
	Checks["C19"] = func(cc *CheckCtx, r *Report) {
		maxO := 3
		if cc.Thorough() {
			maxO = 5
		}
		var cases []*KernelCase
		for n := 0; n <= maxO; n++ {
			cases = append(cases, &KernelCase{Name: fmt.Sprintf("order.len%d", n), Func: "VerifKernelPropertyOrder", Native: jsonschema.VerifKernelPropertyOrder, AllOrders: true, SchemaMarshalsTrue: true,
				Args: []ArgSpec{boolArg(), boolArg(), boolArg(), boolArg(), strArg(n, "abcBz")}})
		}
		for n := 0; n <= 2; n++ {
			cases = append(cases, &KernelCase{Name: fmt.Sprintf("order-after-failed-marshal.len%d", n), Func: "VerifKernelPropertyOrderAfterFailure", Native: jsonschema.VerifKernelPropertyOrderAfterFailure, AllOrders: true, SchemaMarshalsTrue: true,
				Args: []ArgSpec{boolArg(), boolArg(), boolArg(), boolArg(), strArg(n, "abcBz")}})
		}
		cc.RunKernels(r, cases)
		cc.RunMarshalPurityFamily(r) // the same Schema value marshals to the same bytes again: Marshal must not have changed it
		r.Bounds = append(r.Bounds, "the same kernel after a Marshal that failed half-way (order lists of length <= 2): nothing of the failed call may be visible (sync.Pool modelled as returning any object put back earlier or a fresh one)")
		r.Bounds = append(r.Bounds, fmt.Sprintf("real SSA of orderedProperties.MarshalJSON and basicChecks: properties = every subset of {a,b,a!,B} (symbolic presence; b and B differ only in case, a is a prefix of a! and '!' sorts below the quote), PropertyOrder = every sequence of length <= %d over these names and z (z names no property; duplicates allowed), every map iteration order; json.Marshal of the (empty) property schemas is stubbed to the bytes `true`", maxO))
		r.Outside = append(r.Outside, "determinism of the rest of Marshal (encoding/json sorts map keys; its body is not encoded); nested schemas with their own PropertyOrder beyond one level")
	}
}

// kernelNatives maps overlay kernel names to the native functions (for `bin/check replay`).
var kernelNatives = map[string]any{
	"VerifKernelDeref":                     jsonschema.VerifKernelDeref,
	"VerifKernelDerefBigIndex":             jsonschema.VerifKernelDerefBigIndex,
	"VerifKernelEqualAliased":              jsonschema.VerifKernelEqualAliased,
	"VerifKernelEscapeRoundTrip":           jsonschema.VerifKernelEscapeRoundTrip,
	"VerifKernelParse":                     jsonschema.VerifKernelParse,
	"VerifKernelParseNoSlash":              jsonschema.VerifKernelParseNoSlash,
	"VerifKernelPropertyOrder":             jsonschema.VerifKernelPropertyOrder,
	"VerifKernelPropertyOrderAfterFailure": jsonschema.VerifKernelPropertyOrderAfterFailure,
	"VerifKernelSchemaVersion":             jsonschema.VerifKernelSchemaVersion,
	"VerifKernelUniqueMixedReps":           jsonschema.VerifKernelUniqueMixedReps,
}

func kernelArgsJSON(in []reflect.Value) string {
	var args []any
	for _, v := range in {
		args = append(args, v.Interface())
	}
	b, _ := json.Marshal(args)
	return "args=" + string(b)
}

// replayKernel calls the native kernel with the recorded arguments (repeatedly: some kernels
// depend on map iteration order) and reports whether it returns false or panics.
func replayKernel(f Finding) int {
	fn, ok := kernelNatives[f.Doc]
	if !ok || !strings.HasPrefix(f.Detail, "args=") {
		return -1
	}
	var raw []any
	if err := json.Unmarshal([]byte(f.Detail[len("args="):]), &raw); err != nil {
		return -1
	}
	ft := reflect.TypeOf(fn)
	if ft.NumIn() != len(raw) {
		return -1
	}
	in := make([]reflect.Value, len(raw))
	for i, a := range raw {
		switch ft.In(i).Kind() {
		case reflect.Int:
			x, _ := a.(float64)
			in[i] = reflect.ValueOf(int(x))
		case reflect.Bool:
			x, _ := a.(bool)
			in[i] = reflect.ValueOf(x)
		case reflect.String:
			x, _ := a.(string)
			in[i] = reflect.ValueOf(x)
		default:
			return -1
		}
	}
	fmt.Printf("kernel %s(%s)\n", f.Doc, f.GoValue)
	for try := 0; try < 100; try++ {
		res, pan := func() (ok bool, pan any) {
			defer func() {
				if r := recover(); r != nil {
					pan = r
				}
			}()
			return reflect.ValueOf(fn).Call(in)[0].Bool(), nil
		}()
		if pan != nil {
			fmt.Println("panics:", pan, "\nREPRODUCED")
			return 0
		}
		if !res {
			fmt.Println("returns false (the property encoded by the kernel does not hold for these arguments)\nREPRODUCED")
			return 0
		}
	}
	fmt.Println("returns true on 100 calls: not reproduced")
	return 1
}
