package hx

import (
	"encoding/json"
	"fmt"
	"math"
	"math/big"
	"strconv"
	"strings"
	"time"

	"github.com/google/jsonschema-go/jsonschema"

	"verif/engine/smt"
	"verif/engine/sx"
)

// C05(a): integer.UnmarshalJSON. encoding/json's number parsing is a nondeterministic
// stub with contract: for a literal with a decimal point, json.Unmarshal into *float64
// yields an arbitrary finite float64 F (or an error when the text is not a number); for a
// literal without one, json.Unmarshal into *int64 yields an arbitrary int64 I (or an
// error when the text is not an int64 literal). Specification: the call succeeds and
// stores v exactly when the literal denotes the integer v within int32.
func (w *Worker) RunIntegerKernel(hasDot bool, property string) *SkelResult {
	t0 := time.Now()
	name := fmt.Sprintf("integer.UnmarshalJSON.dot=%v", hasDot)
	res := &SkelResult{Skeleton: name}
	defer func() { res.Elapsed = time.Since(t0) }()
	m := w.NewMachine()
	res.Stats = m.Stats
	c := m.Ctx
	tm := &sx.Tmpl{Depth: 0, Exps: []int{-1074, -52, -30, -4, -3, -2, -1, 0, 1, 2, 3, 4, 10, 11, 12, 30, 31, 32, 52, 60, 63, 64, 970}}
	fnode := m.NewNode("F", tm)
	m.AddBase(fnode.TagIs(sx.TagNumber))
	iv := c.Var("I", smt.SInt)
	m.AddBase(c.InRange(iv, big.NewInt(math.MinInt64), big.NewInt(math.MaxInt64)))
	m.DeclareRange(iv, big.NewInt(math.MinInt64), big.NewInt(math.MaxInt64))
	m.WantInModel(iv)
	perr := c.Var("parseError", smt.SBool)
	m.WantInModel(perr)
	m.JSONUnmarshalHook = func(m *sx.Machine, args []sx.Value) (sx.Value, bool) {
		dst := args[1].(sx.Iface)
		cell := dst.V.(*sx.Value)
		if m.Branch(perr, "json-parse-error") {
			return m.P.ErrorValue("parse error"), true
		}
		switch dst.T.String() {
		case "*float64":
			*cell = fnode.Float()
		case "*int64":
			*cell = sx.SymInt{T: iv}
		default:
			return nil, false
		}
		return sx.Iface{}, true
	}
	data := "10"
	if hasDot {
		data = "1.0"
	}
	var fn sx.Value
	func() {
		defer func() {
			if r := recover(); r != nil {
				res.SkelError = fmt.Sprint(r)
			}
		}()
		fn = m.P.Func("(*integer).UnmarshalJSON")
	}()
	if res.SkelError != "" {
		return res
	}
	lo32, hi32 := big.NewInt(math.MinInt32), big.NewInt(math.MaxInt32)
	fl := fnode.Float()
	var spec *smt.Term // "the literal denotes an integer within int32"
	var litVal *smt.Term
	if hasDot {
		spec = c.And(c.Not(perr), fl.IsInt, c.Le(c.Rat(new(big.Rat).SetInt(lo32)), fl.R), c.Le(fl.R, c.Rat(new(big.Rat).SetInt(hi32))))
		litVal = fl.R
	} else {
		spec = c.And(c.Not(perr), c.InRange(iv, lo32, hi32))
		litVal = c.ToReal(iv)
	}
	literal := func(md Model) string {
		if md.Bool(perr) {
			if hasDot {
				return `"a.b"`
			}
			return `99999999999999999999`
		}
		if hasDot {
			f := math.Ldexp(float64(md.Int(fnode.Mant)), tm.Exps[md.Int(fnode.Esel)])
			s := strconv.FormatFloat(f, 'f', -1, 64)
			if !strings.Contains(s, ".") {
				s += ".0"
			}
			return s
		}
		return md.Big(iv).String()
	}
	nativeRun := func(lit string) (int32, error, any) {
		var holder struct {
			MinLength *int `json:"minLength"`
		}
		_ = holder
		var s jsonschema.Schema
		var pan any
		var err error
		func() {
			defer func() { pan = recover() }()
			err = json.Unmarshal([]byte(`{"minLength":`+lit+`}`), &s)
		}()
		if err != nil || pan != nil || s.MinLength == nil {
			return 0, err, pan
		}
		return int32(*s.MinLength), nil, nil
	}
	npath := 0
	m.Explore(func(m *sx.Machine) sx.Value {
		cell := new(sx.Value)
		*cell = int64(0)
		r := m.Call(fn, cell, bytesToEngineValues(data))
		m.Scratch["stored"] = *cell
		return r
	}, func(m *sx.Machine, r *sx.PathResult) {
		v := VerdictOf(r)
		if v == VInconclusive {
			res.Inconclusive = append(res.Inconclusive, r.Outcome+": "+r.Msg)
			return
		}
		var bad *smt.Term
		switch v {
		case VNil:
			res.SawNil = true
			stored := intTermOf(m, m.Scratch["stored"])
			bad = c.Or(c.Not(spec), c.Ne(c.ToReal(stored), litVal))
		case VErr:
			res.SawErr = true
			bad = spec
		default:
			bad = c.True
		}
		npath++
		if m.S.Check() == smt.Sat {
			if md, err := GetModel(m); err == nil {
				lit := literal(md)
				_, nerr, pan := nativeRun(lit)
				nv := VNil
				if pan != nil {
					nv = VPanic
				} else if nerr != nil {
					nv = VErr
				}
				if nv != v {
					res.EngineErrors = append(res.EngineErrors, fmt.Sprintf("path validation: engine=%s native=%s literal=%s", v, nv, lit))
				} else {
					res.Validated++
					if res.Sample == nil {
						res.Sample = map[string]any{"kernel": name, "literal": lit, "outcome": v.String()}
					}
				}
			}
		}
		m.S.Push()
		m.S.Assert(bad)
		switch m.S.Check() {
		case smt.Unsat:
			res.VerdictUnsat++
		case smt.Unknown:
			if secondLookUnsat(m) {
				res.VerdictUnsat++
				res.SecondOpinion++
				break
			}
			res.VerdictUnknown++
			res.Inconclusive = append(res.Inconclusive, "verdict query unknown: "+m.S.LastError)
		case smt.Sat:
			res.VerdictSat++
			md, err := GetModel(m)
			if err != nil {
				res.EngineErrors = append(res.EngineErrors, err.Error())
				break
			}
			lit := literal(md)
			got, nerr, pan := nativeRun(lit)
			// concrete specification on the literal
			want := false
			var wantV int64
			if r, ok := new(big.Rat).SetString(lit); ok && r.IsInt() && r.Num().IsInt64() && r.Num().Int64() >= math.MinInt32 && r.Num().Int64() <= math.MaxInt32 && !strings.ContainsAny(lit, "eE\"") {
				want, wantV = true, r.Num().Int64()
			}
			f := Finding{Property: property, Skeleton: name, Family: "kernel", Doc: `{"minLength": ` + lit + `}`, Instance: lit, GoValue: lit}
			switch {
			case pan != nil:
				f.Kind, f.Observed, f.Expected = "panic", fmt.Sprint(pan), "a value or an error"
			case (nerr == nil) != want:
				f.Kind, f.Observed, f.Expected = "integer-keyword-mismatch", fmt.Sprintf("err=%v", nerr), fmt.Sprintf("accepted=%v", want)
			case want && int64(got) != wantV:
				f.Kind, f.Observed, f.Expected = "integer-keyword-mismatch", fmt.Sprint(got), fmt.Sprint(wantV)
			default:
				res.EngineErrors = append(res.EngineErrors, fmt.Sprintf("counterexample does not reproduce: engine=%s literal=%s", v, lit))
				m.S.Pop()
				return
			}
			res.Findings = append(res.Findings, f)
		}
		m.S.Pop()
	})
	res.Paths = m.Stats.Paths
	res.Forks = m.Stats.Forks
	res.Steps = m.Stats.Steps
	res.Solver = w.S.Stats
	return res
}

func bytesToEngineValues(s string) []sx.Value {
	out := make([]sx.Value, len(s))
	for i := 0; i < len(s); i++ {
		out[i] = uint64(s[i])
	}
	return out
}

// C05(b): the struct+map splice and the true/false folding of Schema.MarshalJSON, run
// from the real SSA with encoding/json's Marshal replaced by its contract: the struct
// marshals to "{" X "}" and a non-empty Extra to "{" Y "}" for arbitrary byte strings X, Y.
func (w *Worker) RunSpliceKernel(xLen int, xConcrete string, withExtra bool, yLen int, property string) *SkelResult {
	t0 := time.Now()
	name := fmt.Sprintf("MarshalJSON.splice.x%d%q.extra=%v.y%d", xLen, xConcrete, withExtra, yLen)
	res := &SkelResult{Skeleton: name}
	defer func() { res.Elapsed = time.Since(t0) }()
	m := w.NewMachine()
	res.Stats = m.Stats
	c := m.Ctx
	mkBytes := func(prefix string, n int) ([]sx.Value, []*smt.Term) {
		var vs []sx.Value
		var ts []*smt.Term
		for i := 0; i < n; i++ {
			v := c.Var(fmt.Sprintf("%s%d", prefix, i), smt.SInt)
			m.AddBase(c.InRange(v, big.NewInt(0x20), big.NewInt(0x7e)))
			m.DeclareRange(v, big.NewInt(0), big.NewInt(255))
			m.WantInModel(v)
			vs = append(vs, sx.SymInt{T: v})
			ts = append(ts, v)
		}
		return vs, ts
	}
	var xs []sx.Value
	var xt []*smt.Term
	if xConcrete != "" {
		xs = bytesToEngineValues(xConcrete)
	} else {
		xs, xt = mkBytes("x", xLen)
	}
	ys, _ := mkBytes("y", yLen)
	_ = xt
	structBytes := append(append([]sx.Value{uint64('{')}, xs...), uint64('}'))
	mapBytes := append(append([]sx.Value{uint64('{')}, ys...), uint64('}'))
	m.JSONMarshalHook = func(m *sx.Machine, args []sx.Value) (sx.Value, bool) {
		x := args[0].(sx.Iface)
		if x.T == nil {
			return nil, false
		}
		if strings.HasPrefix(x.T.String(), "map[string]") {
			return sx.Tuple{append([]sx.Value{}, mapBytes...), sx.Iface{}}, true
		}
		if strings.HasPrefix(x.T.String(), "struct{") {
			return sx.Tuple{append([]sx.Value{}, structBytes...), sx.Iface{}}, true
		}
		return nil, false
	}
	s := &jsonschema.Schema{Title: "t"}
	if withExtra {
		s.Extra = map[string]any{"x-k": 1.0}
	}
	var fn sx.Value
	func() {
		defer func() {
			if r := recover(); r != nil {
				res.SkelError = fmt.Sprint(r)
			}
		}()
		fn = m.P.Func("(Schema).MarshalJSON")
	}()
	if res.SkelError != "" {
		return res
	}
	expected := func() []sx.Value {
		var inner []sx.Value
		switch {
		case !withExtra:
			inner = xs
		case len(xs) == 0:
			inner = ys
		default:
			inner = append(append(append([]sx.Value{}, xs...), uint64(',')), ys...)
		}
		return append(append([]sx.Value{uint64('{')}, inner...), uint64('}'))
	}()
	m.Explore(func(m *sx.Machine) sx.Value {
		im := sx.NewImporter(m)
		sv := im.ImportStruct(s)
		return m.Call(fn, sv)
	}, func(m *sx.Machine, r *sx.PathResult) {
		if !r.Decisive() {
			res.Inconclusive = append(res.Inconclusive, r.Outcome+": "+r.Msg)
			return
		}
		if r.Outcome == sx.OutPanic {
			res.VerdictSat++
			res.Findings = append(res.Findings, Finding{Property: property, Kind: "panic", Skeleton: name, Expected: "bytes", Observed: r.Msg})
			return
		}
		tu := r.Ret.(sx.Tuple)
		if tu[1].(sx.Iface).T != nil {
			res.VerdictSat++
			res.Findings = append(res.Findings, Finding{Property: property, Kind: "splice-mismatch", Skeleton: name, Expected: "no error", Observed: "error"})
			return
		}
		got := tu[0].([]sx.Value)
		// folding: "{}" -> true, {"not":true} -> false
		want := expected
		isConcrete := func(bs []sx.Value, s string) bool {
			if len(bs) != len(s) {
				return false
			}
			for i := range bs {
				if b, ok := bs[i].(uint64); !ok || byte(b) != s[i] {
					return false
				}
			}
			return true
		}
		if isConcrete(expected, "{}") {
			want = bytesToEngineValues("true")
		}
		if isConcrete(expected, `{"not":true}`) {
			want = bytesToEngineValues("false")
		}
		var bad *smt.Term
		if len(got) != len(want) {
			// lengths are concrete: a symbolic X could still spell {"not":true} only if it has that length
			bad = c.True
			if len(expected) == len(`{"not":true}`) && len(got) == len("false") {
				// legitimate when X spells "not":true exactly
				var eqs []*smt.Term
				for i, ch := range []byte(`{"not":true}`) {
					eqs = append(eqs, c.Eq(intTermOf(m, expected[i]), c.Int(int64(ch))))
				}
				bad = c.Not(c.And(eqs...))
			}
		} else {
			var eqs []*smt.Term
			for i := range got {
				eqs = append(eqs, c.Eq(intTermOf(m, got[i]), intTermOf(m, want[i])))
			}
			bad = c.Not(c.And(eqs...))
			if len(expected) == len(`{"not":true}`) && !isConcrete(expected, `{"not":true}`) {
				// when X spells "not":true the result must have been folded, i.e. this path is then wrong
				var eqs2 []*smt.Term
				for i, ch := range []byte(`{"not":true}`) {
					eqs2 = append(eqs2, c.Eq(intTermOf(m, expected[i]), c.Int(int64(ch))))
				}
				bad = c.Or(bad, c.And(eqs2...))
			}
		}
		m.S.Push()
		m.S.Assert(bad)
		switch m.S.Check() {
		case smt.Unsat:
			res.VerdictUnsat++
			res.SawNil = true
		case smt.Unknown:
			res.VerdictUnknown++
			res.Inconclusive = append(res.Inconclusive, "verdict query unknown: "+m.S.LastError)
		case smt.Sat:
			res.VerdictSat++
			res.Findings = append(res.Findings, Finding{Property: property, Kind: "splice-mismatch", Skeleton: name, Expected: "{X,Y} / {X} / {Y} with true/false folding", Observed: "different bytes (engine-level finding; the stubbed encoding/json cannot be replayed natively)"})
		}
		m.S.Pop()
	})
	res.Paths = m.Stats.Paths
	res.Forks = m.Stats.Forks
	res.Steps = m.Stats.Steps
	res.Solver = w.S.Stats
	if res.Sample == nil {
		res.Sample = map[string]any{"kernel": name, "struct_bytes": "{X}", "map_bytes": "{Y}"}
	}
	return res
}
