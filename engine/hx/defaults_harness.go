package hx

import (
	"encoding/json"
	"fmt"
	"go/types"
	"reflect"
	"sort"
	"time"

	"github.com/google/jsonschema-go/jsonschema"

	"verif/engine/refsem"
	"verif/engine/smt"
	"verif/engine/sx"
)

type defaultsEffect struct {
	node     *sx.Node
	key      string
	kept     bool // the entry is the untouched original child
	exported string
}

func collectEffects(m *sx.Machine) []defaultsEffect {
	var out []defaultsEffect
	for _, n := range m.Nodes() {
		keys, vals := m.OverlayEntries(n)
		for i, k := range keys {
			e := defaultsEffect{node: n, key: k}
			if iv, ok := vals[i].(sx.Iface); ok && iv.T == m.P.NodeT {
				if child, ok := iv.V.(*sx.Node); ok {
					if idx := n.KeyIndex(k); idx >= 0 && n.Val(idx) == child {
						e.kept = true
					}
				}
			}
			if !e.kept {
				b, _ := json.Marshal(sx.ExportJSON(vals[i]))
				e.exported = string(b)
			}
			out = append(out, e)
		}
	}
	sort.Slice(out, func(i, j int) bool {
		if out[i].node.Name != out[j].node.Name {
			return out[i].node.Name < out[j].node.Name
		}
		return out[i].key < out[j].key
	})
	return out
}

func effectsString(es []defaultsEffect) string {
	s := ""
	for _, e := range es {
		if e.kept {
			s += fmt.Sprintf("%s{%s}=kept;", e.node.Name, e.key)
		} else {
			s += fmt.Sprintf("%s{%s}=%s;", e.node.Name, e.key, e.exported)
		}
	}
	return s
}

func nativeApplyDefaults(rs *jsonschema.Resolved, inst any) (out any, err error, panicked any) {
	defer func() {
		if r := recover(); r != nil {
			panicked = r
		}
	}()
	v := inst
	err = rs.ApplyDefaults(&v)
	return v, err, nil
}

func deepCopyJSON(v any) any {
	switch x := v.(type) {
	case map[string]any:
		out := map[string]any{}
		for k, e := range x {
			out[k] = deepCopyJSON(e)
		}
		return out
	case []any:
		out := make([]any, len(x))
		for i, e := range x {
			out[i] = deepCopyJSON(e)
		}
		return out
	}
	return v
}

func jsonEqual(a, b any) bool {
	ja, _ := json.Marshal(a)
	jb, _ := json.Marshal(b)
	var x, y any
	json.Unmarshal(ja, &x)
	json.Unmarshal(jb, &y)
	return reflect.DeepEqual(x, y)
}

// RunDefaultsSkeleton explores ApplyDefaults (applied twice) on a symbolic instance.
func (w *Worker) RunDefaultsSkeleton(sk *Skeleton, property string) *SkelResult {
	t0 := time.Now()
	res := &SkelResult{Skeleton: sk.Name}
	defer func() { res.Elapsed = time.Since(t0) }()
	rs, _, err := NativeResolve(sk)
	if err != nil {
		res.SkelError = "native resolve: " + err.Error()
		return res
	}
	var doc map[string]any
	if err := json.Unmarshal([]byte(sk.Doc), &doc); err != nil {
		res.SkelError = "F-defaults skeletons must be object schemas"
		return res
	}
	m := w.NewMachine()
	m.TrackShared = true
	m.AllOrders = sk.AllOrders
	res.Stats = m.Stats
	root := m.NewNode("I", sk.Tm)
	var spec []refsem.DefaultInsertion
	refsem.DefaultsSymbolic(m, doc, root, m.Ctx.True, &spec)
	ctx := m.Ctx
	apply := m.P.Func("(*Resolved).ApplyDefaults")
	ptrAny := types.NewPointer(m.P.AnyT())
	m.Explore(func(m *sx.Machine) sx.Value {
		ers := ImportResolved(m, rs, true)
		cell := new(sx.Value)
		*cell = sx.Iface{T: m.P.NodeT, V: root}
		instp := sx.Iface{T: ptrAny, V: cell}
		r1 := m.Call(apply, ers, instp)
		m.Scratch["effects1"] = collectEffects(m)
		r2 := m.Call(apply, ers, instp)
		m.Scratch["effects2"] = collectEffects(m)
		m.Scratch["r2"] = r2
		if iv, ok := (*cell).(sx.Iface); !ok || iv.T != m.P.NodeT || iv.V != sx.Value(root) {
			m.Scratch["rootReplaced"] = true
		}
		return r1
	}, func(m *sx.Machine, r *sx.PathResult) {
		v := VerdictOf(r)
		if v == VInconclusive {
			res.Inconclusive = append(res.Inconclusive, r.Outcome+": "+r.Msg)
			return
		}
		if len(r.SharedWrites) > 0 {
			res.SharedWrites = append(res.SharedWrites, r.SharedWrites...)
		}
		var bads []*smt.Term
		why := ""
		note := func(t *smt.Term, s string) {
			bads = append(bads, t)
			if why == "" && !t.IsFalse() {
				why = s
			}
		}
		if v != VNil {
			note(ctx.True, "ApplyDefaults returned "+v.String())
		} else {
			res.SawNil = true
			e1, _ := m.Scratch["effects1"].([]defaultsEffect)
			e2, _ := m.Scratch["effects2"].([]defaultsEffect)
			if r2, ok := m.Scratch["r2"].(sx.Iface); !ok || r2.T != nil {
				note(ctx.True, "second application returned an error")
			}
			if effectsString(e1) != effectsString(e2) {
				note(ctx.True, "not idempotent: "+effectsString(e1)+" then "+effectsString(e2))
			}
			if m.Scratch["rootReplaced"] != nil {
				note(ctx.True, "top-level instance replaced")
			}
			used := map[int]bool{}
			for _, e := range e1 {
				if e.kept {
					idx := e.node.KeyIndex(e.key)
					note(ctx.Not(e.node.Present[idx]), "kept entry for an absent key")
					continue
				}
				found := false
				for i, sp := range spec {
					if sp.Node == e.node && sp.Key == e.key {
						found = true
						used[i] = true
						note(ctx.Not(sp.Cond), fmt.Sprintf("inserted %s{%s} where the specification does not", e.node.Name, e.key))
						want, _ := json.Marshal(sp.Value)
						var a, b any
						json.Unmarshal(want, &a)
						json.Unmarshal([]byte(e.exported), &b)
						if !reflect.DeepEqual(a, b) {
							note(ctx.True, fmt.Sprintf("inserted value %s for %s{%s}, expected %s", e.exported, e.node.Name, e.key, want))
						}
					}
				}
				if !found {
					note(ctx.True, fmt.Sprintf("inserted %s{%s}=%s which no default justifies", e.node.Name, e.key, e.exported))
				}
			}
			for i, sp := range spec {
				if !used[i] {
					note(sp.Cond, fmt.Sprintf("missing insertion of %s{%s}", sp.Node.Name, sp.Key))
				}
			}
		}
		bad := ctx.Or(bads...)
		m.S.Push()
		m.S.Assert(bad)
		switch m.S.Check() {
		case smt.Unsat:
			res.VerdictUnsat++
			// translator validation on a model of the path
			m.S.Pop()
			if m.S.Check() == smt.Sat {
				if inst, _, err := w.modelInstances(m, root, nil); err == nil {
					got, nerr, pan := nativeApplyDefaults(rs, deepCopyJSON(inst))
					want := refsem.DefaultsComplete(doc, deepCopyJSON(inst))
					if pan != nil || nerr != nil || !jsonEqual(got, want) {
						res.EngineErrors = append(res.EngineErrors, fmt.Sprintf("path validation: native result %s differs from specification %s on %s (engine saw agreement)", canonicalJSON(got), canonicalJSON(want), canonicalJSON(inst)))
					} else {
						res.Validated++
						if res.Sample == nil {
							res.Sample = map[string]any{"skeleton": sk.Name, "schema": json.RawMessage(sk.Doc), "instance": canonicalJSON(inst), "after_ApplyDefaults": canonicalJSON(got)}
						}
					}
				} else {
					res.ValidateSkip++
				}
			}
			return
		case smt.Unknown:
			res.VerdictUnknown++
			res.Inconclusive = append(res.Inconclusive, "verdict query unknown: "+m.S.LastError)
		case smt.Sat:
			res.VerdictSat++
			if len(res.Findings) >= 3 {
				break
			}
			inst, _, err := w.modelInstances(m, root, nil)
			if err != nil {
				res.Inconclusive = append(res.Inconclusive, "counterexample model not realizable: "+err.Error())
				break
			}
			got, nerr, pan := nativeApplyDefaults(rs, deepCopyJSON(inst))
			want := refsem.DefaultsComplete(doc, deepCopyJSON(inst))
			if sk.AllOrders {
				// the engine chose map iteration orders; natively they are random: repeat
				for try := 0; try < 60 && pan == nil && nerr == nil && jsonEqual(got, want); try++ {
					got, nerr, pan = nativeApplyDefaults(rs, deepCopyJSON(inst))
				}
			}
			f := Finding{Property: property, Skeleton: sk.Name, Family: sk.Family, Doc: sk.Doc, Draft: sk.Draft, Instance: canonicalJSON(inst), GoValue: DescribeGo(inst), Expected: canonicalJSON(want), Detail: why}
			switch {
			case pan != nil:
				f.Kind, f.Observed = "panic", fmt.Sprint(pan)
			case nerr != nil:
				f.Kind, f.Observed = "unexpected-error", nerr.Error()
			case !jsonEqual(got, want):
				f.Kind, f.Observed = "defaults-mismatch", canonicalJSON(got)
			default:
				again, _, _ := nativeApplyDefaults(rs, deepCopyJSON(got))
				if !jsonEqual(again, got) {
					f.Kind, f.Observed = "not-idempotent", canonicalJSON(again)
				} else {
					res.EngineErrors = append(res.EngineErrors, "counterexample does not reproduce: "+why+" on "+canonicalJSON(inst))
					m.S.Pop()
					return
				}
			}
			res.Findings = append(res.Findings, f)
		}
		m.S.Pop()
	})
	res.Paths = m.Stats.Paths
	res.Forks = m.Stats.Forks
	res.Steps = m.Stats.Steps
	if m.Stats.PathsCapped {
		res.Inconclusive = append(res.Inconclusive, "path budget exceeded")
	}
	res.Solver = w.S.Stats
	return res
}

// FamilyDefaults: defaults at depths 1-3, with and without required, of each JSON
// type, on object and non-object subschemas.
func FamilyDefaults(thorough bool) []*Skeleton {
	var out []*Skeleton
	add := func(name string, doc J, depth int) {
		d := js(doc)
		sk := &Skeleton{Name: "F-defaults/" + name, Family: "F-defaults", Doc: d, Draft: refsem.Draft2020}
		sk.Tm = TmplFor([]string{d}, depth, 1, 4)
		out = append(out, sk)
	}
	defs := map[string]any{"num": 1.5, "str": "s", "bool": true, "null": nil, "arr": A{1, "x"}, "obj": J{"k": 1}, "emptyobj": J{}}
	for name, d := range defs {
		add("d1."+name, J{"properties": J{"a": J{"default": d}}}, 1)
		add("d1.required."+name, J{"properties": J{"a": J{"default": d}}, "required": A{"a"}}, 1)
	}
	add("d1.two", J{"properties": J{"a": J{"default": 1}, "b": J{"default": "x"}, "c": J{"type": "string"}}, "required": A{"b"}}, 1)
	add("d1.types-list-required", J{"type": A{"object", "null"}, "properties": J{"id": J{"default": 7}, "tag": J{"default": "t"}}, "required": A{"id"}}, 1)
	add("d1.type-string-required", J{"type": "string", "properties": J{"id": J{"default": 7}}, "required": A{"id"}}, 1)
	add("d2.types-list-nested-required", J{"properties": J{"a": J{"type": A{"null", "object"}, "properties": J{"b": J{"default": 2}, "c": J{"default": 3}}, "required": A{"b"}}}}, 2)
	add("d1.typed", J{"type": "object", "properties": J{"a": J{"type": "integer", "default": 7}}}, 1)
	add("d2.nested", J{"properties": J{"a": J{"properties": J{"b": J{"default": 2}}}}}, 2)
	add("d2.nested-parent-default", J{"properties": J{"a": J{"default": J{"x": 1}, "properties": J{"b": J{"default": 2}, "x": J{"default": 9}}}}}, 2)
	add("d2.nested-parent-default-scalar", J{"properties": J{"a": J{"default": 5, "properties": J{"b": J{"default": 2}}}}}, 2)
	add("d2.nested-required-child", J{"properties": J{"a": J{"properties": J{"b": J{"default": 2}}, "required": A{"b"}}}}, 2)
	add("d2.nested-required-parent", J{"properties": J{"a": J{"properties": J{"b": J{"default": 2}}}}, "required": A{"a"}}, 2)
	add("d2.nested-mixed", J{"properties": J{"a": J{"properties": J{"b": J{"default": 2}, "c": J{"default": "z"}}, "required": A{"b"}}, "d": J{"default": false}}}, 2)
	add("d2.nested-nonobject-sub", J{"properties": J{"a": J{"type": "array", "properties": J{"b": J{"default": 2}}}}}, 2)
	add("d2.siblings", J{"properties": J{"a": J{"properties": J{"b": J{"default": 1}}}, "c": J{"properties": J{"b": J{"default": 2}}}}}, 2)
	// the result must not depend on the order in which Go iterates the properties maps
	addOrders := func(name string, doc J, depth int) {
		add(name, doc, depth)
		out[len(out)-1].AllOrders = true
	}
	addOrders("orders.partial-nested-defaults", J{"properties": J{"P": J{"properties": J{"x": J{"type": "integer"}, "y": J{"default": 1}, "z": J{"type": "string"}}}}}, 2)
	addOrders("orders.partial-nested-required", J{"properties": J{"P": J{"properties": J{"x": J{"default": 3}, "y": J{"default": 1}}, "required": A{"x"}}, "Q": J{"default": 2}}}, 2)
	addOrders("orders.two-levels", J{"properties": J{"a": J{"properties": J{"b": J{"type": "null"}, "c": J{"properties": J{"d": J{"default": 2}, "e": J{}}}}}, "f": J{}}}, 3)
	addOrders("orders.mixed", J{"properties": J{"a": J{"properties": J{"b": J{"default": 2}, "c": J{"default": "z"}}, "required": A{"b"}}, "d": J{"default": false}}}, 2)
	if thorough {
		add("d3.chain", J{"properties": J{"a": J{"properties": J{"b": J{"properties": J{"c": J{"default": 3}}}}}}}, 3)
		add("d3.chain-required-leaf", J{"properties": J{"a": J{"properties": J{"b": J{"properties": J{"c": J{"default": 3}}, "required": A{"c"}}}}}}, 3)
		add("d3.chain-mid-default", J{"properties": J{"a": J{"properties": J{"b": J{"default": J{}, "properties": J{"c": J{"default": 3}}}}}}}, 3)
		add("d3.wide", J{"properties": J{"a": J{"properties": J{"b": J{"default": 1}, "c": J{"properties": J{"d": J{"default": 2}}, "required": A{"d"}}}}, "e": J{"default": A{}}}}, 3)
	}
	return out
}

func init() {
	Checks["C15"] = func(cc *CheckCtx, r *Report) {
		skels := FamilyDefaults(cc.Thorough())
		vd, counts := FamilyValidateDefaults()
		skels = append(skels, vd...)
		skels, results := RunSkeletons(cc.P, skels, cc.Workers, cc.Timeout, func(w *Worker, sk *Skeleton) *SkelResult {
			if n, ok := counts[sk.Name]; ok {
				return w.RunValidateDefaults(sk, "C15", n)
			}
			res := w.RunDefaultsSkeleton(sk, "C15")
			if len(res.SharedWrites) > 0 && len(res.Findings) == 0 {
				// ApplyDefaults kept something in the Resolved (or the Schema tree): a later call on
				// another instance can then depend on this one, so the result is no longer a function
				// of schema and instance. Confirmed natively: two fresh instances around a caller's edit.
				detail, changed := nativeDefaultsLeak(sk)
				switch {
				case detail != "":
					res.Findings = append(res.Findings, Finding{Property: "C15", Kind: "defaults-state-leak", Skeleton: sk.Name, Family: sk.Family, Doc: sk.Doc,
						Expected: "the values ApplyDefaults inserts depend only on the schema and the instance", Observed: detail + "; engine: " + res.SharedWrites[0]})
				case changed:
					// state is kept in the Resolved but no later result depends on it here: not a
					// violation of this property (C13 judges the write itself)
				default:
					res.EngineErrors = append(res.EngineErrors, "engine reports a write into the Resolved during ApplyDefaults ("+res.SharedWrites[0]+") that the native before/after comparison does not show")
				}
			}
			return res
		})
		for i, s := range results {
			for j := range s.Findings {
				s.Findings[j].Class = ClassifyFinding(s.Findings[j])
			}
			r.AddSkel(skels[i], s)
		}
		r.Bounds = append(r.Bounds, "F-defaults orders.*: every iteration order of the schema's properties maps (<= 4 keys); ApplyDefaults applied twice per path to a symbolic instance (any JSON type at every position, every subset of the pool keys present; template depth = default nesting depth, <= 4 pool keys); defaults are concrete JSON values of every type; on every path the set of inserted (location, key, value) triples is compared by SMT queries with the specification's insertion conditions")
		r.Bounds = append(r.Bounds, "ValidateDefaults: real SSA of (*Resolved).validateDefaults (schema walk by reflection over the Schema struct, package initialiser run in-engine) with every default value a symbolic JSON value T(1,2,2): it returns nil exactly when every default satisfies the reference semantics of its declaring subschema")
		r.Outside = append(r.Outside, "defaults behind $ref/$dynamicRef and under applicators other than properties (documented as not followed); typed (non-any) instance containers, where the documentation allows a panic")
	}
}

// ---- C15-H2: validateDefaults with symbolic default values

// RunValidateDefaults explores (*Resolved).validateDefaults where every default value
// is a symbolic JSON value: json.Unmarshal of the placeholder text "@D<i>" yields node D<i>.
func (w *Worker) RunValidateDefaults(sk *Skeleton, property string, ndefaults int) *SkelResult {
	t0 := time.Now()
	res := &SkelResult{Skeleton: sk.Name}
	defer func() { res.Elapsed = time.Since(t0) }()
	rs, _, err := NativeResolve(sk)
	if err != nil {
		res.SkelError = "native resolve: " + err.Error()
		return res
	}
	m := w.NewMachine()
	res.Stats = m.Stats
	rr, err := refsem.NewResolver([]byte(sk.Doc), sk.BaseURI, nil, sk.Draft)
	if err != nil {
		res.SkelError = "oracle resolver: " + err.Error()
		return res
	}
	orc := refsem.NewOracle(m, rr)
	ctx := m.Ctx
	nodes := map[string]*sx.Node{}
	var order []*sx.Node
	var specs []*smt.Term
	for _, loc := range rr.RootDoc.AllLocs() {
		mm, ok := loc.V.(map[string]any)
		if !ok {
			continue
		}
		if d, ok := mm["default"].(string); ok && len(d) > 2 && d[:2] == "@D" {
			n := m.NewNode(d[1:], sk.Tm)
			nodes[`"`+d+`"`] = n
			order = append(order, n)
			specs = append(specs, orc.Eval(loc, refsem.NodeInst{M: m, N: n}, nil).OK)
		}
	}
	if orc.Err() != nil {
		res.SkelError = "oracle: " + orc.Err().Error()
		return res
	}
	if len(order) != ndefaults {
		res.SkelError = fmt.Sprintf("expected %d placeholder defaults, found %d", ndefaults, len(order))
		return res
	}
	spec := ctx.And(specs...)
	m.JSONUnmarshalHook = func(m *sx.Machine, args []sx.Value) (sx.Value, bool) {
		bs, ok := args[0].([]sx.Value)
		if !ok {
			return nil, false
		}
		buf := make([]byte, len(bs))
		for i, b := range bs {
			c, ok := b.(uint64)
			if !ok {
				return nil, false
			}
			buf[i] = byte(c)
		}
		n, ok := nodes[string(buf)]
		if !ok {
			return nil, false
		}
		dst := args[1].(sx.Iface)
		*dst.V.(*sx.Value) = sx.Iface{T: m.P.NodeT, V: n}
		// a null default decodes to a nil interface
		return sx.Iface{}, true
	}
	fn := m.P.Func("(*Resolved).validateDefaults")
	nativeRun := func(vals []any) (Verdict, string) {
		doc := sk.Doc
		for i, v := range vals {
			b, _ := json.Marshal(v)
			doc = replaceOnce(doc, fmt.Sprintf(`"@D%d"`, i), string(b))
		}
		sk2 := *sk
		sk2.Doc = doc
		defer func() { recover() }()
		_, _, err := ResolveDoc([]byte(doc), draftDefaultURI(sk.Draft), &jsonschema.ResolveOptions{ValidateDefaults: true})
		if err != nil {
			if len(err.Error()) > 6 && err.Error()[:6] == "PANIC:" {
				return VPanic, err.Error()
			}
			return VErr, err.Error()
		}
		return VNil, ""
	}
	// concrete oracle: each default against its own subschema
	oracleWant := func(vals []any) (want bool, doc string, err error) {
		want = true
		doc = sk.Doc
		for i, v := range vals {
			b, _ := json.Marshal(v)
			doc = replaceOnce(doc, fmt.Sprintf(`"@D%d"`, i), string(b))
		}
		rr2, rerr := refsem.NewResolver([]byte(doc), sk.BaseURI, nil, sk.Draft)
		if rerr != nil {
			return false, doc, rerr
		}
		m2 := sx.NewMachine(m.P, smt.NewCtx(), nil)
		o2 := refsem.NewOracle(m2, rr2)
		for _, loc := range rr2.RootDoc.AllLocs() {
			if mm, ok := loc.V.(map[string]any); ok {
				if d, has := mm["default"]; has {
					if t := o2.Eval(loc, refsem.ConstInst{M: m2, V: d}, nil).OK; !t.IsTrue() {
						want = false
					}
				}
			}
		}
		return want, doc, nil
	}
	npath := 0
	m.Explore(func(m *sx.Machine) sx.Value {
		ers := ImportResolved(m, rs, true)
		return m.Call(fn, ers)
	}, func(m *sx.Machine, r *sx.PathResult) {
		v := VerdictOf(r)
		if v == VInconclusive {
			res.Inconclusive = append(res.Inconclusive, r.Outcome+": "+r.Msg)
			return
		}
		var bad *smt.Term
		switch v {
		case VNil:
			res.SawNil = true
			bad = ctx.Not(spec)
		case VErr:
			res.SawErr = true
			bad = spec
		default:
			bad = ctx.True
		}
		concretize := func() ([]any, error) {
			md, err := GetModel(m)
			if err != nil {
				return nil, err
			}
			sr := NewStringRealizer(m, md)
			var out []any
			for _, n := range order {
				g, err := Concretize(m, md, n, sr)
				if err != nil {
					return nil, err
				}
				out = append(out, g)
			}
			return out, nil
		}
		npath++
		if (npath <= 40 || npath%4 == 0) && m.S.Check() == smt.Sat {
			if vals, err := concretize(); err == nil {
				nv, _ := nativeRun(vals)
				if nv != v {
					// the engine runs validateDefaults itself; natively it is reached through Resolve. If the
					// native outcome also contradicts the specification, Resolve does not validate these
					// defaults as it should: a violation shown by the native run.
					if want, doc, err := oracleWant(vals); err == nil && nv != VPanic && (nv == VNil) != want {
						if len(res.Findings) < 3 {
							res.Findings = append(res.Findings, Finding{Property: property, Kind: "validate-defaults-mismatch", Skeleton: sk.Name, Family: sk.Family, Doc: doc, Draft: sk.Draft, Instance: canonicalJSON(vals), GoValue: DescribeGo(vals),
								Expected: map[bool]string{true: "Resolve(ValidateDefaults) succeeds", false: "Resolve(ValidateDefaults) fails"}[want], Observed: nv.String() + " (validateDefaults itself, run in the engine, gives " + v.String() + ")"})
						}
					} else {
						res.EngineErrors = append(res.EngineErrors, fmt.Sprintf("path validation: engine=%s native=%s defaults=%s", v, nv, canonicalJSON(vals)))
					}
				} else {
					res.Validated++
					if res.Sample == nil {
						res.Sample = map[string]any{"skeleton": sk.Name, "schema": json.RawMessage(sk.Doc), "defaults": canonicalJSON(vals), "resolve_with_ValidateDefaults": v.String()}
					}
				}
			} else {
				res.ValidateSkip++
			}
		}
		m.S.Push()
		m.S.Assert(bad)
		switch m.S.Check() {
		case smt.Unsat:
			res.VerdictUnsat++
		case smt.Unknown:
			res.VerdictUnknown++
			res.Inconclusive = append(res.Inconclusive, "verdict query unknown: "+m.S.LastError)
		case smt.Sat:
			res.VerdictSat++
			if len(res.Findings) >= 3 {
				break
			}
			vals, err := concretize()
			if err != nil {
				res.Inconclusive = append(res.Inconclusive, "counterexample model not realizable: "+err.Error())
				break
			}
			nv, nmsg := nativeRun(vals)
			// concrete oracle: each default against its subschema
			want := true
			doc := sk.Doc
			for i, v := range vals {
				b, _ := json.Marshal(v)
				doc = replaceOnce(doc, fmt.Sprintf(`"@D%d"`, i), string(b))
			}
			rr2, rerr := refsem.NewResolver([]byte(doc), sk.BaseURI, nil, sk.Draft)
			if rerr != nil {
				res.EngineErrors = append(res.EngineErrors, rerr.Error())
				break
			}
			m2 := sx.NewMachine(m.P, smt.NewCtx(), nil)
			o2 := refsem.NewOracle(m2, rr2)
			for _, loc := range rr2.RootDoc.AllLocs() {
				if mm, ok := loc.V.(map[string]any); ok {
					if d, has := mm["default"]; has {
						t := o2.Eval(loc, refsem.ConstInst{M: m2, V: d}, nil).OK
						if !t.IsTrue() {
							want = false
						}
					}
				}
			}
			f := Finding{Property: property, Skeleton: sk.Name, Family: sk.Family, Doc: doc, Draft: sk.Draft, Instance: canonicalJSON(vals), GoValue: DescribeGo(vals), Expected: map[bool]string{true: "Resolve(ValidateDefaults) succeeds", false: "Resolve(ValidateDefaults) fails"}[want]}
			switch {
			case nv == VPanic:
				f.Kind, f.Observed = "panic", nmsg
			case (nv == VNil) != want:
				f.Kind, f.Observed = "validate-defaults-mismatch", nv.String()+" "+trunc(nmsg, 160)
			default:
				res.EngineErrors = append(res.EngineErrors, "counterexample does not reproduce: defaults "+canonicalJSON(vals))
				m.S.Pop()
				return
			}
			res.Findings = append(res.Findings, f)
		}
		m.S.Pop()
	})
	res.Paths = m.Stats.Paths
	res.Forks = m.Stats.Forks
	res.Steps = m.Stats.Steps
	if m.Stats.PathsCapped {
		res.Inconclusive = append(res.Inconclusive, "path budget exceeded")
	}
	res.Solver = w.S.Stats
	return res
}

func replaceOnce(s, old, new string) string {
	for i := 0; i+len(old) <= len(s); i++ {
		if s[i:i+len(old)] == old {
			return s[:i] + new + s[i+len(old):]
		}
	}
	return s
}

// FamilyValidateDefaults: schemas whose defaults are placeholders "@D<i>".
func FamilyValidateDefaults() ([]*Skeleton, map[string]int) {
	var out []*Skeleton
	counts := map[string]int{}
	add := func(name string, doc J, n int) {
		d := js(doc)
		sk := &Skeleton{Name: "F-vdefaults/" + name, Family: "F-vdefaults", Doc: d, Draft: refsem.Draft2020}
		sk.Tm = TmplFor([]string{d}, 1, 2, 2)
		out = append(out, sk)
		counts[sk.Name] = n
	}
	add("root-int", J{"type": "integer", "minimum": 3, "default": "@D0"}, 1)
	add("root-string", J{"type": "string", "maxLength": 2, "default": "@D0"}, 1)
	add("root-enum", J{"enum": A{1, "a", nil}, "default": "@D0"}, 1)
	add("prop", J{"properties": J{"a": J{"type": "boolean", "default": "@D0"}}}, 1)
	add("prop-and-root", J{"type": "object", "required": A{"a"}, "default": "@D0", "properties": J{"a": J{"type": "number", "default": "@D1"}}}, 2)
	add("required-prop-only", J{"required": A{"a"}, "properties": J{"a": J{"type": "integer", "default": "@D0"}}}, 1)
	add("nested-required-prop", J{"properties": J{"o": J{"required": A{"a"}, "properties": J{"a": J{"type": "string", "default": "@D0"}}}}}, 1)
	add("items", J{"items": J{"type": "array", "maxItems": 1, "default": "@D0"}}, 1)
	add("allOf", J{"allOf": A{J{"multipleOf": 2, "default": "@D0"}, J{"not": J{"type": "null"}, "default": "@D1"}}}, 2)
	add("defs", J{"$defs": J{"d": J{"const": "x", "default": "@D0"}}}, 1)
	add("ref-inside", J{"properties": J{"a": J{"$ref": "#/$defs/d", "default": "@D0"}}, "$defs": J{"d": J{"type": "integer"}}}, 1)
	add("object-default", J{"properties": J{"a": J{"type": "object", "properties": J{"b": J{"type": "integer"}}, "additionalProperties": false, "default": "@D0"}}}, 1)
	return out, counts
}

// nativeDefaultsLeak applies the defaults to an empty object, edits every inserted container in
// place, applies them to a second empty object and reports a difference from the first result;
// it also reports a Resolved that differs (deep comparison) after the first call.
func nativeDefaultsLeak(sk *Skeleton) (leak string, changed bool) {
	rs, _, err := NativeResolve(sk)
	if err != nil {
		return "", false
	}
	before := DeepDump(rs)
	a, err1, pan := nativeApplyDefaults(rs, map[string]any{})
	if err1 != nil || pan != nil {
		return "", false
	}
	changed = DeepDump(rs) != before
	want := canonicalJSON(a)
	var scribble func(v any)
	scribble = func(v any) {
		switch v := v.(type) {
		case map[string]any:
			for _, x := range v {
				scribble(x)
			}
			v["verif-edit"] = 99.0
		case []any:
			for i := range v {
				scribble(v[i])
				if _, ok := v[i].(map[string]any); !ok {
					if _, ok := v[i].([]any); !ok {
						v[i] = "verif-edit"
					}
				}
			}
		}
	}
	scribble(a)
	b, err2, pan2 := nativeApplyDefaults(rs, map[string]any{})
	if err2 != nil || pan2 != nil {
		return "", changed
	}
	if got := canonicalJSON(b); got != want {
		return "a second, fresh instance receives " + got + " after the caller edited the first result; the first received " + want, changed
	}
	return "", changed
}
