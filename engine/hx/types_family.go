package hx

import (
	"encoding/json"
	"fmt"
	"log/slog"
	"math/big"
	"reflect"
	"sort"
	"time"

	"github.com/google/jsonschema-go/jsonschema"

	"verif/engine/refsem"
)

// F-types: Go types for C04 / C09 / C16. Types are programs: they are declared here
// (enumerated), never solved for.

type tInner struct {
	X int    `json:"x"`
	Y string `json:"y,omitempty"`
}

type tBasicInts struct {
	I   int
	I8  int8
	I16 int16
	I32 int32
	I64 int64
}

type tBasicUints struct {
	U   uint
	U8  uint8
	U16 uint16
	U32 uint32
	U64 uint64
}

type tBasicRest struct {
	B   bool
	F32 float32
	F64 float64
	S   string
}

type tTags struct {
	Named   int    `json:"named"`
	Dash    int    `json:"-"`
	DashC   int    `json:"-,"`
	Empty   string `json:",omitempty"`
	Zero    int    `json:"zero,omitzero"`
	Both    *int   `json:"both,omitempty,omitzero"`
	NoTag   float64
	private int
}

type tPointersA struct {
	P  *int
	PP **string
	PS *tInner
}

type tPointersB struct {
	SP  []*int
	MP  map[string]*bool
	Any any
}

type tContainersA struct {
	S  []int8
	SS [][]string
	A  [2]uint8
	AS [1][]bool
}

type tContainersB struct {
	M  map[string]int16
	MS map[string][]float64
}

type tContainersC struct {
	MM  map[string]map[string]string
	Opt []tInner `json:"opt,omitempty"`
}

type tEmbBase struct {
	ID   int    `json:"id"`
	Name string `json:"name,omitempty"`
}

type tEmbOther struct {
	Name  string `json:"name"` // same depth as tEmbBase.Name when both are embedded: neither is emitted
	Extra bool
}

type tEmbedValue struct {
	tEmbBase
	Own string
}

type tEmbedPtr struct {
	*tEmbBase
	Own int `json:"own,omitempty"`
}

type tEmbedShadow struct {
	tEmbBase
	Name int `json:"name"` // shallower: wins
}

type tEmbedAmbiguous struct {
	tEmbBase
	tEmbOther
}

type tEmbedTagged struct {
	tEmbBase `json:"base"`
	Z        int
}

// EmbInt is an exported non-struct type, embedded below (encoding/json emits it as field "EmbInt").
type EmbInt int

type tEmbedScalar struct {
	EmbInt
	X int `json:"x"`
}

type TExportedBase struct {
	K string `json:"k"`
}

type tEmbedTaggedExported struct {
	TExportedBase `json:"nested,omitempty"`
	*tEmbBase     `json:"ptr"`
}

type tEmbExtra struct {
	By string `json:"by"`
	At int    `json:"at,omitempty"`
}

// a skipped (named / non-struct) anonymous field followed by a plain embedded struct
type tEmbedTaggedThenPlain struct {
	tEmbBase `json:"base"`
	tEmbExtra
	Title string `json:"title"`
}

type tEmbedScalarThenPlain struct {
	EmbInt
	tEmbExtra
}

// two levels of embedding, below a named anonymous field and promoted
type tEmbMid struct {
	tEmbExtra
	W int
}

type tEmbedDeepTagged struct {
	tEmbMid `json:"mid"`
	Y       int
}

type tEmbedDeepPlain struct {
	tEmbMid
	*tEmbBase
	Q bool `json:"q,omitempty"`
}

type tEmbedPlainThenTagged struct {
	tEmbExtra
	TExportedBase `json:"nested"`
	tEmbBase
}

// JSON-name conflicts that Go's own field shadowing does not resolve (different Go names)
type tNameShallowFirst struct {
	N int `json:"name"` // shallower than tEmbBase.Name: wins, whatever the order
	tEmbBase
}

type tNameShallowLast struct {
	tEmbBase
	Label bool `json:"name"`
}

type tNameTaggedWins struct {
	A int `json:"B"` // same depth as B; only A is tagged: A is field "B", B is dropped
	B string
}

type tNameDeepConflict struct {
	tEmbExtra     // by, at
	tEmbBy2       // by (same depth, both tagged): neither is emitted
	Q         int `json:"q"`
}

type tEmbBy2 struct {
	By2 int `json:"by"`
}

// a deeper non-omitempty field whose JSON name a shallower omitempty field owns
type tShadowBase struct {
	Key  int `json:"id"`
	Name string
}

type tNameShadowOmit struct {
	tShadowBase
	ID int `json:"id,omitempty"`
}

// embedded unexported non-struct types are ignored by encoding/json
type tcount int
type tlabel string

type tEmbedUnexportedScalar struct {
	Name string
	tcount
	*tlabel
}

// tags that spell the Go field name, and same-depth tagged conflicts across embedded structs
type tNameTagSameAsField struct {
	A int    `json:"A"`
	B string `json:"A"`
	C int
}

type tEmbKeyNum struct {
	Num int `json:"key"`
}

type tEmbKeyStr struct {
	Str string `json:"key"`
}

type tNameTwoEmbTagged struct {
	tEmbKeyNum
	tEmbKeyStr
	Name string
}

type tEmbID1 struct {
	ID int `json:"ID"`
}

type tEmbID2 struct {
	Ident string `json:"ID"`
}

type tNameTwoEmbTagSameAsField struct {
	tEmbID1
	tEmbID2
	Z bool
}

// omitempty on every kind of field: encoding/json omits false, 0, nil pointers and interfaces,
// and empty arrays ([0]T!), slices, maps and strings - but never a struct or a non-empty array
type tOmitKinds struct {
	Z0 [0]int         `json:"z0,omitempty"`
	A1 [1]int         `json:"a1,omitempty"`
	St tInner         `json:"st,omitempty"`
	Mp map[string]int `json:"mp,omitempty"`
	Sl []int          `json:"sl,omitempty"`
	Pt *int           `json:"pt,omitempty"`
	An any            `json:"an,omitempty"`
	Fl float64        `json:"fl,omitempty"`
	Un uint8          `json:"un,omitempty"`
}

type tOmitZeroArrays struct {
	Pad  [0]string    `json:"pad,omitempty"`
	Pads [0][2]tInner `json:"pads,omitempty"`
}

// a pointer-embedded unexported struct with a JSON name
type tEmbedPtrTaggedUnexported struct {
	*tEmbBase `json:"in"`
	W         int
}

// a wide struct whose values are usually sparse (fast paths keyed on the number of properties)
type tWideSparse struct {
	A  int
	B1 int    `json:"b1,omitempty"`
	B2 bool   `json:"b2,omitempty"`
	B3 string `json:"b3,omitempty"`
	B4 int8   `json:"b4,omitempty"`
	B5 bool   `json:"b5,omitempty"`
	B6 string `json:"b6,omitempty"`
	B7 uint8  `json:"b7,omitempty"`
	B8 bool   `json:"b8,omitempty"`
}

type tStd struct {
	T  time.Time
	L  slog.Level
	BI *big.Int   // (by value its pointer-receiver MarshalJSON is not called in a non-addressable position: outside the domain)
	PT *time.Time `json:"pt,omitempty"`
}

type tRecursive struct {
	Next *tRecursive
}

type tNamedInt int32
type tNamedStr string
type tNamedSlice []tNamedInt
type tNamedMap map[string]tNamedStr

type tNamed struct {
	N  tNamedInt
	S  tNamedStr
	SL tNamedSlice
	M  tNamedMap
}

type tDup struct {
	A int `json:"x"`
	B int `json:"x"`
	C int
}

type tPtrAny struct {
	P *any
	L []*any `json:"l,omitempty"`
}

type tWeirdTags struct {
	Owner int `json:"owner's"` // a single quote is reserved: encoding/json ignores the name
	Area  int `json:"m\u00b2"` // a non-decimal Unicode number in the tag name: encoding/json ignores the name
	Half  int `json:"x\u00bd"`
	Q     int `json:"a\\b"`
	R     int `json:"with space"`
	S     int `json:"é"`
	T     int `json:"a,b"`
}

type tBad struct {
	C  chan int
	F  func()
	K  map[int]string
	Z  complex128
	OK int
}

// unsupported kinds below containers and pointers ("at any depth")
type tCallback func(string) error
type tIntKeyed map[int]string

type tBadNested struct {
	CB1 tCallback `jsonschema:"first occurrence of a named unsupported type"`
	CB2 tCallback
	IK1 tIntKeyed
	IK2 *tIntKeyed `jsonschema:"described"`
	M   map[string]func()
	MM  map[string]map[string]chan int
	S   []func()
	SM  []map[string]func()
	A   [2]chan int
	P   *chan int
	PM  *map[string][]func()
	OK  int
	OK2 map[string][]int
}

// TypeCase is one member of F-types.
type TypeCase struct {
	Name    string
	T       reflect.Type
	Std     bool // contains standard-library marshaler types (excluded from C09)
	Invalid bool // For must return an error (or prune with IgnoreInvalidTypes)
	Cyclic  bool
	// NeverEmitted: the type has a field encoding/json never emits but does decode
	// (`[0]T` with omitempty). The type model is observed on the encoder, so it does not
	// know such a field: the type is used for C04 (encodings) only, not for C09's decoding
	// oracle nor for the property-set comparison of C16.
	NeverEmitted bool
}

func neverEmitted(c TypeCase) TypeCase { c.NeverEmitted = true; return c }

func tc[T any](name string) TypeCase { return TypeCase{Name: name, T: reflect.TypeFor[T]()} }

// TypeFamily lists the plain-data types.
func TypeFamily() []TypeCase {
	out := []TypeCase{
		tc[bool]("bool"), tc[int]("int"), tc[int8]("int8"), tc[int16]("int16"), tc[int32]("int32"), tc[int64]("int64"),
		tc[uint]("uint"), tc[uint8]("uint8"), tc[uint16]("uint16"), tc[uint32]("uint32"), tc[uint64]("uint64"), tc[uintptr]("uintptr"),
		tc[float32]("float32"), tc[float64]("float64"), tc[string]("string"), tc[any]("any"),
		tc[*int]("*int"), tc[**uint8]("**uint8"), tc[*string]("*string"), tc[[]int]("[]int"), tc[[]*int16]("[]*int16"), tc[[][]string]("[][]string"),
		tc[[2]int8]("[2]int8"), tc[[0]int]("[0]int"), tc[*[1]bool]("*[1]bool"),
		tc[map[string]int]("map[string]int"), tc[map[string][]uint16]("map[string][]uint16"), tc[map[string]*float32]("map[string]*float32"),
		tc[map[tNamedStr]int]("map[tNamedStr]int"),
		tc[tInner]("tInner"), tc[*tInner]("*tInner"), tc[[]tInner]("[]tInner"), tc[map[string]tInner]("map[string]tInner"),
		tc[tBasicInts]("tBasicInts"), tc[tBasicUints]("tBasicUints"), tc[tBasicRest]("tBasicRest"), tc[tTags]("tTags"),
		tc[tPointersA]("tPointersA"), tc[tPointersB]("tPointersB"), tc[tContainersA]("tContainersA"), tc[tContainersB]("tContainersB"), tc[tContainersC]("tContainersC"),
		tc[tEmbedValue]("tEmbedValue"), tc[tEmbedPtr]("tEmbedPtr"), tc[tEmbedShadow]("tEmbedShadow"), tc[tEmbedAmbiguous]("tEmbedAmbiguous"), tc[tEmbedTagged]("tEmbedTagged"), tc[tEmbedScalar]("tEmbedScalar"), tc[tEmbedTaggedExported]("tEmbedTaggedExported"),
		tc[tEmbedTaggedThenPlain]("tEmbedTaggedThenPlain"), tc[tEmbedScalarThenPlain]("tEmbedScalarThenPlain"), tc[tEmbedDeepTagged]("tEmbedDeepTagged"), tc[tEmbedDeepPlain]("tEmbedDeepPlain"), tc[tEmbedPlainThenTagged]("tEmbedPlainThenTagged"),
		tc[tNameShallowFirst]("tNameShallowFirst"), tc[tNameShallowLast]("tNameShallowLast"), tc[tNameTaggedWins]("tNameTaggedWins"), tc[tNameDeepConflict]("tNameDeepConflict"), tc[tNameShadowOmit]("tNameShadowOmit"), tc[tEmbedUnexportedScalar]("tEmbedUnexportedScalar"),
		tc[tNameTagSameAsField]("tNameTagSameAsField"), tc[tNameTwoEmbTagged]("tNameTwoEmbTagged"), tc[tNameTwoEmbTagSameAsField]("tNameTwoEmbTagSameAsField"), tc[tEmbedPtrTaggedUnexported]("tEmbedPtrTaggedUnexported"), tc[tWideSparse]("tWideSparse"), tc[tPtrAny]("tPtrAny"), neverEmitted(tc[tOmitKinds]("tOmitKinds")), neverEmitted(tc[tOmitZeroArrays]("tOmitZeroArrays")), tc[*any]("*any"), tc[map[string]*any]("map[string]*any"),
		tc[tNamed]("tNamed"), tc[tNamedInt]("tNamedInt"), tc[tNamedSlice]("tNamedSlice"), tc[tDup]("tDup"), tc[tWeirdTags]("tWeirdTags"),
	}
	std := tc[tStd]("tStd")
	std.Std = true
	t := tc[time.Time]("time.Time")
	t.Std = true
	out = append(out, std, t)
	return out
}

// ForScaffold exercises For/ForType concretely: each call returns a fresh tree that shares no
// Schema object with an earlier result or with TypeSchemas, equal results for equal
// arguments, Resolve accepts the result, recursive types give an error, unsupported kinds
// give an error or are pruned.
func ForScaffold() (n int, bad []string) {
	defer func() {
		if r := recover(); r != nil {
			bad = append(bad, fmt.Sprintf("For panicked: %v", r))
		}
	}()
	ptrs := func(s *jsonschema.Schema) map[*jsonschema.Schema]bool {
		seen := map[*jsonschema.Schema]bool{}
		var walk func(v reflect.Value)
		walk = func(v reflect.Value) {
			switch v.Kind() {
			case reflect.Pointer:
				if v.IsNil() {
					return
				}
				if sp, ok := v.Interface().(*jsonschema.Schema); ok {
					if seen[sp] {
						return
					}
					seen[sp] = true
				}
				walk(v.Elem())
			case reflect.Struct:
				for i := 0; i < v.NumField(); i++ {
					if v.Type().Field(i).IsExported() {
						walk(v.Field(i))
					}
				}
			case reflect.Slice:
				for i := 0; i < v.Len(); i++ {
					walk(v.Index(i))
				}
			case reflect.Map:
				it := v.MapRange()
				for it.Next() {
					walk(it.Value())
				}
			}
		}
		walk(reflect.ValueOf(s))
		return seen
	}
	override := &jsonschema.Schema{Type: "object", Properties: map[string]*jsonschema.Schema{"k": {Type: "string", AllOf: []*jsonschema.Schema{{MinLength: jsonschema.Ptr(1)}}}}}
	for _, c := range TypeFamily() {
		for _, opts := range []*jsonschema.ForOptions{nil, {IgnoreInvalidTypes: true}, {TypeSchemas: map[reflect.Type]*jsonschema.Schema{reflect.TypeFor[tInner](): override, reflect.TypeFor[tNamedInt](): {Type: "integer", Minimum: jsonschema.Ptr(1.0)}}}} {
			n++
			s1, err1 := jsonschema.ForType(c.T, opts)
			s2, err2 := jsonschema.ForType(c.T, opts)
			if (err1 == nil) != (err2 == nil) {
				bad = append(bad, c.Name+": nondeterministic error")
				continue
			}
			if err1 != nil {
				bad = append(bad, fmt.Sprintf("%s: unexpected error %v", c.Name, err1))
				continue
			}
			b1, _ := json.Marshal(s1)
			b2, _ := json.Marshal(s2)
			if string(b1) != string(b2) {
				bad = append(bad, c.Name+": two calls give different schemas")
			}
			p1, p2 := ptrs(s1), ptrs(s2)
			for p := range p1 {
				if p2[p] {
					bad = append(bad, c.Name+": results of two calls share a Schema object")
					break
				}
			}
			if opts != nil && opts.TypeSchemas != nil {
				shared := false
				for _, ts := range opts.TypeSchemas {
					for p := range ptrs(ts) {
						if p1[p] {
							shared = true
						}
					}
				}
				if shared {
					bad = append(bad, c.Name+": result shares a Schema object with TypeSchemas")
				}
			}
			if s1 != nil {
				if _, err := s1.Resolve(nil); err != nil {
					bad = append(bad, fmt.Sprintf("%s: Resolve rejects the inferred schema: %v", c.Name, err))
				}
			}
			// the properties are exactly the fields encoding/json emits, required exactly when not
			// optional (observed on the real encoding/json by the type model), without duplicates
			if opts == nil && s1 != nil && c.T.Kind() == reflect.Struct && !c.Std && !c.NeverEmitted {
				tm := refsem.BuildTModel(c.T)
				if tm.Kind == refsem.TKStruct && tm.HasUnknown() == "" {
					want, wantReq := map[string]bool{}, map[string]bool{}
					for _, f := range tm.Fields {
						want[f.Name] = true
						if !f.Optional {
							wantReq[f.Name] = true
						}
					}
					for name := range s1.Properties {
						if !want[name] {
							bad = append(bad, fmt.Sprintf("%s: property %q is not a field encoding/json emits", c.Name, name))
						}
					}
					for name := range want {
						if s1.Properties[name] == nil {
							bad = append(bad, fmt.Sprintf("%s: field %q that encoding/json emits has no property", c.Name, name))
						}
					}
					seenReq := map[string]bool{}
					for _, name := range s1.Required {
						if seenReq[name] {
							bad = append(bad, fmt.Sprintf("%s: %q listed twice in required", c.Name, name))
						}
						seenReq[name] = true
						if !wantReq[name] {
							bad = append(bad, fmt.Sprintf("%s: %q is required but encoding/json may omit it (or never emits it)", c.Name, name))
						}
					}
					// (the converse - always emitted, hence required - is not demanded: the property makes
					// "required" a function of the omitempty/omitzero options, and encoding/json never omits
					// e.g. a struct-valued omitempty field)
					_ = wantReq
					seenOrd := map[string]bool{}
					for _, name := range s1.PropertyOrder {
						if seenOrd[name] || s1.Properties[name] == nil {
							bad = append(bad, fmt.Sprintf("%s: PropertyOrder entry %q is duplicated or names no property", c.Name, name))
						}
						seenOrd[name] = true
					}
				}
			}
		}
	}
	// For and ForType agree, also when TypeSchemas overrides a type that has a built-in translation
	{
		opts := &jsonschema.ForOptions{TypeSchemas: map[reflect.Type]*jsonschema.Schema{
			reflect.TypeFor[time.Time](): {Type: "string", Format: "date-time"},
			reflect.TypeFor[big.Int]():   {Type: "string", Pattern: "^-?[0-9]+$"},
			reflect.TypeFor[tInner]():    override,
		}}
		n++
		a, errA := jsonschema.For[tStd](opts)
		b, errB := jsonschema.ForType(reflect.TypeFor[tStd](), opts)
		ja, _ := json.Marshal(a)
		jb, _ := json.Marshal(b)
		if errA != nil || errB != nil || string(ja) != string(jb) {
			bad = append(bad, fmt.Sprintf("For[tStd] and ForType(tStd) disagree under TypeSchemas: %s (err %v) vs %s (err %v)", ja, errA, jb, errB))
		}
		if a != nil && (a.Properties["T"] == nil || a.Properties["T"].Format != "date-time") {
			bad = append(bad, fmt.Sprintf("For[tStd]: the TypeSchemas entry for time.Time is not used: %s", ja))
		}
		c1, _ := jsonschema.For[tContainersA](opts)
		c2, _ := jsonschema.ForType(reflect.TypeFor[tContainersA](), opts)
		j1, _ := json.Marshal(c1)
		j2, _ := json.Marshal(c2)
		if string(j1) != string(j2) {
			bad = append(bad, fmt.Sprintf("For and ForType disagree on tContainersA: %s vs %s", j1, j2))
		}
	}
	// recursive and unsupported
	done := make(chan struct{})
	go func() {
		defer close(done)
		defer func() {
			if r := recover(); r != nil {
				bad = append(bad, fmt.Sprintf("For panicked on a recursive or unsupported type: %v", r))
			}
		}()
		if _, err := jsonschema.ForType(reflect.TypeFor[tRecursive](), nil); err == nil {
			bad = append(bad, "tRecursive: no error for a recursive type")
		}
		if _, err := jsonschema.ForType(reflect.TypeFor[tBad](), nil); err == nil {
			bad = append(bad, "tBad: no error for unsupported kinds")
		}
		s, err := jsonschema.ForType(reflect.TypeFor[tBad](), &jsonschema.ForOptions{IgnoreInvalidTypes: true})
		if err != nil || s == nil || len(s.Properties) != 1 || s.Properties["OK"] == nil {
			bad = append(bad, fmt.Sprintf("tBad: IgnoreInvalidTypes should keep only OK (err %v)", err))
		}
		if _, err := jsonschema.ForType(reflect.TypeFor[tBadNested](), nil); err == nil {
			bad = append(bad, "tBadNested: no error for unsupported kinds below containers")
		}
		s, err = jsonschema.ForType(reflect.TypeFor[tBadNested](), &jsonschema.ForOptions{IgnoreInvalidTypes: true})
		if err != nil || s == nil || len(s.Properties) != 2 || s.Properties["OK"] == nil || s.Properties["OK2"] == nil || len(s.Required) != 2 || len(s.PropertyOrder) != 2 {
			names := []string{}
			if s != nil {
				for k := range s.Properties {
					names = append(names, k)
				}
				sort.Strings(names)
			}
			bad = append(bad, fmt.Sprintf("tBadNested: IgnoreInvalidTypes should keep only OK and OK2 (err %v, properties %v)", err, names))
		}
	}()
	select {
	case <-done:
	case <-time.After(20 * time.Second):
		bad = append(bad, "For on a recursive type did not return within 20 s")
	}
	return n + 3, bad
}
