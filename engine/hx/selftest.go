package hx

import (
	"encoding/json"
	"fmt"
	"os"
	"path/filepath"
	"sort"
	"strings"
	"sync"

	"github.com/google/jsonschema-go/jsonschema"

	"verif/engine/refsem"
	"verif/engine/smt"
	"verif/engine/sx"
)

// SuiteResult summarises the translator validation over the repository's test data.
type SuiteResult struct {
	Cases        int
	Agree        int
	Disagree     []string
	Inconclusive map[string]int
	ExpectedMiss int // native verdict differs from the suite's expected flag (informational)
	Steps        int64
}

func draftURI(d string) string {
	if d == "7" {
		return "https://json-schema.org/draft-07/schema#"
	}
	return ""
}

// RunSuiteConcrete executes every (schema, instance) pair of the test-suite copy both
// natively and in the engine (real SSA of Validate + models, concrete inputs) and
// compares verdicts.
func RunSuiteConcrete(p *sx.Program, workers int) (*SuiteResult, error) {
	var groups []SuiteGroup
	for _, d := range []string{"draft2020-12", "draft7"} {
		g, err := LoadSuite(d)
		if err != nil {
			return nil, err
		}
		groups = append(groups, g...)
	}
	res := &SuiteResult{Inconclusive: map[string]int{}}
	var mu sync.Mutex
	var wg sync.WaitGroup
	ch := make(chan SuiteGroup)
	for i := 0; i < workers; i++ {
		wg.Add(1)
		go func() {
			defer wg.Done()
			w, err := NewWorker(p, 10000)
			if err != nil {
				panic(err)
			}
			defer w.Close()
			for g := range ch {
				rs, _, err := ResolveDoc(g.SchemaJSON, draftURI(g.Draft), &jsonschema.ResolveOptions{Loader: SuiteLoader})
				if err != nil {
					mu.Lock()
					res.Disagree = append(res.Disagree, fmt.Sprintf("%s/%s: native resolve failed: %v", g.File, g.Description, err))
					mu.Unlock()
					continue
				}
				for _, t := range g.Tests {
					var inst any
					if err := json.Unmarshal(t.Data, &inst); err != nil {
						panic(err)
					}
					nerr, npanic := NativeValidate(rs, inst)
					nat := VNil
					if npanic != nil {
						nat = VPanic
					} else if nerr != nil {
						nat = VErr
					}
					m := w.NewMachine()
					got := Verdict(-1)
					mixed := false
					var msg string
					npaths := 0
					m.Explore(func(m *sx.Machine) sx.Value {
						ers := ImportResolved(m, rs, false)
						return m.Call(m.P.Func("(*Resolved).Validate"), ers, m.P.ImportJSON(inst))
					}, func(m *sx.Machine, r *sx.PathResult) {
						npaths++
						v := VerdictOf(r)
						if got >= 0 && v != got {
							mixed = true
						}
						got = v
						msg = r.Outcome + ": " + r.Msg
					})
					mu.Lock()
					res.Cases++
					res.Steps += m.Stats.Steps
					id := fmt.Sprintf("%s/%s/%s", g.File, g.Description, t.Description)
					switch {
					case mixed:
						res.Disagree = append(res.Disagree, fmt.Sprintf("%s: %d paths with differing verdicts on concrete input", id, npaths))
					case got == VInconclusive:
						res.Inconclusive[msg]++
					case got != nat:
						res.Disagree = append(res.Disagree, fmt.Sprintf("%s: engine=%s native=%s (%s)", id, got, nat, msg))
					default:
						res.Agree++
					}
					if (nat == VNil) != t.Valid {
						res.ExpectedMiss++
					}
					mu.Unlock()
				}
			}
		}()
	}
	for _, g := range groups {
		ch <- g
	}
	close(ch)
	wg.Wait()
	sort.Strings(res.Disagree)
	return res, nil
}

// SuiteTextLoader is the oracle-side loader over the same files as SuiteLoader.
func SuiteTextLoader(uri string) ([]byte, bool) {
	u := refsem.ParseURI(uri)
	read := func(f string) ([]byte, bool) {
		b, err := os.ReadFile(f)
		return b, err == nil
	}
	if u.Authority == "localhost:1234" {
		return read(filepath.Join(PkgDir, "testdata/remotes", u.Path))
	}
	for _, pre := range []struct{ prefix, dir string }{
		{"https://json-schema.org/draft/2020-12/", "meta-schemas/draft2020-12/"},
		{"https://json-schema.org/draft-07/", "meta-schemas/draft7/"},
		{"http://json-schema.org/draft-07/", "meta-schemas/draft7/"},
	} {
		if after, ok := strings.CutPrefix(uri, pre.prefix); ok {
			return read(filepath.Join(PkgDir, pre.dir+after+".json"))
		}
	}
	return nil, false
}

// OracleSuiteResult summarises the oracle self-check.
type OracleSuiteResult struct {
	Cases    int
	Agree    int
	Disagree []string
}

// RunOracleSuite evaluates the reference semantics concretely on every case of the
// test-suite copy and compares with the suite's expected `valid` flag.
func RunOracleSuite(p *sx.Program) (*OracleSuiteResult, error) {
	res := &OracleSuiteResult{}
	for _, d := range []string{"draft2020-12", "draft7"} {
		groups, err := LoadSuite(d)
		if err != nil {
			return nil, err
		}
		def := refsem.Draft2020
		if d == "draft7" {
			def = refsem.Draft7
		}
		for _, g := range groups {
			for _, t := range g.Tests {
				res.Cases++
				id := fmt.Sprintf("%s/%s/%s", g.File, g.Description, t.Description)
				m := sx.NewMachine(p, smt.NewCtx(), nil)
				r, err := refsem.NewResolver(g.SchemaJSON, "", SuiteTextLoader, def)
				if err != nil {
					res.Disagree = append(res.Disagree, id+": oracle resolver: "+err.Error())
					continue
				}
				inst, err := refsem.ParseJSON(t.Data)
				if err != nil {
					return nil, err
				}
				o := refsem.NewOracle(m, r)
				ok := o.Valid(refsem.ConstInst{M: m, V: inst})
				switch {
				case o.Err() != nil:
					res.Disagree = append(res.Disagree, id+": oracle error: "+o.Err().Error())
				case !ok.IsConst():
					res.Disagree = append(res.Disagree, id+": oracle verdict is not constant")
				case ok.IsTrue() != t.Valid:
					res.Disagree = append(res.Disagree, fmt.Sprintf("%s: oracle=%v expected=%v", id, ok.IsTrue(), t.Valid))
				default:
					res.Agree++
				}
			}
		}
	}
	return res, nil
}
