package hx

import (
	"bytes"
	"errors"
	"fmt"
	"net/url"
	"os"
	"os/exec"
	"sort"
	"strings"
	"time"

	"github.com/google/jsonschema-go/jsonschema"
)

// C10, Schema graphs and loaders (native scaffold, run in a child process): Resolve on
// Go-constructed Schema values that are not trees (shared and cyclic subschema pointers), that
// have nil children, malformed URIs or conflicting fields, and with loaders that fail, return
// the wrong document or serve a self-referential universe. Every call must return - a value or
// an error. A stack overflow is not recoverable in Go, so the cases run in a child process
// (`symgo c10-graphs`); the parent turns a crashed or hung child into a finding.

type graphCase struct {
	name string
	mk   func() (*jsonschema.Schema, *jsonschema.ResolveOptions)
}

func graphCases() []graphCase {
	S := func() *jsonschema.Schema { return &jsonschema.Schema{} }
	noOpts := func(s *jsonschema.Schema) (*jsonschema.Schema, *jsonschema.ResolveOptions) { return s, nil }
	loader := func(f func(u *url.URL) (*jsonschema.Schema, error)) *jsonschema.ResolveOptions {
		return &jsonschema.ResolveOptions{BaseURI: "http://h/root.json", Loader: f}
	}
	var cs []graphCase
	add := func(name string, mk func() (*jsonschema.Schema, *jsonschema.ResolveOptions)) {
		cs = append(cs, graphCase{name, mk})
	}
	// cycles through every kind of subschema holder
	add("cycle-self-not", func() (*jsonschema.Schema, *jsonschema.ResolveOptions) { s := S(); s.Not = s; return noOpts(s) })
	add("cycle-self-items", func() (*jsonschema.Schema, *jsonschema.ResolveOptions) { s := S(); s.Items = s; return noOpts(s) })
	add("cycle-self-allOf", func() (*jsonschema.Schema, *jsonschema.ResolveOptions) {
		s := S()
		s.AllOf = []*jsonschema.Schema{{Type: "string"}, s}
		return noOpts(s)
	})
	add("cycle-self-properties", func() (*jsonschema.Schema, *jsonschema.ResolveOptions) {
		s := S()
		s.Properties = map[string]*jsonschema.Schema{"a": {Type: "string"}, "self": s}
		return noOpts(s)
	})
	add("cycle-self-defs", func() (*jsonschema.Schema, *jsonschema.ResolveOptions) {
		s := S()
		s.Defs = map[string]*jsonschema.Schema{"self": s}
		return noOpts(s)
	})
	add("cycle-two-step", func() (*jsonschema.Schema, *jsonschema.ResolveOptions) {
		a, b := S(), S()
		a.If, b.Then = b, a
		return noOpts(a)
	})
	add("cycle-deep", func() (*jsonschema.Schema, *jsonschema.ResolveOptions) {
		root := S()
		cur := root
		for i := 0; i < 5; i++ {
			n := S()
			cur.PrefixItems = []*jsonschema.Schema{n}
			cur = n
		}
		cur.DependentSchemas = map[string]*jsonschema.Schema{"k": root.PrefixItems[0]}
		return noOpts(root)
	})
	add("cycle-draft7-itemsarray", func() (*jsonschema.Schema, *jsonschema.ResolveOptions) {
		s := &jsonschema.Schema{Schema: "http://json-schema.org/draft-07/schema#"}
		s.ItemsArray = []*jsonschema.Schema{s}
		return noOpts(s)
	})
	// shared (DAG) subschemas
	add("shared-allOf", func() (*jsonschema.Schema, *jsonschema.ResolveOptions) {
		c := &jsonschema.Schema{Type: "integer"}
		return noOpts(&jsonschema.Schema{AllOf: []*jsonschema.Schema{c, c}})
	})
	add("shared-across-keywords", func() (*jsonschema.Schema, *jsonschema.ResolveOptions) {
		c := &jsonschema.Schema{Type: "integer"}
		return noOpts(&jsonschema.Schema{Not: c, Properties: map[string]*jsonschema.Schema{"a": {Items: c}}})
	})
	// nil children
	add("nil-in-allOf", func() (*jsonschema.Schema, *jsonschema.ResolveOptions) {
		return noOpts(&jsonschema.Schema{AllOf: []*jsonschema.Schema{nil}})
	})
	add("nil-in-properties", func() (*jsonschema.Schema, *jsonschema.ResolveOptions) {
		return noOpts(&jsonschema.Schema{Properties: map[string]*jsonschema.Schema{"a": nil}})
	})
	add("nil-in-prefixItems-middle", func() (*jsonschema.Schema, *jsonschema.ResolveOptions) {
		return noOpts(&jsonschema.Schema{PrefixItems: []*jsonschema.Schema{{}, nil, {}}})
	})
	add("nil-in-defs", func() (*jsonschema.Schema, *jsonschema.ResolveOptions) {
		return noOpts(&jsonschema.Schema{Defs: map[string]*jsonschema.Schema{"d": nil}, Ref: "#/$defs/d"})
	})
	// malformed URIs and references
	for i, id := range []string{"::", "%zz", "http://[::1", "#frag", "a b", "\x00", "http://h/x#f"} {
		id := id
		add(fmt.Sprintf("bad-id-%d", i), func() (*jsonschema.Schema, *jsonschema.ResolveOptions) {
			return noOpts(&jsonschema.Schema{ID: id, Defs: map[string]*jsonschema.Schema{"d": {ID: id}}})
		})
	}
	for i, ref := range []string{"::", "%zz", "#/%zz", "#/~2", "#/$defs/~", "http://[::1", "#" + strings.Repeat("/not", 50), "\x7f", "#/allOf/99999999999999999999", "#/allOf/-1"} {
		ref := ref
		add(fmt.Sprintf("bad-ref-%d", i), func() (*jsonschema.Schema, *jsonschema.ResolveOptions) {
			return noOpts(&jsonschema.Schema{Ref: ref, AllOf: []*jsonschema.Schema{{}}, DynamicRef: ref})
		})
	}
	add("bad-base-uri", func() (*jsonschema.Schema, *jsonschema.ResolveOptions) {
		return &jsonschema.Schema{Ref: "x.json"}, &jsonschema.ResolveOptions{BaseURI: "::"}
	})
	add("base-uri-with-fragment", func() (*jsonschema.Schema, *jsonschema.ResolveOptions) {
		return &jsonschema.Schema{}, &jsonschema.ResolveOptions{BaseURI: "http://h/a#frag"}
	})
	// conflicting fields
	add("conflict-type-types", func() (*jsonschema.Schema, *jsonschema.ResolveOptions) {
		return noOpts(&jsonschema.Schema{Type: "string", Types: []string{"null"}})
	})
	add("conflict-items", func() (*jsonschema.Schema, *jsonschema.ResolveOptions) {
		return noOpts(&jsonschema.Schema{Items: S(), ItemsArray: []*jsonschema.Schema{S()}})
	})
	add("conflict-defs", func() (*jsonschema.Schema, *jsonschema.ResolveOptions) {
		return noOpts(&jsonschema.Schema{Defs: map[string]*jsonschema.Schema{"a": S()}, Definitions: map[string]*jsonschema.Schema{"a": S()}})
	})
	add("conflict-dependencies", func() (*jsonschema.Schema, *jsonschema.ResolveOptions) {
		return noOpts(&jsonschema.Schema{DependencySchemas: map[string]*jsonschema.Schema{"a": S()}, DependencyStrings: map[string][]string{"a": {"b"}}})
	})
	add("bad-pattern", func() (*jsonschema.Schema, *jsonschema.ResolveOptions) {
		return noOpts(&jsonschema.Schema{Pattern: "(", PatternProperties: map[string]*jsonschema.Schema{"[": S()}})
	})
	add("bad-type-name", func() (*jsonschema.Schema, *jsonschema.ResolveOptions) {
		return noOpts(&jsonschema.Schema{Type: "float", Types: nil})
	})
	add("negative-counts", func() (*jsonschema.Schema, *jsonschema.ResolveOptions) {
		m := -1
		return noOpts(&jsonschema.Schema{MinLength: &m, MaxItems: &m, MinContains: &m, MaxProperties: &m})
	})
	add("duplicate-anchors", func() (*jsonschema.Schema, *jsonschema.ResolveOptions) {
		return noOpts(&jsonschema.Schema{Anchor: "a", Defs: map[string]*jsonschema.Schema{"x": {Anchor: "a"}, "y": {DynamicAnchor: "a"}}})
	})
	add("bad-default-with-validation", func() (*jsonschema.Schema, *jsonschema.ResolveOptions) {
		return &jsonschema.Schema{Type: "integer", Default: []byte(`{"not json`)}, &jsonschema.ResolveOptions{ValidateDefaults: true}
	})
	// loaders
	add("loader-error", func() (*jsonschema.Schema, *jsonschema.ResolveOptions) {
		return &jsonschema.Schema{Ref: "x.json"}, loader(func(*url.URL) (*jsonschema.Schema, error) { return nil, errors.New("boom") })
	})
	add("loader-nil-nil", func() (*jsonschema.Schema, *jsonschema.ResolveOptions) {
		return &jsonschema.Schema{Ref: "x.json"}, loader(func(*url.URL) (*jsonschema.Schema, error) { return nil, nil })
	})
	add("loader-panics", func() (*jsonschema.Schema, *jsonschema.ResolveOptions) {
		return &jsonschema.Schema{Ref: "x.json"}, loader(func(*url.URL) (*jsonschema.Schema, error) { panic("loader panic") })
	})
	add("loader-wrong-document", func() (*jsonschema.Schema, *jsonschema.ResolveOptions) {
		return &jsonschema.Schema{Ref: "x.json#/$defs/d"}, loader(func(*url.URL) (*jsonschema.Schema, error) {
			return &jsonschema.Schema{ID: "http://elsewhere/y.json", Type: "string"}, nil
		})
	})
	add("loader-returns-root", func() (*jsonschema.Schema, *jsonschema.ResolveOptions) {
		root := &jsonschema.Schema{Ref: "x.json"}
		return root, loader(func(*url.URL) (*jsonschema.Schema, error) { return root, nil })
	})
	add("loader-same-object-for-every-uri", func() (*jsonschema.Schema, *jsonschema.ResolveOptions) {
		shared := &jsonschema.Schema{Ref: "next.json"}
		return &jsonschema.Schema{Ref: "x.json"}, loader(func(*url.URL) (*jsonschema.Schema, error) { return shared, nil })
	})
	add("loader-self-referential-universe", func() (*jsonschema.Schema, *jsonschema.ResolveOptions) {
		return &jsonschema.Schema{Ref: "x.json"}, loader(func(u *url.URL) (*jsonschema.Schema, error) {
			return &jsonschema.Schema{Ref: u.String()}, nil // every document refers to itself
		})
	})
	add("loader-infinite-fresh-chain", func() (*jsonschema.Schema, *jsonschema.ResolveOptions) {
		n := 0
		return &jsonschema.Schema{Ref: "d0.json"}, loader(func(u *url.URL) (*jsonschema.Schema, error) {
			n++
			if n > 200 {
				return nil, errors.New("universe exhausted") // an honest loader is finite
			}
			return &jsonschema.Schema{Ref: fmt.Sprintf("d%d.json", n)}, nil
		})
	})
	add("loader-cyclic-document", func() (*jsonschema.Schema, *jsonschema.ResolveOptions) {
		return &jsonschema.Schema{Ref: "x.json"}, loader(func(*url.URL) (*jsonschema.Schema, error) {
			d := &jsonschema.Schema{}
			d.Not = d
			return d, nil
		})
	})
	return cs
}

// RunGraphCasesChild runs the cases in this process (the child); one line per case.
func RunGraphCasesChild() int {
	bad := 0
	for _, c := range graphCases() {
		fmt.Printf("START %s\n", c.name)
		os.Stdout.Sync()
		done := make(chan string, 1)
		go func() {
			defer func() {
				if r := recover(); r != nil {
					if s, ok := r.(string); ok && s == "loader panic" {
						done <- "ok (the loader's own panic propagates)"
						return
					}
					done <- fmt.Sprintf("PANIC %v", r)
				}
			}()
			s, opts := c.mk()
			rs, err := s.Resolve(opts)
			if err == nil && rs != nil && s.Ref == "" && s.DynamicRef == "" && (opts == nil || opts.Loader == nil) {
				// a graph that resolves must also validate without panicking (reference cycles that
				// do not descend into the instance may recurse without bound: excluded by the property)
				_ = rs.Validate(map[string]any{"a": []any{1.0, "x", nil}})
				_ = rs.Validate([]any{[]any{}, 1.0})
			}
			done <- "ok"
		}()
		select {
		case msg := <-done:
			if strings.HasPrefix(msg, "PANIC") {
				bad++
			}
			fmt.Printf("END %s %s\n", c.name, msg)
		case <-time.After(20 * time.Second):
			fmt.Printf("END %s HANG (no result within 20 s)\n", c.name)
			bad++
		}
	}
	if bad > 0 {
		return 3
	}
	return 0
}

// RunGraphScaffold runs the child and turns panics, hangs and crashes into findings.
func RunGraphScaffold(r *Report, property string) {
	cases := graphCases()
	cmd := exec.Command(os.Args[0], "c10-graphs")
	var out, errb bytes.Buffer
	cmd.Stdout, cmd.Stderr = &out, &errb
	done := make(chan error, 1)
	if err := cmd.Start(); err != nil {
		r.EngineErrors = append(r.EngineErrors, "graph scaffold: "+err.Error())
		return
	}
	go func() { done <- cmd.Wait() }()
	var werr error
	select {
	case werr = <-done:
	case <-time.After(time.Duration(len(cases)*25) * time.Second):
		cmd.Process.Kill()
		werr = errors.New("child killed after timeout")
	}
	started, ended := map[string]bool{}, map[string]string{}
	var order []string
	for _, l := range strings.Split(out.String(), "\n") {
		f := strings.SplitN(l, " ", 3)
		switch {
		case len(f) >= 2 && f[0] == "START":
			started[f[1]] = true
			order = append(order, f[1])
		case len(f) >= 3 && f[0] == "END":
			ended[f[1]] = f[2]
		}
	}
	n := 0
	for _, name := range order {
		msg, ok := ended[name]
		switch {
		case !ok:
			tail := errb.String()
			if i := strings.Index(tail, "goroutine "); i > 0 {
				tail = tail[:i]
			}
			r.Findings = append(r.Findings, Finding{Property: property, Kind: "resolve-crash", Skeleton: "F-graph/" + name, Family: "F-graph", Doc: "Go-constructed Schema graph / loader case " + name,
				Expected: "Resolve returns a value or an error", Observed: "the process running Resolve died (" + fmt.Sprint(werr) + "): " + trunc(strings.TrimSpace(tail), 300)})
		case strings.HasPrefix(msg, "PANIC") || strings.HasPrefix(msg, "HANG"):
			r.Findings = append(r.Findings, Finding{Property: property, Kind: "resolve-panic", Skeleton: "F-graph/" + name, Family: "F-graph", Doc: "Go-constructed Schema graph / loader case " + name,
				Expected: "Resolve (and Validate on the result) return a value or an error", Observed: msg})
		default:
			n++
		}
	}
	if len(order) < len(cases) && len(r.Findings) == 0 {
		r.EngineErrors = append(r.EngineErrors, fmt.Sprintf("graph scaffold: child reported %d of %d cases (%v)", len(order), len(cases), werr))
	}
	var names []string
	for _, c := range cases {
		names = append(names, c.name)
	}
	sort.Strings(names)
	r.Extra["scaffold_graph_cases_returned"] = n
	r.Bounds = append(r.Bounds, fmt.Sprintf("Schema graphs and loaders (native scaffold in a child process, %d cases): cyclic and shared subschema pointers under every kind of holder, nil children, malformed $id/$ref/base URIs, conflicting fields, invalid patterns and counts, loaders that fail, return nil, the wrong document, the root itself, one object for every URI, a self-referential or a long fresh universe, a cyclic document; Resolve (and Validate where it resolves) must return", len(cases)))
}
