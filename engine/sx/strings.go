package sx

import (
	"strings"
	"unicode"

	"verif/engine/smt"
)

// ReplacerModel is the documented contract of a generic strings.Replacer: scan left to
// right; at each position the first old string (in argument order) that matches is
// replaced by its new string, without overlapping matches.
type ReplacerModel struct {
	Pairs [][2]string
	Nat   *strings.Replacer
}

func registerStrings(p *Program) {
	nat := func(name string, fn func(m *Machine, fr *frame, args []Value) Value) {
		p.Reg(name, "native-or-model", fn)
	}
	str := func(v Value) (string, bool) { s, ok := v.(string); return s, ok }

	// matchAt returns the term "pat occurs in b at position i".
	matchAt := func(m *Machine, b *BStr, i int, pat string) *smt.Term {
		c := m.Ctx
		if i+len(pat) > len(b.B) {
			return c.False
		}
		var cs []*smt.Term
		for k := 0; k < len(pat); k++ {
			cs = append(cs, c.Eq(m.intTerm(b.B[i+k]), c.Int(int64(pat[k]))))
		}
		return c.And(cs...)
	}
	// index returns the first position of pat in b (forking), or -1.
	index := func(m *Machine, b *BStr, pat string, site string) int {
		if pat == "" {
			return 0
		}
		for i := 0; i+len(pat) <= len(b.B); i++ {
			if m.Branch(matchAt(m, b, i, pat), site) {
				return i
			}
		}
		return -1
	}

	// bytes.Buffer: contents kept in the first slot of the struct
	bufOf := func(v Value) *[]Value {
		p := v.(*Value)
		if p == nil {
			nilDeref("method on nil *bytes.Buffer")
		}
		st := (*p).(Struct)
		if b, ok := st[0].(*[]Value); ok {
			return b
		}
		b := &[]Value{}
		if old, ok := st[0].([]Value); ok {
			*b = append(*b, old...)
		}
		st[0] = b
		return b
	}
	nat("strings.Contains", func(m *Machine, fr *frame, args []Value) Value {
		s, ok1 := str(args[0])
		sub, ok2 := str(args[1])
		if ok1 && ok2 {
			return strings.Contains(s, sub)
		}
		b, okb := args[0].(*BStr)
		if okb && ok2 {
			c := m.Ctx
			var cs []*smt.Term
			for i := 0; i+len(sub) <= len(b.B); i++ {
				cs = append(cs, matchAt(m, b, i, sub))
			}
			return unTerm(c.Or(cs...))
		}
		unsupported("strings.Contains on symbolic pattern")
		return nil
	})
	nat("strings.HasPrefix", func(m *Machine, fr *frame, args []Value) Value {
		s, ok1 := str(args[0])
		pre, ok2 := str(args[1])
		if ok1 && ok2 {
			return strings.HasPrefix(s, pre)
		}
		if b, ok := args[0].(*BStr); ok && ok2 {
			return unTerm(matchAt(m, b, 0, pre))
		}
		unsupported("strings.HasPrefix on symbolic prefix")
		return nil
	})
	nat("strings.HasSuffix", func(m *Machine, fr *frame, args []Value) Value {
		s, ok1 := str(args[0])
		suf, ok2 := str(args[1])
		if ok1 && ok2 {
			return strings.HasSuffix(s, suf)
		}
		if b, ok := args[0].(*BStr); ok && ok2 {
			return unTerm(matchAt(m, b, len(b.B)-len(suf), suf))
		}
		unsupported("strings.HasSuffix on symbolic suffix")
		return nil
	})
	nat("strings.TrimPrefix", func(m *Machine, fr *frame, args []Value) Value {
		s, ok1 := str(args[0])
		pre, ok2 := str(args[1])
		if ok1 && ok2 {
			return strings.TrimPrefix(s, pre)
		}
		if b, ok := args[0].(*BStr); ok && ok2 {
			if m.Branch(matchAt(m, b, 0, pre), "strings.TrimPrefix") {
				return normBStr(&BStr{B: b.B[len(pre):]})
			}
			return b
		}
		unsupported("strings.TrimPrefix on symbolic prefix")
		return nil
	})
	nat("strings.Index", func(m *Machine, fr *frame, args []Value) Value {
		s, ok1 := str(args[0])
		sub, ok2 := str(args[1])
		if ok1 && ok2 {
			return int64(strings.Index(s, sub))
		}
		if b, ok := args[0].(*BStr); ok && ok2 {
			return int64(index(m, b, sub, "strings.Index"))
		}
		unsupported("strings.Index on symbolic pattern")
		return nil
	})
	nat("strings.IndexByte", func(m *Machine, fr *frame, args []Value) Value {
		s, ok1 := str(args[0])
		c, ok2 := args[1].(uint64)
		if ok1 && ok2 {
			return int64(strings.IndexByte(s, byte(c)))
		}
		if b, ok := args[0].(*BStr); ok && ok2 {
			return int64(index(m, b, string([]byte{byte(c)}), "strings.IndexByte"))
		}
		unsupported("strings.IndexByte on symbolic byte")
		return nil
	})
	nat("strings.Cut", func(m *Machine, fr *frame, args []Value) Value {
		s, ok1 := str(args[0])
		sep, ok2 := str(args[1])
		if ok1 && ok2 {
			a, b, f := strings.Cut(s, sep)
			return Tuple{a, b, f}
		}
		if b, ok := args[0].(*BStr); ok && ok2 {
			i := index(m, b, sep, "strings.Cut")
			if i < 0 {
				return Tuple{b, "", false}
			}
			return Tuple{normBStr(&BStr{B: b.B[:i:i]}), normBStr(&BStr{B: b.B[i+len(sep):]}), true}
		}
		unsupported("strings.Cut on symbolic separator")
		return nil
	})
	nat("strings.Split", func(m *Machine, fr *frame, args []Value) Value {
		s, ok1 := str(args[0])
		sep, ok2 := str(args[1])
		if ok1 && ok2 {
			var out []Value
			for _, x := range strings.Split(s, sep) {
				out = append(out, x)
			}
			return out
		}
		if b, ok := args[0].(*BStr); ok && ok2 && sep != "" {
			var out []Value
			rest := b
			for {
				i := index(m, rest, sep, "strings.Split")
				if i < 0 {
					out = append(out, normBStr(rest))
					return out
				}
				out = append(out, normBStr(&BStr{B: rest.B[:i:i]}))
				rest = &BStr{B: rest.B[i+len(sep):]}
			}
		}
		unsupported("strings.Split on symbolic separator")
		return nil
	})
	nat("strings.ContainsRune", func(m *Machine, fr *frame, args []Value) Value {
		s, ok := str(args[0])
		if !ok {
			unsupported("strings.ContainsRune on symbolic string")
		}
		switch r := args[1].(type) {
		case int64:
			return strings.ContainsRune(s, rune(r))
		case SymInt:
			c := m.Ctx
			var cs []*smt.Term
			for _, ch := range s {
				cs = append(cs, c.Eq(r.T, c.Int(int64(ch))))
			}
			return unTerm(c.Or(cs...))
		}
		panic("ContainsRune: bad rune")
	})
	asciiClass := func(name string, concrete func(rune) bool, ranges [][2]int64) {
		nat(name, func(m *Machine, fr *frame, args []Value) Value {
			switch r := args[0].(type) {
			case int64:
				return concrete(rune(r))
			case SymInt:
				c := m.Ctx
				if !m.Branch(c.And(c.Le(c.Int(0), r.T), c.Lt(r.T, c.Int(0x80))), name+"-ascii") {
					unsupported(name + " of symbolic non-ASCII rune")
				}
				var cs []*smt.Term
				for _, rg := range ranges {
					cs = append(cs, c.And(c.Le(c.Int(rg[0]), r.T), c.Le(r.T, c.Int(rg[1]))))
				}
				return unTerm(c.Or(cs...))
			}
			panic(name + ": bad rune")
		})
	}
	asciiClass("unicode.IsLetter", unicode.IsLetter, [][2]int64{{'A', 'Z'}, {'a', 'z'}})
	asciiClass("unicode.IsDigit", unicode.IsDigit, [][2]int64{{'0', '9'}})

	nat("strings.TrimSuffix", func(m *Machine, fr *frame, args []Value) Value {
		s, ok1 := str(args[0])
		suf, ok2 := str(args[1])
		if ok1 && ok2 {
			return strings.TrimSuffix(s, suf)
		}
		if b, ok := args[0].(*BStr); ok && ok2 {
			if len(suf) <= len(b.B) && m.Branch(matchAt(m, b, len(b.B)-len(suf), suf), "strings.TrimSuffix") {
				return normBStr(&BStr{B: b.B[: len(b.B)-len(suf) : len(b.B)-len(suf)]})
			}
			return b
		}
		unsupported("strings.TrimSuffix on symbolic suffix")
		return nil
	})
	nat("strings.CutPrefix", func(m *Machine, fr *frame, args []Value) Value {
		s, ok1 := str(args[0])
		pre, ok2 := str(args[1])
		if ok1 && ok2 {
			a, f := strings.CutPrefix(s, pre)
			return Tuple{a, f}
		}
		if b, ok := args[0].(*BStr); ok && ok2 {
			if m.Branch(matchAt(m, b, 0, pre), "strings.CutPrefix") {
				return Tuple{normBStr(&BStr{B: b.B[len(pre):]}), true}
			}
			return Tuple{b, false}
		}
		unsupported("strings.CutPrefix on symbolic prefix")
		return nil
	})
	nat("strings.CutSuffix", func(m *Machine, fr *frame, args []Value) Value {
		s, ok1 := str(args[0])
		suf, ok2 := str(args[1])
		if ok1 && ok2 {
			a, f := strings.CutSuffix(s, suf)
			return Tuple{a, f}
		}
		if b, ok := args[0].(*BStr); ok && ok2 {
			if len(suf) <= len(b.B) && m.Branch(matchAt(m, b, len(b.B)-len(suf), suf), "strings.CutSuffix") {
				return Tuple{normBStr(&BStr{B: b.B[: len(b.B)-len(suf) : len(b.B)-len(suf)]}), true}
			}
			return Tuple{b, false}
		}
		unsupported("strings.CutSuffix on symbolic suffix")
		return nil
	})
	// functions that are executed natively when every argument is concrete
	concrete1 := func(name string, f func(string) string) {
		nat(name, func(m *Machine, fr *frame, args []Value) Value {
			if s, ok := str(args[0]); ok {
				return f(s)
			}
			unsupported(name + " on symbolic string")
			return nil
		})
	}
	concrete1("strings.TrimSpace", strings.TrimSpace)
	concrete1("strings.ToUpper", strings.ToUpper)
	concrete1("strings.Clone", func(s string) string { return s })
	concrete2 := func(name string, f func(a, b string) Value) {
		nat(name, func(m *Machine, fr *frame, args []Value) Value {
			a, ok1 := str(args[0])
			b, ok2 := str(args[1])
			if ok1 && ok2 {
				return f(a, b)
			}
			unsupported(name + " on symbolic string")
			return nil
		})
	}
	concrete2("strings.Trim", func(a, b string) Value { return strings.Trim(a, b) })
	concrete2("strings.TrimLeft", func(a, b string) Value { return strings.TrimLeft(a, b) })
	concrete2("strings.TrimRight", func(a, b string) Value { return strings.TrimRight(a, b) })
	concrete2("strings.LastIndex", func(a, b string) Value { return int64(strings.LastIndex(a, b)) })
	concrete2("strings.Count", func(a, b string) Value { return int64(strings.Count(a, b)) })
	// jnContains answers "does the text of a json.Number contain one of chars" from the model's
	// canonical spelling (optional '-', digits, and '.' plus digits when the scale is positive).
	jnContains := func(m *Machine, a Value, chars string) (Value, bool) {
		as, ok := a.(*AStr)
		if !ok {
			return nil, false
		}
		n, ok := m.jnTexts[as.T]
		if !ok || n.JBad != nil {
			return nil, false
		}
		c := m.Ctx
		res := c.False
		for _, ch := range chars {
			switch {
			case ch == '.':
				res = c.Or(res, c.Lt(c.Int(0), n.JK))
			case ch == '-':
				res = c.Or(res, c.Lt(n.JN, c.Int(0)))
			case ch == 'e' || ch == 'E' || ch == '+':
				// never in the canonical spelling
			default:
				return nil, false
			}
		}
		return unTerm(m.simp(res)), true
	}
	nat("strings.ContainsAny", func(m *Machine, fr *frame, args []Value) Value {
		a, ok1 := str(args[0])
		b, ok2 := str(args[1])
		if ok1 && ok2 {
			return strings.ContainsAny(a, b)
		}
		if ok2 {
			if v, ok := jnContains(m, args[0], b); ok {
				return v
			}
		}
		unsupported("strings.ContainsAny on symbolic string")
		return nil
	})
	concrete2("strings.IndexAny", func(a, b string) Value { return int64(strings.IndexAny(a, b)) })
	concrete2("strings.Compare", func(a, b string) Value { return int64(strings.Compare(a, b)) })
	nat("strings.ReplaceAll", func(m *Machine, fr *frame, args []Value) Value {
		a, ok1 := str(args[0])
		b, ok2 := str(args[1])
		c, ok3 := str(args[2])
		if ok1 && ok2 && ok3 {
			return strings.ReplaceAll(a, b, c)
		}
		if bs, ok := args[0].(*BStr); ok && ok2 && ok3 && b != "" {
			var out []Value
			pos := 0
			for pos < len(bs.B) {
				if m.Branch(matchAt(m, bs, pos, b), "strings.ReplaceAll") {
					for k := 0; k < len(c); k++ {
						out = append(out, uint64(c[k]))
					}
					pos += len(b)
					continue
				}
				out = append(out, bs.B[pos])
				pos++
			}
			return normBStr(&BStr{B: out})
		}
		unsupported("strings.ReplaceAll on symbolic pattern")
		return nil
	})
	nat("strings.Repeat", func(m *Machine, fr *frame, args []Value) Value {
		if a, ok := str(args[0]); ok {
			return strings.Repeat(a, int(asInt64(m.concretize(args[1], "Repeat"))))
		}
		unsupported("strings.Repeat on symbolic string")
		return nil
	})
	nat("strings.SplitN", func(m *Machine, fr *frame, args []Value) Value {
		a, ok1 := str(args[0])
		b, ok2 := str(args[1])
		if ok1 && ok2 {
			var out []Value
			for _, x := range strings.SplitN(a, b, int(asInt64(m.concretize(args[2], "SplitN")))) {
				out = append(out, x)
			}
			return out
		}
		unsupported("strings.SplitN on symbolic string")
		return nil
	})
	nat("strings.LastIndexByte", func(m *Machine, fr *frame, args []Value) Value {
		a, ok1 := str(args[0])
		c, ok2 := args[1].(uint64)
		if ok1 && ok2 {
			return int64(strings.LastIndexByte(a, byte(c)))
		}
		unsupported("strings.LastIndexByte on symbolic string")
		return nil
	})
	// strings.Builder: contents kept in the first slot
	nat("(*strings.Builder).WriteString", func(m *Machine, fr *frame, args []Value) Value {
		b := bufOf(args[0])
		bs, ok := toBStr(args[1])
		if !ok {
			unsupported("Builder.WriteString of abstract string")
		}
		*b = append(*b, bs.B...)
		return Tuple{int64(len(bs.B)), Iface{}}
	})
	nat("(*strings.Builder).WriteByte", func(m *Machine, fr *frame, args []Value) Value {
		b := bufOf(args[0])
		*b = append(*b, args[1])
		return Iface{}
	})
	nat("(*strings.Builder).WriteRune", func(m *Machine, fr *frame, args []Value) Value {
		b := bufOf(args[0])
		r := asInt64(m.concretize(args[1], "WriteRune"))
		for _, c := range []byte(string(rune(r))) {
			*b = append(*b, uint64(c))
		}
		return Tuple{int64(len(string(rune(r)))), Iface{}}
	})
	nat("(*strings.Builder).String", func(m *Machine, fr *frame, args []Value) Value {
		return normBStr(&BStr{B: append([]Value{}, *bufOf(args[0])...)})
	})
	nat("(*strings.Builder).Len", func(m *Machine, fr *frame, args []Value) Value {
		return int64(len(*bufOf(args[0])))
	})
	nat("(*strings.Builder).Grow", func(m *Machine, fr *frame, args []Value) Value { return nil })
	nat("(*strings.Builder).Reset", func(m *Machine, fr *frame, args []Value) Value {
		b := bufOf(args[0])
		*b = nil
		return nil
	})

	nat("strings.Join", func(m *Machine, fr *frame, args []Value) Value {
		sep, ok := str(args[1])
		if !ok {
			unsupported("strings.Join with symbolic separator")
		}
		var parts []string
		for _, e := range args[0].([]Value) {
			s, ok := e.(string)
			if !ok {
				return "<joined>"
			}
			parts = append(parts, s)
		}
		return strings.Join(parts, sep)
	})
	nat("strings.ToLower", func(m *Machine, fr *frame, args []Value) Value {
		if s, ok := str(args[0]); ok {
			return strings.ToLower(s)
		}
		unsupported("strings.ToLower on symbolic string")
		return nil
	})
	nat("strings.EqualFold", func(m *Machine, fr *frame, args []Value) Value {
		a, ok1 := str(args[0])
		b, ok2 := str(args[1])
		if ok1 && ok2 {
			return strings.EqualFold(a, b)
		}
		unsupported("strings.EqualFold on symbolic string")
		return nil
	})

	// Replacer
	nat("strings.NewReplacer", func(m *Machine, fr *frame, args []Value) Value {
		var ss []string
		for _, e := range args[0].([]Value) {
			s, ok := e.(string)
			if !ok {
				unsupported("strings.NewReplacer with symbolic argument")
			}
			ss = append(ss, s)
		}
		return NewReplacerValue(ss)
	})
	nat("(*strings.Replacer).Replace", func(m *Machine, fr *frame, args []Value) Value {
		rm := args[0].(*Native).Obj.(*ReplacerModel)
		switch s := args[1].(type) {
		case string:
			return rm.Nat.Replace(s)
		case *BStr:
			var out []Value
			pos := 0
		outer:
			for pos < len(s.B) {
				for _, pr := range rm.Pairs {
					if pr[0] == "" {
						unsupported("Replacer with empty old string on symbolic input")
					}
					if m.Branch(matchAt(m, s, pos, pr[0]), "Replacer.Replace") {
						for k := 0; k < len(pr[1]); k++ {
							out = append(out, uint64(pr[1][k]))
						}
						pos += len(pr[0])
						continue outer
					}
				}
				out = append(out, s.B[pos])
				pos++
			}
			return normBStr(&BStr{B: out})
		}
		unsupported("Replacer.Replace on abstract string")
		return nil
	})

	nat("(*bytes.Buffer).WriteByte", func(m *Machine, fr *frame, args []Value) Value {
		b := bufOf(args[0])
		*b = append(*b, args[1])
		return Iface{}
	})
	nat("(*bytes.Buffer).Write", func(m *Machine, fr *frame, args []Value) Value {
		b := bufOf(args[0])
		src := args[1].([]Value)
		*b = append(*b, src...)
		return Tuple{int64(len(src)), Iface{}}
	})
	nat("(*bytes.Buffer).WriteString", func(m *Machine, fr *frame, args []Value) Value {
		b := bufOf(args[0])
		bs, ok := toBStr(args[1])
		if !ok {
			unsupported("Buffer.WriteString of abstract string")
		}
		*b = append(*b, bs.B...)
		return Tuple{int64(len(bs.B)), Iface{}}
	})
	nat("(*bytes.Buffer).Bytes", func(m *Machine, fr *frame, args []Value) Value {
		return append([]Value{}, *bufOf(args[0])...)
	})
	nat("(*bytes.Buffer).String", func(m *Machine, fr *frame, args []Value) Value {
		return normBStr(&BStr{B: append([]Value{}, *bufOf(args[0])...)})
	})
	nat("(*bytes.Buffer).Len", func(m *Machine, fr *frame, args []Value) Value {
		return int64(len(*bufOf(args[0])))
	})

	// bytes
	nat("bytes.Equal", func(m *Machine, fr *frame, args []Value) Value {
		a, b := args[0].([]Value), args[1].([]Value)
		return m.stringEq(&BStr{B: a}, &BStr{B: b})
	})
	nat("bytes.ContainsRune", func(m *Machine, fr *frame, args []Value) Value {
		b := args[0].([]Value)
		r := asInt64(m.concretize(args[1], "ContainsRune"))
		if r >= 0x80 {
			unsupported("bytes.ContainsRune with non-ASCII rune")
		}
		c := m.Ctx
		var cs []*smt.Term
		for _, x := range b {
			cs = append(cs, c.Eq(m.intTerm(x), c.Int(r)))
		}
		return unTerm(c.Or(cs...))
	})
}

// NewReplacerValue builds the engine value of strings.NewReplacer(oldnew...).
func NewReplacerValue(oldnew []string) Value {
	rm := &ReplacerModel{Nat: strings.NewReplacer(oldnew...)}
	for i := 0; i+1 < len(oldnew); i += 2 {
		rm.Pairs = append(rm.Pairs, [2]string{oldnew[i], oldnew[i+1]})
	}
	return &Native{Kind: "replacer", Obj: rm}
}
