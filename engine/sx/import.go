package sx

import (
	"encoding/json"
	"fmt"
	"go/types"
	"net/url"
	"reflect"
	"regexp"
	"sort"
	"unsafe"
)

// Importer copies a native Go object graph into engine values, preserving pointer
// identity. Unexported fields are read through reflect + unsafe. Native library
// objects (*regexp.Regexp, *url.URL) become opaque handles.
type Importer struct {
	P      *Program
	M      *Machine
	Shared bool // mark imported cells/maps as shared pre-state
	memo   map[memoKey]*Value
	maps   map[unsafe.Pointer]*OMap
	// OnPointer is called for every imported pointer target (native address -> engine cell).
	Cells map[unsafe.Pointer]*Value
}

type memoKey struct {
	p unsafe.Pointer
	t string
}

func NewImporter(m *Machine) *Importer {
	return &Importer{P: m.P, M: m, memo: map[memoKey]*Value{}, maps: map[unsafe.Pointer]*OMap{}, Cells: map[unsafe.Pointer]*Value{}}
}

var (
	regexpPtrT = reflect.TypeOf((*regexp.Regexp)(nil))
	urlPtrT    = reflect.TypeOf((*url.URL)(nil))
	jsonNumT   = reflect.TypeOf(json.Number(""))
)

// TypeOfReflect maps a native reflect.Type to the go/types type of the loaded program.
func (p *Program) TypeOfReflect(rt reflect.Type) types.Type {
	if rt.Name() != "" && rt.PkgPath() != "" {
		return p.ImportedType(rt.PkgPath(), rt.Name())
	}
	switch rt.Kind() {
	case reflect.Bool:
		return types.Typ[types.Bool]
	case reflect.Int:
		return types.Typ[types.Int]
	case reflect.Int8:
		return types.Typ[types.Int8]
	case reflect.Int16:
		return types.Typ[types.Int16]
	case reflect.Int32:
		return types.Typ[types.Int32]
	case reflect.Int64:
		return types.Typ[types.Int64]
	case reflect.Uint:
		return types.Typ[types.Uint]
	case reflect.Uint8:
		return types.Typ[types.Uint8]
	case reflect.Uint16:
		return types.Typ[types.Uint16]
	case reflect.Uint32:
		return types.Typ[types.Uint32]
	case reflect.Uint64:
		return types.Typ[types.Uint64]
	case reflect.Uintptr:
		return types.Typ[types.Uintptr]
	case reflect.Float32:
		return types.Typ[types.Float32]
	case reflect.Float64:
		return types.Typ[types.Float64]
	case reflect.String:
		return types.Typ[types.String]
	case reflect.Slice:
		return types.NewSlice(p.TypeOfReflect(rt.Elem()))
	case reflect.Array:
		return types.NewArray(p.TypeOfReflect(rt.Elem()), int64(rt.Len()))
	case reflect.Map:
		return types.NewMap(p.TypeOfReflect(rt.Key()), p.TypeOfReflect(rt.Elem()))
	case reflect.Pointer:
		return types.NewPointer(p.TypeOfReflect(rt.Elem()))
	case reflect.Interface:
		if rt.NumMethod() == 0 {
			return p.AnyT()
		}
	}
	panic(abort{kind: abortUnsupported, msg: "importer: no go/types counterpart for " + rt.String()})
}

// readable returns a Value on which Interface-free accessors work even for unexported fields.
func readable(v reflect.Value) reflect.Value {
	if v.CanAddr() && !v.CanInterface() {
		return reflect.NewAt(v.Type(), unsafe.Pointer(v.UnsafeAddr())).Elem()
	}
	return v
}

// Import converts v (of static type t) to an engine value.
func (im *Importer) Import(v reflect.Value, t types.Type) Value {
	v = readable(v)
	switch v.Kind() {
	case reflect.Bool:
		return v.Bool()
	case reflect.Int, reflect.Int8, reflect.Int16, reflect.Int32, reflect.Int64:
		return v.Int()
	case reflect.Uint, reflect.Uint8, reflect.Uint16, reflect.Uint32, reflect.Uint64, reflect.Uintptr:
		return v.Uint()
	case reflect.Float32, reflect.Float64:
		return v.Float()
	case reflect.String:
		return v.String()
	case reflect.Interface:
		if v.IsNil() {
			return Iface{}
		}
		e := v.Elem()
		et := im.P.TypeOfReflect(e.Type())
		return Iface{T: et, V: im.Import(e, et)}
	case reflect.Pointer:
		if v.IsNil() {
			if v.Type() == regexpPtrT || v.Type() == urlPtrT {
				return (*Native)(nil)
			}
			return (*Value)(nil)
		}
		if v.Type() == regexpPtrT {
			return &Native{Kind: "regexp", Obj: (*regexp.Regexp)(v.UnsafePointer())}
		}
		if v.Type() == urlPtrT {
			return im.importURL((*url.URL)(v.UnsafePointer()))
		}
		et := deref(t)
		key := memoKey{v.UnsafePointer(), et.String()}
		if c, ok := im.memo[key]; ok {
			return c
		}
		cell := new(Value)
		im.memo[key] = cell
		im.Cells[v.UnsafePointer()] = cell
		*cell = im.Import(v.Elem(), et)
		im.markShared(cell)
		return cell
	case reflect.Struct:
		st := t.Underlying().(*types.Struct)
		if st.NumFields() != v.NumField() {
			panic(abort{kind: abortUnsupported, msg: fmt.Sprintf("importer: struct layout mismatch for %s", t)})
		}
		s := make(Struct, v.NumField())
		for i := range s {
			s[i] = im.Import(v.Field(i), st.Field(i).Type())
		}
		return s
	case reflect.Slice:
		if v.IsNil() {
			return []Value(nil)
		}
		et := t.Underlying().(*types.Slice).Elem()
		spare := 0
		if im.Shared {
			// A shared slice is given spare capacity (as slices built by append or by
			// encoding/json have): an in-place append, insert or copy into it writes memory that
			// other holders of the backing array can see, and is reported as a shared write.
			spare = 2
		}
		s := make([]Value, v.Len(), v.Len()+spare)
		for i := range s {
			s[i] = im.Import(v.Index(i), et)
		}
		if im.Shared {
			full := s[:cap(s)]
			for i := len(s); i < len(full); i++ {
				full[i] = zero(et)
			}
			for i := range full {
				im.M.MarkShared(&full[i])
			}
		}
		return s
	case reflect.Array:
		et := t.Underlying().(*types.Array).Elem()
		a := make(Array, v.Len())
		for i := range a {
			a[i] = im.Import(v.Index(i), et)
		}
		return a
	case reflect.Map:
		if v.IsNil() {
			return (*OMap)(nil)
		}
		if om, ok := im.maps[v.UnsafePointer()]; ok {
			return om
		}
		mt := t.Underlying().(*types.Map)
		om := NewOMap(mt.Key())
		om.Shared = im.Shared
		im.maps[v.UnsafePointer()] = om
		type kv struct {
			k, v Value
			sk   string
		}
		var kvs []kv
		it := v.MapRange()
		for it.Next() {
			k := im.Import(it.Key(), mt.Key())
			kvs = append(kvs, kv{k, im.Import(it.Value(), mt.Elem()), sortKey(k, it.Key())})
		}
		sort.SliceStable(kvs, func(i, j int) bool { return kvs[i].sk < kvs[j].sk })
		for _, e := range kvs {
			om.entries = append(om.entries, mapEntry{e.k, e.v})
		}
		return om
	case reflect.Func:
		if v.IsNil() {
			return zero(t)
		}
	}
	panic(abort{kind: abortUnsupported, msg: "importer: cannot import " + v.Type().String()})
}

func (im *Importer) markShared(cell *Value) {
	if !im.Shared {
		return
	}
	im.M.MarkShared(cell)
	switch s := (*cell).(type) {
	case Struct:
		for i := range s {
			im.M.MarkShared(&s[i])
		}
	case Array:
		for i := range s {
			im.M.MarkShared(&s[i])
		}
	}
}

func sortKey(k Value, nk reflect.Value) string {
	switch k := k.(type) {
	case string:
		return "s" + k
	case int64:
		return fmt.Sprintf("i%020d", k+(1<<62))
	case uint64:
		return fmt.Sprintf("u%020d", k)
	case *Native:
		if re, ok := k.Obj.(*regexp.Regexp); ok {
			return "r" + re.String()
		}
	case *Value:
		return fmt.Sprintf("p%p", k)
	}
	return fmt.Sprintf("z%v", nk)
}

// importURL imports *url.URL as a transparent engine struct behind a pointer.
func (im *Importer) importURL(u *url.URL) Value {
	key := memoKey{unsafe.Pointer(u), "net/url.URL"}
	if c, ok := im.memo[key]; ok {
		return c
	}
	t := im.P.ImportedType("net/url", "URL")
	cell := new(Value)
	im.memo[key] = cell
	*cell = im.Import(reflect.ValueOf(u).Elem(), t)
	return cell
}

// ImportJSON converts a native JSON-shaped value (as produced by encoding/json into
// `any`, possibly with json.Number) into an engine interface value.
func (p *Program) ImportJSON(v any) Value {
	if v == nil {
		return Iface{}
	}
	rv := reflect.ValueOf(v)
	t := p.TypeOfReflect(rv.Type())
	im := &Importer{P: p, memo: map[memoKey]*Value{}, maps: map[unsafe.Pointer]*OMap{}, Cells: map[unsafe.Pointer]*Value{}}
	return Iface{T: t, V: im.Import(rv, t)}
}

// ExportJSON converts an engine JSON-shaped value (as held in an `any`) to a native
// value. Symbolic nodes are exported as NodeRef markers.
type NodeRef struct{ N *Node }

func ExportJSON(v Value) any {
	switch v := v.(type) {
	case nil:
		return nil
	case Iface:
		if v.T == nil {
			return nil
		}
		switch x := v.V.(type) {
		case *Node:
			return NodeRef{x}
		case NodeInner:
			return NodeRef{x.N}
		}
		return ExportJSON(v.V)
	case bool, string, float64:
		return v
	case int64:
		return float64(v)
	case uint64:
		return float64(v)
	case []Value:
		out := make([]any, len(v))
		for i, e := range v {
			out[i] = ExportJSON(e)
		}
		return out
	case *OMap:
		out := map[string]any{}
		if v != nil {
			for _, e := range v.entries {
				k, _ := e.k.(string)
				out[k] = ExportJSON(e.v)
			}
		}
		return out
	case *Value:
		if v == nil {
			return nil
		}
		return ExportJSON(*v)
	}
	return fmt.Sprintf("<unexportable %T>", v)
}

// OverlayEntries lists the entries written into node n on this path.
func (m *Machine) OverlayEntries(n *Node) (keys []string, vals []Value) {
	ov := m.Overlay(n)
	if ov == nil {
		return nil, nil
	}
	for _, k := range ov.Keys {
		keys = append(keys, k)
		vals = append(vals, ov.Vals[k])
	}
	return
}

// ImportStruct imports a native struct value (given by pointer) as an engine struct value.
func (im *Importer) ImportStruct(ptr any) Value {
	rv := reflect.ValueOf(ptr)
	t := im.P.TypeOfReflect(rv.Type().Elem())
	return im.Import(rv.Elem(), t)
}
