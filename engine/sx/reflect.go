package sx

import (
	"fmt"
	"go/types"
	"reflect"
	"sort"
	"unsafe"

	"golang.org/x/tools/go/ssa"

	"verif/engine/smt"
)

// RType is the payload of a reflect.Type interface value (dynamic type P.RTypeT).
type RType struct {
	T types.Type
}

func (r RType) String() string {
	if r.T == nil {
		return "<nil type>"
	}
	return r.T.String()
}

func (r RType) Identical(o RType) bool { return sameType(r.T, o.T) }

// RV is the payload in slot 0 of a reflect.Value struct.
type RV struct {
	// concrete engine value of static type T. If Addr != nil the value lives at *Addr
	// (addressable / settable); otherwise V holds it.
	T    types.Type
	V    Value
	Addr *Value

	// symbolic JSON node. Wrapped means the Value has Kind Interface and holds the node.
	N       *Node
	Wrapped bool
	Ptr     int // extra pointer layers still around the node (representation wrappers)

	RO bool // obtained through an unexported field
}

func (rv *RV) val() Value {
	if rv.Addr != nil {
		return *rv.Addr
	}
	return rv.V
}

func mkRV(rv *RV) Value {
	var slot Value = (*Value)(nil)
	if rv != nil {
		slot = rv
	}
	return Struct{slot, unsafe.Pointer(nil), uint64(0)}
}

func rvOf(v Value) *RV {
	s, ok := v.(Struct)
	if !ok {
		panic(fmt.Sprintf("rvOf: not a reflect.Value: %T", v))
	}
	rv, _ := s[0].(*RV)
	return rv
}

func rpanic(method string, what string) {
	panic(targetPanic{v: "reflect: call of reflect.Value." + method + " on " + what, what: "reflect"})
}

func reflectKindOf(t types.Type) reflect.Kind {
	switch t := t.Underlying().(type) {
	case *types.Basic:
		switch t.Kind() {
		case types.Bool:
			return reflect.Bool
		case types.Int:
			return reflect.Int
		case types.Int8:
			return reflect.Int8
		case types.Int16:
			return reflect.Int16
		case types.Int32:
			return reflect.Int32
		case types.Int64:
			return reflect.Int64
		case types.Uint:
			return reflect.Uint
		case types.Uint8:
			return reflect.Uint8
		case types.Uint16:
			return reflect.Uint16
		case types.Uint32:
			return reflect.Uint32
		case types.Uint64:
			return reflect.Uint64
		case types.Uintptr:
			return reflect.Uintptr
		case types.Float32:
			return reflect.Float32
		case types.Float64:
			return reflect.Float64
		case types.Complex64:
			return reflect.Complex64
		case types.Complex128:
			return reflect.Complex128
		case types.String:
			return reflect.String
		case types.UnsafePointer:
			return reflect.UnsafePointer
		}
	case *types.Array:
		return reflect.Array
	case *types.Chan:
		return reflect.Chan
	case *types.Signature:
		return reflect.Func
	case *types.Interface:
		return reflect.Interface
	case *types.Map:
		return reflect.Map
	case *types.Pointer:
		return reflect.Pointer
	case *types.Slice:
		return reflect.Slice
	case *types.Struct:
		return reflect.Struct
	}
	panic(fmt.Sprint("unexpected type: ", t))
}

// kindTerm returns the reflect.Kind of a node-backed Value as an Int term.
func (m *Machine) nodeKind(rv *RV) *smt.Term {
	c := m.Ctx
	if rv.Ptr > 0 {
		return c.Int(int64(reflect.Pointer))
	}
	if rv.Wrapped {
		return c.Int(int64(reflect.Interface))
	}
	n := rv.N
	tag := m.simp(n.Tag)
	k := func(tag int) *smt.Term { return m.nodeKindForTag(n, tag) }
	if tv, ok := tag.Int64(); ok {
		return m.simp(k(int(tv)))
	}
	r := k(TagObject)
	for t := TagArray; t >= TagNull; t-- {
		r = c.Ite(c.Eq(tag, c.Int(int64(t))), k(t), r)
	}
	return r
}

// nodeKindForTag returns the kind of node n given its tag (may depend on Rep).
func (m *Machine) nodeKindForTag(n *Node, tag int) *smt.Term {
	c := m.Ctx
	switch tag {
	case TagNull:
		return c.Int(int64(reflect.Invalid))
	case TagBool:
		return c.Int(int64(reflect.Bool))
	case TagString:
		return c.Int(int64(reflect.String))
	case TagArray:
		return m.simp(c.Ite(c.Eq(n.CRep, c.Int(CRepAlt)), c.Int(int64(reflect.Array)), c.Int(int64(reflect.Slice))))
	case TagObject:
		return c.Int(int64(reflect.Map))
	}
	// number: depends on the representation
	rep := m.simp(n.Rep)
	kindOfRep := func(r int) int64 {
		if r == RepJSONNumber {
			return int64(reflect.String)
		}
		return int64(reflectKindOf(types.Typ[repKinds[r]]))
	}
	if rv, ok := rep.Int64(); ok {
		return c.Int(kindOfRep(int(rv)))
	}
	reps := n.Tm.NumReps
	r := c.Int(kindOfRep(reps[len(reps)-1]))
	for i := len(reps) - 2; i >= 0; i-- {
		r = c.Ite(c.Eq(rep, c.Int(int64(reps[i]))), c.Int(kindOfRep(reps[i])), r)
	}
	return r
}

// require forks on cond; where it is false the program panics as real reflect would.
func (m *Machine) require(cond *smt.Term, method, what string) {
	if !m.Branch(cond, "reflect."+method) {
		rpanic(method, what)
	}
}

func (m *Machine) intVal(t *smt.Term) Value {
	t = m.simp(t)
	if v, ok := t.Int64(); ok {
		return v
	}
	return SymInt{t}
}

func (m *Machine) uintVal(t *smt.Term) Value {
	t = m.simp(t)
	if t.Op == smt.OpConst {
		return t.I.Uint64()
	}
	return SymInt{t}
}

// nodeTagIn returns the term "node's tag is one of tags" simplified on this path.
func (m *Machine) nodeTagIn(n *Node, tags ...int) *smt.Term {
	c := m.Ctx
	var cs []*smt.Term
	for _, t := range tags {
		cs = append(cs, n.TagIs(t))
	}
	return m.simp(c.Or(cs...))
}

// numRepTerm returns the term "node is a number whose representation satisfies pred".
func (m *Machine) numRepTerm(n *Node, pred func(int) bool) *smt.Term {
	c := m.Ctx
	return m.simp(c.And(n.TagIs(TagNumber), n.repIn(pred)))
}

// nodeWrap returns the number of pointer layers around n's value on this path.
func (m *Machine) nodeWrap(n *Node) int {
	if n.Wrap.Op == smt.OpConst {
		return 0
	}
	return int(asInt64(m.concretize(SymInt{n.Wrap}, "node-wrap")))
}

func (m *Machine) nodeCRep(n *Node) int {
	if n.CRep.Op == smt.OpConst {
		return 0
	}
	return int(asInt64(m.concretize(SymInt{n.CRep}, "node-crep")))
}

// nodeGoType returns the concrete Go type of the node's value (without wrappers) on
// this path, forking on tag and representation selectors.
func (m *Machine) nodeGoType(n *Node) types.Type {
	tag := int(asInt64(m.concretize(SymInt{n.Tag}, "node-type-tag")))
	switch tag {
	case TagNull:
		return nil
	case TagBool:
		return types.Typ[types.Bool]
	case TagString:
		if m.nodeCRep(n) == CRepTyped {
			return n.Tm.StrT
		}
		return types.Typ[types.String]
	case TagArray:
		switch m.nodeCRep(n) {
		case CRepTyped:
			return types.NewSlice(m.nodeElemType(n.Elem(0)))
		case CRepAlt:
			l := asInt64(m.concretize(SymInt{n.Len}, "node-type-len"))
			return types.NewArray(m.P.AnyT(), l)
		}
		return types.NewSlice(m.P.AnyT())
	case TagObject:
		switch m.nodeCRep(n) {
		case CRepTyped:
			return types.NewMap(types.Typ[types.String], m.nodeElemType(n.Val(0)))
		case CRepAlt:
			return types.NewMap(n.Tm.KeyT, m.P.AnyT())
		}
		return types.NewMap(types.Typ[types.String], m.P.AnyT())
	}
	rep := int(asInt64(m.concretize(SymInt{n.Rep}, "node-type-rep")))
	if rep == RepJSONNumber {
		return m.P.ImportedType("encoding/json", "Number")
	}
	return types.Typ[repKinds[rep]]
}

// nodeElemType returns the element type of a typed container whose first child is first.
func (m *Machine) nodeElemType(first *Node) types.Type {
	t := m.nodeGoType(first)
	if t == nil {
		panic(abort{kind: abortInfeasible, msg: "typed container with null element"})
	}
	for w := m.nodeWrap(first); w > 0; w-- {
		t = types.NewPointer(t)
	}
	return t
}

func (p *Program) AnyT() types.Type { return types.Universe.Lookup("any").Type() }

func registerReflect(p *Program) {
	reg := func(name string, fn func(m *Machine, fr *frame, args []Value) Value) {
		p.Reg(name, "model", fn)
	}
	anyT := p.AnyT()

	valueOf := func(m *Machine, x Iface) Value {
		if x.T == nil {
			return mkRV(nil)
		}
		if x.T == p.NodeT {
			if in, ok := x.V.(NodeInner); ok {
				return mkRV(&RV{N: in.N})
			}
			n := x.V.(*Node)
			return mkRV(&RV{N: n, Ptr: m.nodeWrap(n)})
		}
		return mkRV(&RV{T: x.T, V: x.V})
	}
	reg("reflect.ValueOf", func(m *Machine, fr *frame, args []Value) Value {
		return valueOf(m, args[0].(Iface))
	})

	reg("(reflect.Value).IsValid", func(m *Machine, fr *frame, args []Value) Value {
		rv := rvOf(args[0])
		if rv == nil {
			return false
		}
		if rv.N != nil && !rv.Wrapped && rv.Ptr == 0 {
			return unTerm(m.simp(m.Ctx.Not(rv.N.TagIs(TagNull))))
		}
		return true
	})

	reg("(reflect.Value).Kind", func(m *Machine, fr *frame, args []Value) Value {
		rv := rvOf(args[0])
		if rv == nil {
			return uint64(reflect.Invalid)
		}
		if rv.N != nil {
			return m.uintVal(m.nodeKind(rv))
		}
		return uint64(reflectKindOf(rv.T))
	})

	reg("(reflect.Value).Elem", func(m *Machine, fr *frame, args []Value) Value {
		rv := rvOf(args[0])
		if rv == nil {
			rpanic("Elem", "zero Value")
		}
		if rv.N != nil {
			if rv.Wrapped {
				return mkRV(&RV{N: rv.N, Ptr: m.nodeWrap(rv.N)})
			}
			if rv.Ptr > 0 {
				if rv.Ptr == 1 && m.Branch(m.nodeTagIn(rv.N, TagNull), "reflect.Elem.nilptr") {
					return mkRV(nil) // typed nil pointer
				}
				return mkRV(&RV{N: rv.N, Ptr: rv.Ptr - 1})
			}
			// Elem on a non-interface, non-pointer kind panics in real reflect.
			m.require(m.Ctx.False, "Elem", "non-pointer non-interface Value")
		}
		switch t := rv.T.Underlying().(type) {
		case *types.Interface:
			return valueOf(m, rv.val().(Iface))
		case *types.Pointer:
			p := rv.val().(*Value)
			if p == nil {
				return mkRV(nil)
			}
			return mkRV(&RV{T: t.Elem(), Addr: p, RO: rv.RO})
		}
		rpanic("Elem", rv.T.String()+" Value")
		return nil
	})

	canKind := func(name string, pred func(k reflect.Kind) bool, repPred func(int) bool) {
		reg("(reflect.Value)."+name, func(m *Machine, fr *frame, args []Value) Value {
			rv := rvOf(args[0])
			if rv == nil {
				return false
			}
			if rv.N != nil {
				if rv.Wrapped || rv.Ptr > 0 {
					return false
				}
				return unTerm(m.numRepTerm(rv.N, repPred))
			}
			return pred(reflectKindOf(rv.T))
		})
	}
	canKind("CanInt", func(k reflect.Kind) bool { return k >= reflect.Int && k <= reflect.Int64 },
		func(r int) bool { return r >= RepInt && r <= RepInt64 })
	canKind("CanUint", func(k reflect.Kind) bool { return k >= reflect.Uint && k <= reflect.Uintptr },
		func(r int) bool { return r >= RepUint && r <= RepUintptr })
	canKind("CanFloat", func(k reflect.Kind) bool { return k == reflect.Float32 || k == reflect.Float64 }, repIsFloat)

	reg("(reflect.Value).Int", func(m *Machine, fr *frame, args []Value) Value {
		rv := rvOf(args[0])
		if rv == nil {
			rpanic("Int", "zero Value")
		}
		if rv.N != nil {
			if rv.Wrapped || rv.Ptr > 0 {
				rpanic("Int", "interface Value")
			}
			m.require(m.numRepTerm(rv.N, func(r int) bool { return r >= RepInt && r <= RepInt64 }), "Int", "non-int Value")
			return m.intVal(rv.N.IVal)
		}
		if k := reflectKindOf(rv.T); k < reflect.Int || k > reflect.Int64 {
			rpanic("Int", rv.T.String()+" Value")
		}
		return rv.val()
	})
	reg("(reflect.Value).Uint", func(m *Machine, fr *frame, args []Value) Value {
		rv := rvOf(args[0])
		if rv == nil {
			rpanic("Uint", "zero Value")
		}
		if rv.N != nil {
			if rv.Wrapped || rv.Ptr > 0 {
				rpanic("Uint", "interface Value")
			}
			m.require(m.numRepTerm(rv.N, func(r int) bool { return r >= RepUint && r <= RepUintptr }), "Uint", "non-uint Value")
			return m.uintVal(rv.N.IVal)
		}
		if k := reflectKindOf(rv.T); k < reflect.Uint || k > reflect.Uintptr {
			rpanic("Uint", rv.T.String()+" Value")
		}
		return rv.val()
	})
	reg("(reflect.Value).Float", func(m *Machine, fr *frame, args []Value) Value {
		rv := rvOf(args[0])
		if rv == nil {
			rpanic("Float", "zero Value")
		}
		if rv.N != nil {
			if rv.Wrapped || rv.Ptr > 0 {
				rpanic("Float", "interface Value")
			}
			m.require(m.numRepTerm(rv.N, repIsFloat), "Float", "non-float Value")
			return rv.N.Float()
		}
		if k := reflectKindOf(rv.T); k != reflect.Float32 && k != reflect.Float64 {
			rpanic("Float", rv.T.String()+" Value")
		}
		return rv.val()
	})
	reg("(reflect.Value).Bool", func(m *Machine, fr *frame, args []Value) Value {
		rv := rvOf(args[0])
		if rv == nil {
			rpanic("Bool", "zero Value")
		}
		if rv.N != nil {
			if rv.Wrapped || rv.Ptr > 0 {
				rpanic("Bool", "interface Value")
			}
			m.require(m.nodeTagIn(rv.N, TagBool), "Bool", "non-bool Value")
			return unTerm(m.simp(rv.N.B))
		}
		if reflectKindOf(rv.T) != reflect.Bool {
			rpanic("Bool", rv.T.String()+" Value")
		}
		return rv.val()
	})
	reg("(reflect.Value).String", func(m *Machine, fr *frame, args []Value) Value {
		rv := rvOf(args[0])
		if rv == nil {
			return "<invalid Value>"
		}
		if rv.N != nil {
			if rv.Wrapped || rv.Ptr > 0 {
				return "<interface {} Value>"
			}
			isStr := m.simp(m.Ctx.Or(rv.N.TagIs(TagString), m.numRepTerm(rv.N, func(r int) bool { return r == RepJSONNumber })))
			if m.Branch(isStr, "reflect.String") {
				if m.Branch(m.nodeTagIn(rv.N, TagString), "reflect.String.tag") {
					return &AStr{rv.N.Str}
				}
				return &AStr{T: m.jsonNumberText(rv.N)}
			}
			return "<T Value>"
		}
		if reflectKindOf(rv.T) == reflect.String {
			return rv.val()
		}
		return "<" + rv.T.String() + " Value>"
	})

	reg("(reflect.Value).Len", func(m *Machine, fr *frame, args []Value) Value {
		rv := rvOf(args[0])
		if rv == nil {
			rpanic("Len", "zero Value")
		}
		if rv.N != nil {
			if rv.Wrapped || rv.Ptr > 0 {
				rpanic("Len", "interface Value")
			}
			n := rv.N
			c := m.Ctx
			m.require(m.nodeTagIn(n, TagArray, TagObject, TagString), "Len", "non-container Value")
			t := m.simp(c.Ite(n.TagIs(TagArray), n.Len, c.Ite(n.TagIs(TagObject), n.CountPresent(), m.StrBytes(n.Str))))
			return m.intVal(t)
		}
		switch v := rv.val().(type) {
		case []Value:
			return int64(len(v))
		case Array:
			return int64(len(v))
		case *OMap:
			return int64(v.Len())
		case string, *BStr, *AStr:
			return m.strLen(v)
		case *Value: // pointer to array
			if _, ok := rv.T.Underlying().(*types.Pointer); ok && v != nil {
				if a, ok := (*v).(Array); ok {
					return int64(len(a))
				}
			}
		}
		rpanic("Len", rv.T.String()+" Value")
		return nil
	})

	reg("(reflect.Value).Index", func(m *Machine, fr *frame, args []Value) Value {
		rv := rvOf(args[0])
		if rv == nil {
			rpanic("Index", "zero Value")
		}
		if rv.N != nil {
			if rv.Wrapped || rv.Ptr > 0 {
				rpanic("Index", "interface Value")
			}
			n := rv.N
			c := m.Ctx
			m.require(m.nodeTagIn(n, TagArray), "Index", "non-slice Value")
			it := m.intTerm(args[1])
			if !m.Branch(c.And(c.Le(c.Int(0), it), c.Lt(it, n.Len)), "reflect.Index.range") {
				panic(targetPanic{v: "reflect: slice index out of range", what: "reflect"})
			}
			var idx Value = args[1]
			if _, ok := idx.(SymInt); ok {
				// 0 <= i < Len <= MaxLen
				var conds []*smt.Term
				for i := 0; i < n.MaxLen(); i++ {
					conds = append(conds, c.Eq(it, c.Int(int64(i))))
				}
				idx = int64(m.Choose(conds, "reflect.Index.concretize"))
			}
			i := int(asInt64(idx))
			if i >= n.MaxLen() {
				panic(abort{kind: abortInfeasible, msg: "index beyond template"})
			}
			return mkRV(m.childRV(n, n.Elem(i)))
		}
		switch t := rv.T.Underlying().(type) {
		case *types.Slice:
			s := rv.val().([]Value)
			i := m.rindex(args[1], len(s))
			return mkRV(&RV{T: t.Elem(), Addr: &s[i], RO: rv.RO})
		case *types.Array:
			a := rv.val().(Array)
			i := m.rindex(args[1], len(a))
			if rv.Addr != nil {
				return mkRV(&RV{T: t.Elem(), Addr: &a[i], RO: rv.RO})
			}
			return mkRV(&RV{T: t.Elem(), V: a[i], RO: rv.RO})
		case *types.Basic:
			if t.Kind() == types.String {
				s := rv.val()
				n := int(asInt64(m.strLen(s)))
				i := m.rindex(args[1], n)
				return mkRV(&RV{T: types.Typ[types.Uint8], V: m.stringIndex(s, int64(i), "reflect.Index")})
			}
		}
		rpanic("Index", rv.T.String()+" Value")
		return nil
	})

	reg("(reflect.Value).Interface", func(m *Machine, fr *frame, args []Value) Value {
		rv := rvOf(args[0])
		if rv == nil {
			rpanic("Interface", "zero Value")
		}
		if rv.RO {
			panic(targetPanic{v: "reflect.Value.Interface: cannot return value obtained from unexported field or method", what: "reflect"})
		}
		if rv.N != nil {
			w := m.nodeWrap(rv.N)
			if rv.Wrapped {
				if w == 0 && m.Branch(m.nodeTagIn(rv.N, TagNull), "reflect.Interface.nil") {
					return Iface{}
				}
				return Iface{T: p.NodeT, V: rv.N}
			}
			if rv.Ptr > 0 {
				if rv.Ptr == w {
					return Iface{T: p.NodeT, V: rv.N}
				}
				unsupported("Interface() of partially unwrapped node")
			}
			m.require(m.simp(m.Ctx.Not(rv.N.TagIs(TagNull))), "Interface", "zero Value")
			if w == 0 {
				return Iface{T: p.NodeT, V: rv.N}
			}
			return Iface{T: p.NodeT, V: NodeInner{rv.N}}
		}
		if _, ok := rv.T.Underlying().(*types.Interface); ok {
			return rv.val()
		}
		return Iface{T: rv.T, V: copyVal(rv.val())}
	})

	reg("(reflect.Value).IsNil", func(m *Machine, fr *frame, args []Value) Value {
		rv := rvOf(args[0])
		if rv == nil {
			rpanic("IsNil", "zero Value")
		}
		if rv.N != nil {
			if rv.Wrapped {
				// an interface holding a typed nil pointer is not nil
				return unTerm(m.simp(m.Ctx.And(rv.N.TagIs(TagNull), m.Ctx.Eq(rv.N.Wrap, m.Ctx.Int(0)))))
			}
			if rv.Ptr > 0 {
				return unTerm(m.nodeTagIn(rv.N, TagNull))
			}
			c := m.Ctx
			ok := c.Or(rv.N.TagIs(TagObject), c.And(rv.N.TagIs(TagArray), c.Ne(rv.N.CRep, c.Int(CRepAlt))))
			m.require(m.simp(ok), "IsNil", "non-nilable Value")
			return false
		}
		switch v := rv.val().(type) {
		case *Value:
			return v == nil
		case []Value:
			return v == nil
		case *OMap:
			return v == nil
		case Iface:
			return v.T == nil
		case *ssa.Function, *Closure, *Intrinsic:
			return isNilFunc(v)
		case *Native:
			return v == nil
		}
		rpanic("IsNil", rv.T.String()+" Value")
		return nil
	})

	reg("(reflect.Value).Type", func(m *Machine, fr *frame, args []Value) Value {
		rv := rvOf(args[0])
		if rv == nil {
			rpanic("Type", "zero Value")
		}
		if rv.N != nil {
			if rv.Ptr > 0 {
				unsupported("Type() of pointer-wrapped node")
			}
			if rv.Wrapped {
				return Iface{T: p.RTypeT, V: RType{anyT}}
			}
			t := m.nodeGoType(rv.N)
			if t == nil {
				rpanic("Type", "zero Value")
			}
			return Iface{T: p.RTypeT, V: RType{t}}
		}
		return Iface{T: p.RTypeT, V: RType{rv.T}}
	})

	reg("(reflect.Value).MapIndex", func(m *Machine, fr *frame, args []Value) Value {
		rv := rvOf(args[0])
		key := rvOf(args[1])
		if rv == nil {
			rpanic("MapIndex", "zero Value")
		}
		if rv.N != nil {
			if rv.Wrapped || rv.Ptr > 0 {
				rpanic("MapIndex", "interface Value")
			}
			n := rv.N
			m.require(m.nodeTagIn(n, TagObject), "MapIndex", "non-map Value")
			if key == nil || key.N != nil {
				unsupported("MapIndex with symbolic key Value")
			}
			m.checkMapKeyAssignable(n, key.T)
			ks, ok := key.val().(string)
			if !ok {
				unsupported("MapIndex on symbolic object with non-concrete key")
			}
			if ov := m.Overlay(n); ov != nil {
				if v, ok := ov.Vals[ks]; ok {
					return mkRV(&RV{T: anyT, V: v})
				}
			}
			i := n.KeyIndex(ks)
			if i < 0 {
				return mkRV(nil)
			}
			if !m.Branch(m.simp(n.Present[i]), "reflect.MapIndex.present") {
				return mkRV(nil)
			}
			return mkRV(m.childRV(n, n.Val(i)))
		}
		mt, ok := rv.T.Underlying().(*types.Map)
		if !ok {
			rpanic("MapIndex", rv.T.String()+" Value")
		}
		if key == nil {
			rpanic("MapIndex", "zero key Value")
		}
		if key.N != nil {
			unsupported("MapIndex on concrete map with symbolic key")
		}
		if !types.AssignableTo(key.T, mt.Key()) {
			panic(targetPanic{v: "reflect.Value.MapIndex: value of type " + key.T.String() + " is not assignable to type " + mt.Key().String(), what: "reflect"})
		}
		om := rv.val().(*OMap)
		v, found := om.Get(m, key.val())
		if !found {
			return mkRV(nil)
		}
		return mkRV(&RV{T: mt.Elem(), V: v, RO: rv.RO})
	})

	// iteration
	type mapIterState struct {
		keys []Value // reflect.Value structs
		vals []Value
		i    int
	}
	entriesOf := func(m *Machine, rv *RV, method string) (keys, vals []Value) {
		if rv == nil {
			rpanic(method, "zero Value")
		}
		if rv.N != nil {
			if rv.Wrapped || rv.Ptr > 0 {
				rpanic(method, "interface Value")
			}
			n := rv.N
			m.require(m.nodeTagIn(n, TagObject), method, "non-map Value")
			var present []int
			for i := range n.Keys() {
				if m.Branch(m.simp(n.Present[i]), "reflect."+method+".present") {
					present = append(present, i)
				}
			}
			var order []Value
			for _, i := range present {
				order = append(order, int64(i))
			}
			order = m.orderKeys(order)
			kt := m.nodeKeyType(n)
			ov := m.Overlay(n)
			for _, iv := range order {
				i := int(iv.(int64))
				keys = append(keys, mkRV(&RV{T: kt, V: n.Keys()[i]}))
				if ov != nil {
					if v, ok := ov.Vals[n.Keys()[i]]; ok {
						vals = append(vals, mkRV(&RV{T: anyT, V: v}))
						continue
					}
				}
				vals = append(vals, mkRV(m.childRV(n, n.Val(i))))
			}
			if ov != nil {
				for _, k := range ov.Keys {
					already := false
					for _, iv := range order {
						if n.Keys()[int(iv.(int64))] == k {
							already = true
						}
					}
					if !already {
						keys = append(keys, mkRV(&RV{T: kt, V: k}))
						vals = append(vals, mkRV(&RV{T: anyT, V: ov.Vals[k]}))
					}
				}
			}
			return
		}
		mt, ok := rv.T.Underlying().(*types.Map)
		if !ok {
			rpanic(method, rv.T.String()+" Value")
		}
		om := rv.val().(*OMap)
		for _, k := range m.orderKeys(om.Keys()) {
			v, _ := om.Get(m, k)
			keys = append(keys, mkRV(&RV{T: mt.Key(), V: k, RO: rv.RO}))
			vals = append(vals, mkRV(&RV{T: mt.Elem(), V: v, RO: rv.RO}))
		}
		return
	}
	reg("(reflect.Value).MapRange", func(m *Machine, fr *frame, args []Value) Value {
		keys, vals := entriesOf(m, rvOf(args[0]), "MapRange")
		var cell Value = Struct{&mapIterState{keys: keys, vals: vals, i: -1}}
		return &cell
	})
	iterState := func(v Value) *mapIterState {
		p := v.(*Value)
		if p == nil {
			nilDeref("MapIter")
		}
		return (*p).(Struct)[0].(*mapIterState)
	}
	reg("(*reflect.MapIter).Next", func(m *Machine, fr *frame, args []Value) Value {
		st := iterState(args[0])
		st.i++
		return st.i < len(st.keys)
	})
	reg("(*reflect.MapIter).Key", func(m *Machine, fr *frame, args []Value) Value {
		st := iterState(args[0])
		if st.i < 0 || st.i >= len(st.keys) {
			panic(targetPanic{v: "MapIter.Key called before Next or after exhaustion", what: "reflect"})
		}
		return st.keys[st.i]
	})
	reg("(*reflect.MapIter).Value", func(m *Machine, fr *frame, args []Value) Value {
		st := iterState(args[0])
		if st.i < 0 || st.i >= len(st.keys) {
			panic(targetPanic{v: "MapIter.Value called before Next or after exhaustion", what: "reflect"})
		}
		return st.vals[st.i]
	})
	reg("(reflect.Value).MapKeys", func(m *Machine, fr *frame, args []Value) Value {
		keys, _ := entriesOf(m, rvOf(args[0]), "MapKeys")
		return append([]Value{}, keys...)
	})
	reg("(reflect.Value).Seq2", func(m *Machine, fr *frame, args []Value) Value {
		rv := rvOf(args[0])
		return &Intrinsic{Name: "reflect.Seq2.iter", Fn: func(m *Machine, fr *frame, a []Value) Value {
			yield := a[0]
			if rv != nil && rv.N == nil {
				switch rv.T.Underlying().(type) {
				case *types.Slice, *types.Array:
					unsupported("Seq2 over slice")
				}
			}
			keys, vals := entriesOf(m, rv, "Seq2")
			for i := range keys {
				if !m.truth(m.call(fr, 0, yield, []Value{keys[i], vals[i]}), "seq2-yield") {
					break
				}
			}
			return nil
		}}
	})

	reg("(reflect.Value).UnsafePointer", func(m *Machine, fr *frame, args []Value) Value {
		rv := rvOf(args[0])
		if rv == nil {
			rpanic("UnsafePointer", "zero Value")
		}
		if rv.N != nil {
			if rv.Wrapped {
				rpanic("UnsafePointer", "interface Value")
			}
			// distinct containers and pointees in a JSON-shaped instance never alias
			if rv.Ptr > 0 {
				return &Native{Kind: "uptr", Obj: [2]any{rv.N, rv.Ptr}}
			}
			return &Native{Kind: "uptr", Obj: rv.N}
		}
		switch v := rv.val().(type) {
		case *Value:
			return &Native{Kind: "uptr", Obj: v}
		case *OMap:
			return &Native{Kind: "uptr", Obj: v}
		case []Value:
			if len(v) == 0 {
				if cap(v) == 0 {
					return &Native{Kind: "uptr", Obj: nil}
				}
				return &Native{Kind: "uptr", Obj: &v[:1][0]}
			}
			return &Native{Kind: "uptr", Obj: &v[0]}
		}
		rpanic("UnsafePointer", rv.T.String()+" Value")
		return nil
	})

	reg("(reflect.Value).IsZero", func(m *Machine, fr *frame, args []Value) Value {
		rv := rvOf(args[0])
		if rv == nil {
			rpanic("IsZero", "zero Value")
		}
		if rv.N != nil {
			return m.nodeIsZero(rv)
		}
		return m.isZero(rv.T, rv.val())
	})

	reg("(reflect.Value).Bytes", func(m *Machine, fr *frame, args []Value) Value {
		rv := rvOf(args[0])
		if rv != nil && rv.N != nil && !rv.Wrapped && rv.Ptr == 0 {
			// a typed slice whose element type is uint8
			n := rv.N
			c := m.Ctx
			first := n.Elem(0)
			isBytes := c.And(n.TagIs(TagArray), c.Eq(n.CRep, c.Int(CRepTyped)), first.TagIs(TagNumber), c.Eq(first.Rep, c.Int(RepUint8)))
			m.require(m.simp(isBytes), "Bytes", "non-[]byte Value")
			l := int(asInt64(m.concretize(SymInt{n.Len}, "reflect.Bytes.len")))
			out := make([]Value, l)
			for i := range out {
				out[i] = m.uintVal(n.Elem(i).IVal)
			}
			return out
		}
		if rv == nil || rv.N != nil {
			rpanic("Bytes", "non-[]byte Value")
		}
		if s, ok := rv.val().([]Value); ok {
			return s
		}
		rpanic("Bytes", rv.T.String()+" Value")
		return nil
	})

	reg("(reflect.Value).Complex", func(m *Machine, fr *frame, args []Value) Value {
		unsupported("complex numbers")
		return nil
	})

	registerReflectStruct(p)
	registerReflectType(p)
	registerReflectSet(p)
}

// rindex checks a reflect index.
func (m *Machine) rindex(idx Value, n int) int {
	if si, ok := idx.(SymInt); ok {
		t := m.simp(si.T)
		if _, isConst := t.Int64(); !isConst {
			var conds []*smt.Term
			for i := 0; i < n; i++ {
				conds = append(conds, m.Ctx.Eq(t, m.Ctx.Int(int64(i))))
			}
			conds = append(conds, m.Ctx.Or(m.Ctx.Lt(t, m.Ctx.Int(0)), m.Ctx.Le(m.Ctx.Int(int64(n)), t)))
			c := m.Choose(conds, "reflect.Index")
			if c == n {
				panic(targetPanic{v: "reflect: slice index out of range", what: "reflect"})
			}
			return c
		}
	}
	i := asInt64(m.concretize(idx, "reflect.Index"))
	if i < 0 || i >= int64(n) {
		panic(targetPanic{v: "reflect: slice index out of range", what: "reflect"})
	}
	return int(i)
}

// childRV returns the Value that Index/MapIndex yields for child under parent.
func (m *Machine) childRV(parent, child *Node) *RV {
	if parent.CRep.Op != smt.OpConst && m.Branch(m.simp(parent.TypedContainer()), "reflect.child.typed") {
		return &RV{N: child, Ptr: m.nodeWrap(child)}
	}
	return &RV{N: child, Wrapped: true}
}

// nodeKeyType returns the key type of a symbolic object (string unless the named-key representation is selected).
func (m *Machine) nodeKeyType(n *Node) types.Type {
	if n.CRep.Op != smt.OpConst && m.Branch(m.simp(m.Ctx.Eq(n.CRep, m.Ctx.Int(CRepAlt))), "reflect.keytype") {
		return n.Tm.KeyT
	}
	return types.Typ[types.String]
}

// checkMapKeyAssignable panics like reflect when a key of type kt cannot index the node's map type.
func (m *Machine) checkMapKeyAssignable(n *Node, kt types.Type) {
	want := m.nodeKeyType(n)
	if !types.AssignableTo(kt, want) {
		panic(targetPanic{v: "reflect.Value.MapIndex: value of type " + kt.String() + " is not assignable to type " + want.String(), what: "reflect"})
	}
}

// isZero implements reflect.Value.IsZero on a concrete engine value.
func (m *Machine) isZero(t types.Type, v Value) Value {
	switch v := v.(type) {
	case bool:
		return !v
	case int64:
		return v == 0
	case uint64:
		return v == 0
	case float64:
		return v == 0
	case complex128:
		return v == 0
	case string:
		return v == ""
	case *Value:
		return v == nil
	case []Value:
		return v == nil
	case *OMap:
		return v == nil
	case Iface:
		return v.T == nil
	case *Native:
		return v == nil
	case *ssa.Function, *Closure, *Intrinsic:
		return isNilFunc(v)
	case Struct:
		st := t.Underlying().(*types.Struct)
		var cs []*smt.Term
		for i := range v {
			r := m.isZero(st.Field(i).Type(), v[i])
			if b, ok := r.(bool); ok {
				if !b {
					return false
				}
				continue
			}
			cs = append(cs, r.(*smt.Term))
		}
		return unTerm(m.Ctx.And(cs...))
	case Array:
		et := t.Underlying().(*types.Array).Elem()
		var cs []*smt.Term
		for i := range v {
			r := m.isZero(et, v[i])
			if b, ok := r.(bool); ok {
				if !b {
					return false
				}
				continue
			}
			cs = append(cs, r.(*smt.Term))
		}
		return unTerm(m.Ctx.And(cs...))
	case *smt.Term:
		return unTerm(m.Ctx.Not(v))
	case SymInt:
		return unTerm(m.Ctx.Eq(v.T, m.Ctx.Int(0)))
	case *SymFloat:
		return m.floatEq(v, float64(0))
	case *BStr:
		return len(v.B) == 0
	case *AStr:
		return unTerm(m.Ctx.Eq(v.T, m.StrConst("")))
	}
	unsupported("IsZero of %T", v)
	return nil
}

// nodeOverlay records map entries written into a symbolic object on the current path
// (reflect.Value.SetMapIndex); reads consult it before the template.
type nodeOverlay struct {
	Keys []string
	Vals map[string]Value // interface values (element type any)
}

type overlayKey struct{ n *Node }

// Overlay returns the entries written into node n on this path (nil if none).
func (m *Machine) Overlay(n *Node) *nodeOverlay {
	ov, _ := m.Scratch[overlayKey{n}].(*nodeOverlay)
	return ov
}

// AnyOverlay reports whether any symbolic object was written on this path.
func (m *Machine) AnyOverlay() bool {
	for k := range m.Scratch {
		if _, ok := k.(overlayKey); ok {
			return true
		}
	}
	return false
}

func (m *Machine) overlayFor(n *Node) *nodeOverlay {
	if ov := m.Overlay(n); ov != nil {
		return ov
	}
	ov := &nodeOverlay{Vals: map[string]Value{}}
	m.Scratch[overlayKey{n}] = ov
	return ov
}

// NodeInner is the payload of an interface that holds a node's value without its pointer layers.
type NodeInner struct{ N *Node }

// nodeTypeAssert implements x.(T) for an interface holding a symbolic node.
func (m *Machine) nodeTypeAssert(itf Iface, asserted types.Type) (bool, Value) {
	var n *Node
	if in, ok := itf.V.(NodeInner); ok {
		n = in.N
	} else {
		n = itf.V.(*Node)
		if m.nodeWrap(n) > 0 {
			// dynamic type is a pointer type
			if _, isIface := asserted.Underlying().(*types.Interface); isIface && asserted.Underlying().(*types.Interface).NumMethods() == 0 {
				return true, itf
			}
			return false, nil
		}
	}
	if _, isIface := asserted.Underlying().(*types.Interface); isIface {
		if asserted.Underlying().(*types.Interface).NumMethods() == 0 {
			return true, itf
		}
		// json.Number has a String method; nothing else in the JSON domain has methods.
		unsupported("type assertion of symbolic node to non-empty interface %s", asserted)
	}
	jn := m.P.ImportedType("encoding/json", "Number")
	if types.Identical(asserted, jn) {
		isJN := m.numRepTerm(n, func(r int) bool { return r == RepJSONNumber })
		if m.Branch(isJN, "assert-json.Number") {
			return true, &AStr{T: m.jsonNumberText(n)}
		}
		return false, nil
	}
	// a concrete scalar type: the assertion holds iff it is the node's dynamic type
	if b, ok := asserted.Underlying().(*types.Basic); ok {
		t := m.nodeGoType(n)
		if t == nil || !types.Identical(t, asserted) {
			return false, nil
		}
		switch {
		case b.Kind() == types.Bool:
			return true, unTerm(m.simp(n.B))
		case b.Info()&types.IsString != 0:
			return true, &AStr{T: n.Str}
		case b.Info()&types.IsInteger != 0:
			return true, m.intVal(n.IVal)
		case b.Info()&types.IsFloat != 0:
			return true, n.Float()
		}
	}
	unsupported("type assertion of symbolic node to %s", asserted)
	return false, nil
}

// BadJSONNumberText is the text of a json.Number in the JBad state.
const BadJSONNumberText = "1e9999999"

// jsonNumberText returns the abstract string that is the text of the node's json.Number.
func (m *Machine) jsonNumberText(n *Node) *smt.Term {
	t := m.Ctx.Var(n.Name+".jntext", smt.SStr)
	if m.jnTexts == nil {
		m.jnTexts = map[*smt.Term]*Node{}
	}
	if _, ok := m.jnTexts[t]; !ok {
		m.jnTexts[t] = n
		m.strAxioms(t)
		c := m.Ctx
		m.AddBase(c.Eq(m.rawRunes(t), m.rawBytes(t)))
		m.AddBase(c.Le(c.Int(1), m.rawRunes(t)))
		m.AddBase(c.Le(m.rawRunes(t), c.Int(30)))
		// the text determines, and (in the model's canonical spelling n/10^k without further
		// variation) is determined by, numerator and scale: two json.Numbers have the same text
		// exactly when both agree. "1" and "1.0" are different texts of equal numbers.
		var others []*Node
		for ot, on := range m.jnTexts {
			if ot != t {
				others = append(others, on)
			}
		}
		sort.Slice(others, func(i, j int) bool { return others[i].Name < others[j].Name })
		for _, on := range others {
			ot := m.Ctx.Var(on.Name+".jntext", smt.SStr)
			same := c.And(c.Eq(n.JN, on.JN), c.Eq(n.JK, on.JK))
			if n.JBad != nil || on.JBad != nil {
				continue // (the unparseable state shares one text; handled below)
			}
			m.AddBase(c.Eq(c.Eq(t, ot), same))
		}
		if n.JBad != nil {
			// the one unparseable text of the model (valid JSON; math/big refuses the exponent)
			m.AddBase(c.Implies(n.JBad, c.Eq(t, m.StrConst(BadJSONNumberText))))
		}
	}
	return t
}

// nodeIsZero implements reflect.Value.IsZero on a Value backed by a symbolic JSON node.
func (m *Machine) nodeIsZero(rv *RV) Value {
	c := m.Ctx
	n := rv.N
	if rv.Wrapped {
		// Kind Interface: zero iff the interface is nil (JSON null held as a nil interface)
		return unTerm(m.simp(c.And(n.TagIs(TagNull), c.Eq(n.Wrap, c.Int(0)))))
	}
	if rv.Ptr > 0 {
		return unTerm(m.simp(n.TagIs(TagNull))) // a pointer is zero iff nil
	}
	tag := int(asInt64(m.concretize(SymInt{n.Tag}, "IsZero-tag")))
	switch tag {
	case TagNull:
		return true
	case TagBool:
		return unTerm(m.simp(c.Not(n.B)))
	case TagString:
		return unTerm(m.simp(c.Eq(m.StrBytes(n.Str), c.Int(0))))
	case TagNumber:
		r, _ := m.numValue(n)
		z := c.Eq(r, c.RatInt(0))
		if n.NZ != nil {
			z = c.And(z, c.Or(c.Not(n.repIn(repIsFloat)), c.Not(n.NZ))) // IsZero compares float bits: -0 is not zero
		}
		if n.JN != nil {
			// a json.Number is a string: zero iff its text is empty, which the model never produces
			z = c.And(z, c.Ne(n.Rep, c.Int(RepJSONNumber)))
		}
		return unTerm(m.simp(z))
	case TagArray:
		if m.nodeCRep(n) == CRepAlt {
			// a Go array is zero iff all its elements are
			l := int(asInt64(m.concretize(SymInt{n.Len}, "IsZero-len")))
			var cs []*smt.Term
			for i := 0; i < l; i++ {
				switch z := m.nodeIsZero(&RV{N: n.Elem(i), Wrapped: true}).(type) {
				case bool:
					if !z {
						return false
					}
				case *smt.Term:
					cs = append(cs, z)
				}
			}
			return unTerm(c.And(cs...))
		}
		return false // slices and maps of the instance domain are never nil
	case TagObject:
		return false
	}
	unsupported("IsZero on symbolic node")
	return nil
}
