package sx

import (
	"go/types"
	"math/big"

	"verif/engine/smt"
)

// Go representations of symbolic JSON nodes (C08, C11, C12).
//
// The numeric representation of a number node is the symbolic selector Rep over
// Tm.NumReps. Container typing, named string types and pointer/interface wrappers
// are selected per template (ContainerReps) by the same selector on the other tags:
//
//	string: 0 string, 1 named string type
//	array:  0 []any, 1 []T (T = the element's concrete Go type; all elements share tag
//	        number with one numeric rep, or tag string, or tag bool), 2 [n]any
//	object: 0 map[string]any, 1 map[string]T (as for arrays), 2 map[Named]any with a
//	        named string key type
//	null:   0 nil interface, 1 nil pointer
//
// and Wrap (0..2) counts extra pointer layers around the value.

var repKinds = []types.BasicKind{
	RepFloat64: types.Float64, RepFloat32: types.Float32, RepInt: types.Int, RepInt8: types.Int8,
	RepInt16: types.Int16, RepInt32: types.Int32, RepInt64: types.Int64, RepUint: types.Uint,
	RepUint8: types.Uint8, RepUint16: types.Uint16, RepUint32: types.Uint32, RepUint64: types.Uint64,
	RepUintptr: types.Uintptr,
}

func repIsFloat(r int) bool { return r == RepFloat64 || r == RepFloat32 }
func repIsInt(r int) bool   { return r >= RepInt && r <= RepUintptr }

// repIn returns the term "n.Rep is one of reps".
func (n *Node) repIn(pred func(int) bool) *smt.Term {
	c := n.m.Ctx
	if n.Rep.Op == smt.OpConst {
		v, _ := n.Rep.Int64()
		return c.Bool(pred(int(v)))
	}
	var cs []*smt.Term
	for _, r := range n.Tm.NumReps {
		if pred(r) {
			cs = append(cs, c.Eq(n.Rep, c.Int(int64(r))))
		}
	}
	return c.Or(cs...)
}

func (m *Machine) repInvariants(n *Node) {
	c := m.Ctx
	tm := n.Tm
	if len(tm.NumReps) == 0 {
		m.AddBase(c.Eq(n.Rep, c.Int(0)))
		return
	}
	isNum := n.TagIs(TagNumber)
	var allowed []*smt.Term
	needInt, needJN := false, false
	for _, r := range tm.NumReps {
		allowed = append(allowed, c.Eq(n.Rep, c.Int(int64(r))))
		if repIsInt(r) {
			needInt = true
		}
		if r == RepJSONNumber {
			needJN = true
		}
	}
	m.AddBase(c.Implies(isNum, c.Or(allowed...)))
	m.AddBase(c.Implies(c.Not(isNum), c.Eq(n.Rep, c.Int(0))))
	m.DeclareRange(n.Rep, big.NewInt(0), big.NewInt(numReps-1))
	if needInt {
		n.IVal = c.Var(n.Name+".i", smt.SInt)
		lo := intInfos[types.Int64].lo
		hi := intInfos[types.Uint64].hi
		m.AddBase(c.InRange(n.IVal, lo, hi))
		m.DeclareRange(n.IVal, lo, hi)
		for _, r := range tm.NumReps {
			if repIsInt(r) {
				ii := intInfos[repKinds[r]]
				m.AddBase(c.Implies(c.Eq(n.Rep, c.Int(int64(r))), c.InRange(n.IVal, ii.lo, ii.hi)))
			}
		}
	}
	if needJN {
		n.JN = c.Var(n.Name+".jn", smt.SInt)
		if tm.JNIntegersOnly {
			n.JK = c.Int(0)
		} else {
			n.JK = c.Var(n.Name+".jk", smt.SInt)
		}
		if tm.JNAllowBad {
			n.JBad = c.Var(n.Name+".jbad", smt.SBool)
			m.AddBase(c.Implies(n.JBad, c.And(isNum, c.Eq(n.Rep, c.Int(RepJSONNumber)))))
		}
		lim := new(big.Int).Lsh(big.NewInt(1), 70)
		if tm.IntAbsLimit != nil {
			lim = tm.IntAbsLimit
		}
		m.AddBase(c.InRange(n.JN, new(big.Int).Neg(lim), lim))
		maxK := int64(3)
		if tm.JNIntegersOnly {
			maxK = 0
		}
		if n.JK.Op != smt.OpConst {
			m.AddBase(c.InRange(n.JK, big.NewInt(0), big.NewInt(maxK)))
			m.DeclareRange(n.JK, big.NewInt(0), big.NewInt(maxK))
		}
	}
	if needInt && tm.IntExactFloat {
		two53 := new(big.Int).Lsh(big.NewInt(1), 53)
		m.AddBase(c.Or(c.InRange(n.IVal, new(big.Int).Neg(two53), two53), c.Eq(c.Mod(n.IVal, c.Int(2048)), c.Int(0))))
	} else if needInt && tm.IntAbsLimit != nil {
		m.AddBase(c.InRange(n.IVal, new(big.Int).Neg(tm.IntAbsLimit), tm.IntAbsLimit))
	}
	for _, r := range tm.NumReps {
		if r == RepFloat32 {
			// float32: 24-bit mantissa, exponents within the float32 range
			lim := new(big.Int).Sub(two24, big.NewInt(1))
			var okExp []*smt.Term
			for i, e := range tm.Exps {
				if e >= -149 && e <= 104 {
					okExp = append(okExp, c.Eq(n.Esel, c.Int(int64(i))))
				}
			}
			m.AddBase(c.Implies(c.Eq(n.Rep, c.Int(RepFloat32)),
				c.And(c.InRange(n.Mant, new(big.Int).Neg(lim), lim), c.Or(okExp...))))
		}
	}
}

// Container representations (CRep).
const (
	CRepCanonical = 0 // string / []any / map[string]any
	CRepTyped     = 1 // named string type / []T / map[string]T
	CRepAlt       = 2 // (arrays) Go array [n]any / (objects) map[NamedKey]any
)

func (m *Machine) crepInvariants(n *Node) {
	c := m.Ctx
	m.AddBase(c.InRange(n.CRep, big.NewInt(0), big.NewInt(2)))
	m.DeclareRange(n.CRep, big.NewInt(0), big.NewInt(2))
	m.AddBase(c.Implies(c.Or(n.TagIs(TagNull), n.TagIs(TagBool), n.TagIs(TagNumber)), c.Eq(n.CRep, c.Int(0))))
	m.AddBase(c.Implies(n.TagIs(TagString), c.Le(n.CRep, c.Int(1))))
	if n.Tm.NamedKeyMapsOnly {
		// only the object representation varies: map[string]any or map[NamedKey]any
		m.AddBase(c.Implies(c.Not(n.TagIs(TagObject)), c.Eq(n.CRep, c.Int(0))))
		m.AddBase(c.Implies(n.TagIs(TagObject), c.Or(c.Eq(n.CRep, c.Int(CRepCanonical)), c.Eq(n.CRep, c.Int(CRepAlt)))))
	}
}

// TypedContainer returns the term "n is an array or object whose element type is concrete (not any)".
func (n *Node) TypedContainer() *smt.Term {
	c := n.m.Ctx
	return c.And(c.Or(n.TagIs(TagArray), n.TagIs(TagObject)), c.Eq(n.CRep, c.Int(CRepTyped)))
}

// childRepInvariants constrains the children of typed containers: all elements share
// the Go type of the first one (including its pointer layer, if any) and are not null.
func (m *Machine) childRepInvariants(parent, child, first *Node, tag int) {
	c := m.Ctx
	if parent.CRep.Op == smt.OpConst {
		return
	}
	typed := c.And(parent.TagIs(tag), c.Eq(parent.CRep, c.Int(CRepTyped)))
	if child == first {
		if !parent.Tm.TypedPtrElems {
			// element type T: a scalar type or a named string type
			m.AddBase(c.Implies(typed, c.And(c.Not(child.TagIs(TagNull)), c.Eq(child.Wrap, c.Int(0)),
				c.Or(c.Eq(child.CRep, c.Int(0)), child.TagIs(TagString)))))
			return
		}
		// element type: T or *T (one wrapper layer, when the template has wrappers), T a scalar
		// type, a named string type, or (arrays of) [n]any
		m.AddBase(c.Implies(typed, c.And(c.Not(child.TagIs(TagNull)),
			c.Or(c.Eq(child.CRep, c.Int(0)), child.TagIs(TagString), c.And(child.TagIs(TagArray), c.Eq(child.CRep, c.Int(CRepAlt)))))))
		return
	}
	same := []*smt.Term{c.Eq(child.Tag, first.Tag), c.Eq(child.Rep, first.Rep), c.Eq(child.CRep, first.CRep), c.Eq(child.Wrap, first.Wrap)}
	if first.Len != nil && child.Len != nil {
		same = append(same, c.Implies(c.And(first.TagIs(TagArray), c.Eq(first.CRep, c.Int(CRepAlt))), c.Eq(child.Len, first.Len)))
	}
	m.AddBase(c.Implies(typed, c.And(same...)))
}

// numValue returns the mathematical value and integrality of the node's number.
func (m *Machine) numValue(n *Node) (*smt.Term, *smt.Term) {
	c := m.Ctx
	f := n.Float()
	if n.Rep.Op == smt.OpConst {
		return f.R, f.IsInt
	}
	real, isInt := f.R, f.IsInt
	if n.JN != nil {
		jr, ji := m.jnValue(n)
		cond := c.Eq(n.Rep, c.Int(RepJSONNumber))
		real = c.Ite(cond, jr, real)
		isInt = c.Ite(cond, ji, isInt)
	}
	if n.IVal != nil {
		cond := n.repIn(repIsInt)
		real = c.Ite(cond, c.ToReal(n.IVal), real)
		isInt = c.Ite(cond, c.True, isInt)
	}
	return real, isInt
}

var pow10 = []int64{1, 10, 100, 1000}

// jnValue returns the value and integrality of the json.Number JN / 10^JK.
func (m *Machine) jnValue(n *Node) (*smt.Term, *smt.Term) {
	c := m.Ctx
	var real, isInt *smt.Term
	for k := 3; k >= 0; k-- {
		v := c.Mul(c.Rat(big.NewRat(1, pow10[k])), c.ToReal(n.JN))
		ii := c.Eq(c.Mod(n.JN, c.Int(pow10[k])), c.Int(0))
		if real == nil {
			real, isInt = v, ii
		} else {
			cond := c.Eq(n.JK, c.Int(int64(k)))
			real = c.Ite(cond, v, real)
			isInt = c.Ite(cond, ii, isInt)
		}
	}
	return real, isInt
}
