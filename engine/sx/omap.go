package sx

import (
	"go/types"
	"sort"
)

// OMap is the engine's map: insertion-ordered entries, so that re-execution is
// deterministic. Keys may be symbolic; lookups then fork over equality with the
// present keys.
type OMap struct {
	KeyT    types.Type
	entries []mapEntry
	Shared  bool // part of imported pre-state (writes are reported)
}

type mapEntry struct {
	k, v Value
}

func NewOMap(kt types.Type) *OMap { return &OMap{KeyT: kt} }

func (o *OMap) Len() int {
	if o == nil {
		return 0
	}
	return len(o.entries)
}

// find returns the index of key, forking on symbolic equalities.
func (o *OMap) find(m *Machine, key Value) int {
	m.checkHashable(key)
	if o == nil {
		return -1
	}
	for i := range o.entries {
		eq := m.equalsV(o.KeyT, o.entries[i].k, key)
		if m.truth(eq, "map-key") {
			return i
		}
	}
	return -1
}

func (o *OMap) Get(m *Machine, key Value) (Value, bool) {
	i := o.find(m, key)
	if i < 0 {
		return nil, false
	}
	return o.entries[i].v, true
}

func (o *OMap) Set(m *Machine, key, v Value) {
	if o == nil {
		panic(targetPanic{v: "assignment to entry in nil map", what: "nil-map-write"})
	}
	if o.Shared {
		m.noteSharedWrite("map update")
	}
	i := o.find(m, key)
	if i >= 0 {
		o.entries[i].v = v
		return
	}
	o.entries = append(o.entries, mapEntry{key, v})
}

func (o *OMap) Delete(m *Machine, key Value) {
	if o == nil {
		return
	}
	if o.Shared {
		m.noteSharedWrite("map delete")
	}
	i := o.find(m, key)
	if i >= 0 {
		o.entries = append(o.entries[:i:i], o.entries[i+1:]...)
	}
}

// Clone returns a shallow copy.
func (o *OMap) Clone() *OMap {
	if o == nil {
		return nil
	}
	c := &OMap{KeyT: o.KeyT}
	c.entries = append([]mapEntry(nil), o.entries...)
	return c
}

// Keys returns a snapshot of the keys in iteration order.
func (o *OMap) Keys() []Value {
	if o == nil {
		return nil
	}
	ks := make([]Value, len(o.entries))
	for i, e := range o.entries {
		ks[i] = e.k
	}
	return ks
}

// sortConcrete orders entries by concrete key where possible (strings, ints).
func (o *OMap) sortConcrete() {
	if o == nil {
		return
	}
	sort.SliceStable(o.entries, func(i, j int) bool {
		switch a := o.entries[i].k.(type) {
		case string:
			if b, ok := o.entries[j].k.(string); ok {
				return a < b
			}
		case int64:
			if b, ok := o.entries[j].k.(int64); ok {
				return a < b
			}
		case uint64:
			if b, ok := o.entries[j].k.(uint64); ok {
				return a < b
			}
		}
		return false
	})
}

// mapIter iterates over a snapshot of the map's keys, in an order chosen by the machine.
type mapIter struct {
	m    *Machine
	o    *OMap
	keys []Value
	i    int
}

func (it *mapIter) next() Tuple {
	for it.i < len(it.keys) {
		k := it.keys[it.i]
		it.i++
		// Skip keys deleted since the snapshot (identity of the concrete key or term).
		for _, e := range it.o.entries {
			if sameKeyIdentity(e.k, k) {
				return Tuple{true, k, e.v}
			}
		}
	}
	return Tuple{false, nil, nil}
}

func sameKeyIdentity(a, b Value) bool {
	switch a := a.(type) {
	case SymInt:
		b, ok := b.(SymInt)
		return ok && a.T == b.T
	case *AStr:
		b, ok := b.(*AStr)
		return ok && a.T == b.T
	case *BStr:
		b, ok := b.(*BStr)
		return ok && a == b
	case Iface:
		b, ok := b.(Iface)
		return ok && sameType(a.T, b.T) && sameKeyIdentity(a.V, b.V)
	case Struct, Array:
		return false
	}
	defer func() { recover() }()
	return a == b
}
