package sx

import (
	"fmt"
	"go/types"
	"reflect"
	"strings"

	"verif/engine/smt"
)

func rtypeOf(v Value) RType {
	switch v := v.(type) {
	case RType:
		return v
	case Iface:
		if v.T == nil {
			nilDeref("method on nil reflect.Type")
		}
		return v.V.(RType)
	}
	panic(fmt.Sprintf("rtypeOf: %T", v))
}

func (p *Program) mkType(t types.Type) Value {
	if t == nil {
		return Iface{}
	}
	return Iface{T: p.RTypeT, V: RType{t}}
}

func registerReflectType(p *Program) {
	reg := func(name string, fn func(m *Machine, fr *frame, args []Value) Value) {
		p.Reg(name, "model", fn)
	}
	reg("reflect.Type.Kind", func(m *Machine, fr *frame, args []Value) Value {
		return uint64(reflectKindOf(rtypeOf(args[0]).T))
	})
	reg("reflect.Type.Elem", func(m *Machine, fr *frame, args []Value) Value {
		switch t := rtypeOf(args[0]).T.Underlying().(type) {
		case *types.Pointer:
			return p.mkType(t.Elem())
		case *types.Slice:
			return p.mkType(t.Elem())
		case *types.Array:
			return p.mkType(t.Elem())
		case *types.Map:
			return p.mkType(t.Elem())
		case *types.Chan:
			return p.mkType(t.Elem())
		}
		panic(targetPanic{v: "reflect: Elem of invalid type " + rtypeOf(args[0]).String(), what: "reflect"})
	})
	reg("reflect.Type.Key", func(m *Machine, fr *frame, args []Value) Value {
		if t, ok := rtypeOf(args[0]).T.Underlying().(*types.Map); ok {
			return p.mkType(t.Key())
		}
		panic(targetPanic{v: "reflect: Key of non-map type " + rtypeOf(args[0]).String(), what: "reflect"})
	})
	reg("reflect.Type.Len", func(m *Machine, fr *frame, args []Value) Value {
		if t, ok := rtypeOf(args[0]).T.Underlying().(*types.Array); ok {
			return t.Len()
		}
		panic(targetPanic{v: "reflect: Len of non-array type " + rtypeOf(args[0]).String(), what: "reflect"})
	})
	reg("reflect.Type.Name", func(m *Machine, fr *frame, args []Value) Value {
		switch t := types.Unalias(rtypeOf(args[0]).T).(type) {
		case *types.Named:
			return t.Obj().Name()
		case *types.Basic:
			return t.Name()
		}
		return ""
	})
	reg("reflect.Type.PkgPath", func(m *Machine, fr *frame, args []Value) Value {
		if t, ok := types.Unalias(rtypeOf(args[0]).T).(*types.Named); ok && t.Obj().Pkg() != nil {
			return t.Obj().Pkg().Path()
		}
		return ""
	})
	reg("reflect.Type.String", func(m *Machine, fr *frame, args []Value) Value {
		return types.TypeString(rtypeOf(args[0]).T, func(p *types.Package) string { return p.Name() })
	})
	reg("reflect.Type.NumMethod", func(m *Machine, fr *frame, args []Value) Value {
		// exported methods in the method set (for an interface type: all its methods)
		t := rtypeOf(args[0]).T
		if it, ok := t.Underlying().(*types.Interface); ok {
			return int64(it.NumMethods())
		}
		ms := types.NewMethodSet(t)
		n := 0
		for i := 0; i < ms.Len(); i++ {
			if ms.At(i).Obj().Exported() {
				n++
			}
		}
		return int64(n)
	})
	reg("reflect.Type.NumField", func(m *Machine, fr *frame, args []Value) Value {
		if t, ok := rtypeOf(args[0]).T.Underlying().(*types.Struct); ok {
			return int64(t.NumFields())
		}
		panic(targetPanic{v: "reflect: NumField of non-struct type " + rtypeOf(args[0]).String(), what: "reflect"})
	})
	reg("reflect.Type.Field", func(m *Machine, fr *frame, args []Value) Value {
		rt := rtypeOf(args[0])
		t, ok := rt.T.Underlying().(*types.Struct)
		if !ok {
			panic(targetPanic{v: "reflect: Field of non-struct type " + rt.String(), what: "reflect"})
		}
		i := int(asInt64(m.concretize(args[1], "Type.Field")))
		if i < 0 || i >= t.NumFields() {
			panic(targetPanic{v: "reflect: Field index out of bounds", what: "reflect"})
		}
		return p.structField(t, i, []int{i})
	})
	reg("reflect.Type.Comparable", func(m *Machine, fr *frame, args []Value) Value {
		return types.Comparable(rtypeOf(args[0]).T)
	})
	p.RegPrefix("reflect.TypeFor", "model", func(m *Machine, fr *frame, args []Value) Value {
		ta := fr.fn.TypeArgs()
		if len(ta) != 1 {
			unsupported("reflect.TypeFor without type argument")
		}
		return p.mkType(ta[0])
	})
	reg("reflect.TypeOf", func(m *Machine, fr *frame, args []Value) Value {
		x := args[0].(Iface)
		if x.T == nil {
			return Iface{}
		}
		if x.T == p.NodeT {
			t := m.nodeGoType(x.V.(*Node))
			return p.mkType(t)
		}
		return p.mkType(x.T)
	})
	reg("(reflect.StructField).IsExported", func(m *Machine, fr *frame, args []Value) Value {
		sf := args[0].(Struct)
		return sf[1].(string) == "" // PkgPath
	})
	reg("(reflect.StructTag).Lookup", func(m *Machine, fr *frame, args []Value) Value {
		tag, ok1 := args[0].(string)
		key, ok2 := args[1].(string)
		if ok1 && ok2 {
			v, ok := reflect.StructTag(tag).Lookup(key)
			return Tuple{v, ok}
		}
		return m.structTagLookupSym(args[0], args[1])
	})
	reg("(reflect.StructTag).Get", func(m *Machine, fr *frame, args []Value) Value {
		tag, ok1 := args[0].(string)
		key, ok2 := args[1].(string)
		if ok1 && ok2 {
			return reflect.StructTag(tag).Get(key)
		}
		unsupported("StructTag.Get on symbolic tag")
		return nil
	})
	reg("reflect.VisibleFields", func(m *Machine, fr *frame, args []Value) Value {
		rt := rtypeOf(args[0])
		st, ok := rt.T.Underlying().(*types.Struct)
		if !ok {
			panic(targetPanic{v: "reflect.VisibleFields of non-struct type", what: "reflect"})
		}
		return p.visibleFields(st)
	})
}

// structField builds the engine value of a reflect.StructField.
// Layout: Name, PkgPath, Type, Tag, Offset, Index, Anonymous.
func (p *Program) structField(st *types.Struct, i int, index []int) Value {
	f := st.Field(i)
	pkgPath := ""
	if !f.Exported() && f.Pkg() != nil {
		pkgPath = f.Pkg().Path()
	}
	idx := make([]Value, len(index))
	for k, x := range index {
		idx[k] = int64(x)
	}
	return Struct{f.Name(), pkgPath, p.mkType(f.Type()), st.Tag(i), uint64(0), idx, f.Embedded()}
}

// visibleFields mirrors reflect.VisibleFields (breadth-first promotion with hiding).
func (p *Program) visibleFields(st *types.Struct) Value {
	type fieldEntry struct {
		v       Value
		name    string
		depth   int
		visible bool
	}
	var fields []fieldEntry
	byName := map[string]int{}
	visiting := map[*types.Struct]bool{}
	var index []int
	var walk func(t *types.Struct)
	walk = func(t *types.Struct) {
		if visiting[t] {
			return
		}
		visiting[t] = true
		for i := 0; i < t.NumFields(); i++ {
			f := t.Field(i)
			index = append(index, i)
			add := true
			if oldIdx, ok := byName[f.Name()]; ok {
				old := &fields[oldIdx]
				if len(index) == old.depth {
					// same depth: both hidden (the existing entry is annihilated)
					old.visible = false
					add = false
				} else if len(index) < old.depth {
					old.visible = false
				} else {
					add = false
				}
			}
			if add {
				byName[f.Name()] = len(fields)
				fields = append(fields, fieldEntry{v: p.structField(t, i, append([]int(nil), index...)), name: f.Name(), depth: len(index), visible: true})
			}
			if f.Embedded() {
				ft := f.Type()
				if pt, ok := ft.Underlying().(*types.Pointer); ok {
					ft = pt.Elem()
				}
				if est, ok := ft.Underlying().(*types.Struct); ok {
					walk(est)
				}
			}
			index = index[:len(index)-1]
		}
		delete(visiting, t)
	}
	walk(st)
	var out []Value
	for _, f := range fields {
		if f.visible {
			out = append(out, f.v)
		}
	}
	return out
}

func registerReflectStruct(p *Program) {
	reg := func(name string, fn func(m *Machine, fr *frame, args []Value) Value) {
		p.Reg(name, "model", fn)
	}
	fieldOf := func(m *Machine, rv *RV, i int, method string) *RV {
		st, ok := rv.T.Underlying().(*types.Struct)
		if !ok {
			rpanic(method, rv.T.String()+" Value")
		}
		if i < 0 || i >= st.NumFields() {
			panic(targetPanic{v: "reflect: Field index out of range", what: "reflect"})
		}
		f := st.Field(i)
		// reading through an unexported *embedded* field does not taint promoted exported fields
		// (reflect's flagEmbedRO is not sticky); any other unexported field does (flagStickyRO)
		ro := rv.RO || (!f.Exported() && !f.Embedded())
		if rv.Addr != nil {
			s := (*rv.Addr).(Struct)
			return &RV{T: f.Type(), Addr: &s[i], RO: ro}
		}
		return &RV{T: f.Type(), V: rv.V.(Struct)[i], RO: ro}
	}
	reg("(reflect.Value).NumField", func(m *Machine, fr *frame, args []Value) Value {
		rv := rvOf(args[0])
		if rv == nil || rv.N != nil {
			rpanic("NumField", "non-struct Value")
		}
		st, ok := rv.T.Underlying().(*types.Struct)
		if !ok {
			rpanic("NumField", rv.T.String()+" Value")
		}
		return int64(st.NumFields())
	})
	reg("(reflect.Value).Field", func(m *Machine, fr *frame, args []Value) Value {
		rv := rvOf(args[0])
		if rv == nil || rv.N != nil {
			rpanic("Field", "non-struct Value")
		}
		return mkRV(fieldOf(m, rv, int(asInt64(m.concretize(args[1], "Field"))), "Field"))
	})
	reg("(reflect.Value).FieldByIndex", func(m *Machine, fr *frame, args []Value) Value {
		rv := rvOf(args[0])
		if rv == nil || rv.N != nil {
			rpanic("FieldByIndex", "non-struct Value")
		}
		idx := args[1].([]Value)
		cur := rv
		for k, iv := range idx {
			if k > 0 {
				// step through embedded pointers
				if pt, ok := cur.T.Underlying().(*types.Pointer); ok {
					pv := cur.val().(*Value)
					if pv == nil {
						panic(targetPanic{v: "reflect: indirection through nil pointer to embedded struct", what: "reflect"})
					}
					cur = &RV{T: pt.Elem(), Addr: pv, RO: cur.RO}
				}
			}
			cur = fieldOf(m, cur, int(asInt64(iv)), "FieldByIndex")
		}
		return mkRV(cur)
	})
	reg("(reflect.Value).FieldByName", func(m *Machine, fr *frame, args []Value) Value {
		rv := rvOf(args[0])
		if rv == nil || rv.N != nil {
			rpanic("FieldByName", "non-struct Value")
		}
		name, ok := args[1].(string)
		if !ok {
			unsupported("FieldByName with symbolic name")
		}
		st, ok := rv.T.Underlying().(*types.Struct)
		if !ok {
			rpanic("FieldByName", rv.T.String()+" Value")
		}
		// direct fields first, then promoted through embedded structs (depth 1 only; enough for Schema wrappers)
		for i := 0; i < st.NumFields(); i++ {
			if st.Field(i).Name() == name {
				return mkRV(fieldOf(m, rv, i, "FieldByName"))
			}
		}
		for i := 0; i < st.NumFields(); i++ {
			f := st.Field(i)
			if !f.Embedded() {
				continue
			}
			inner := fieldOf(m, rv, i, "FieldByName")
			if pt, ok := inner.T.Underlying().(*types.Pointer); ok {
				pv := inner.val().(*Value)
				if pv == nil {
					continue
				}
				inner = &RV{T: pt.Elem(), Addr: pv, RO: inner.RO}
			}
			if ist, ok := inner.T.Underlying().(*types.Struct); ok {
				for j := 0; j < ist.NumFields(); j++ {
					if ist.Field(j).Name() == name {
						return mkRV(fieldOf(m, inner, j, "FieldByName"))
					}
				}
			}
		}
		return mkRV(nil)
	})
}

func registerReflectSet(p *Program) {
	reg := func(name string, fn func(m *Machine, fr *frame, args []Value) Value) {
		p.Reg(name, "model", fn)
	}
	reg("reflect.New", func(m *Machine, fr *frame, args []Value) Value {
		t := rtypeOf(args[0]).T
		cell := zero(t)
		return mkRV(&RV{T: types.NewPointer(t), V: &cell})
	})
	reg("reflect.MakeMap", func(m *Machine, fr *frame, args []Value) Value {
		t := rtypeOf(args[0]).T
		mt, ok := t.Underlying().(*types.Map)
		if !ok {
			panic(targetPanic{v: "reflect.MakeMap of non-map type", what: "reflect"})
		}
		return mkRV(&RV{T: t, V: NewOMap(mt.Key())})
	})
	reg("reflect.Zero", func(m *Machine, fr *frame, args []Value) Value {
		t := rtypeOf(args[0]).T
		return mkRV(&RV{T: t, V: zero(t)})
	})
	reg("(reflect.Value).Set", func(m *Machine, fr *frame, args []Value) Value {
		dst, src := rvOf(args[0]), rvOf(args[1])
		if dst == nil {
			rpanic("Set", "zero Value")
		}
		if dst.N != nil {
			unsupported("Set on symbolic node")
		}
		if dst.Addr == nil {
			panic(targetPanic{v: "reflect: reflect.Value.Set using unaddressable value", what: "reflect"})
		}
		if dst.RO {
			panic(targetPanic{v: "reflect: reflect.Value.Set using value obtained using unexported field", what: "reflect"})
		}
		if src == nil {
			rpanic("Set", "zero source Value")
		}
		m.store(dst.T, dst.Addr, m.assignTo(src, dst.T, "Set"))
		return nil
	})
	reg("(reflect.Value).SetMapIndex", func(m *Machine, fr *frame, args []Value) Value {
		mv, key, elem := rvOf(args[0]), rvOf(args[1]), rvOf(args[2])
		if mv == nil {
			rpanic("SetMapIndex", "zero Value")
		}
		if mv.N != nil {
			if mv.Wrapped || mv.Ptr > 0 {
				rpanic("SetMapIndex", "interface Value")
			}
			n := mv.N
			m.require(m.nodeTagIn(n, TagObject), "SetMapIndex", "non-map Value")
			if key == nil || key.N != nil {
				unsupported("SetMapIndex with symbolic key")
			}
			m.checkMapKeyAssignable(n, key.T)
			ks, ok := key.val().(string)
			if !ok {
				unsupported("SetMapIndex with non-concrete key")
			}
			if elem == nil {
				unsupported("delete from symbolic object")
			}
			if n.CRep.Op != smt.OpConst && m.Branch(m.simp(n.TypedContainer()), "SetMapIndex.typed") {
				unsupported("SetMapIndex on typed symbolic map")
			}
			ov := m.overlayFor(n)
			if _, ok := ov.Vals[ks]; !ok {
				ov.Keys = append(ov.Keys, ks)
			}
			ov.Vals[ks] = m.assignTo(elem, m.P.AnyT(), "SetMapIndex")
			return nil
		}
		mt, ok := mv.T.Underlying().(*types.Map)
		if !ok {
			rpanic("SetMapIndex", mv.T.String()+" Value")
		}
		if key == nil {
			rpanic("SetMapIndex", "zero key")
		}
		kv := m.assignTo(key, mt.Key(), "SetMapIndex")
		om := mv.val().(*OMap)
		if elem == nil {
			om.Delete(m, kv)
			return nil
		}
		if om == nil {
			panic(targetPanic{v: "assignment to entry in nil map", what: "nil-map-write"})
		}
		om.Set(m, kv, m.assignTo(elem, mt.Elem(), "SetMapIndex"))
		return nil
	})
	reg("(reflect.Value).Convert", func(m *Machine, fr *frame, args []Value) Value {
		rv := rvOf(args[0])
		dst := rtypeOf(args[1]).T
		if rv == nil {
			rpanic("Convert", "zero Value")
		}
		if rv.N != nil {
			unsupported("Convert of symbolic node")
		}
		if types.Identical(rv.T, dst) {
			return mkRV(&RV{T: dst, V: copyVal(rv.val())})
		}
		if !types.ConvertibleTo(rv.T, dst) {
			panic(targetPanic{v: "reflect.Value.Convert: value of type " + rv.T.String() + " cannot be converted to type " + dst.String(), what: "reflect"})
		}
		sb, ok1 := rv.T.Underlying().(*types.Basic)
		db, ok2 := dst.Underlying().(*types.Basic)
		if ok1 && ok2 && sb.Kind() == db.Kind() {
			return mkRV(&RV{T: dst, V: rv.val()})
		}
		if ok1 && ok2 {
			return mkRV(&RV{T: dst, V: m.conv(dst, rv.T, rv.val())})
		}
		unsupported("Convert from %s to %s", rv.T, dst)
		return nil
	})
	reg("(reflect.Value).CanConvert", func(m *Machine, fr *frame, args []Value) Value {
		rv := rvOf(args[0])
		if rv == nil || rv.N != nil {
			unsupported("CanConvert on zero or symbolic Value")
		}
		return types.ConvertibleTo(rv.T, rtypeOf(args[1]).T)
	})
	reg("(reflect.Value).CanSet", func(m *Machine, fr *frame, args []Value) Value {
		rv := rvOf(args[0])
		return rv != nil && rv.Addr != nil && !rv.RO
	})
	reg("(reflect.Value).CanAddr", func(m *Machine, fr *frame, args []Value) Value {
		rv := rvOf(args[0])
		return rv != nil && rv.Addr != nil
	})
}

// assignTo converts the value held by src for assignment to a location of type dst,
// panicking like reflect when it is not assignable.
func (m *Machine) assignTo(src *RV, dst types.Type, method string) Value {
	if src.N != nil {
		if _, ok := dst.Underlying().(*types.Interface); ok {
			w := m.nodeWrap(src.N)
			if src.Wrapped {
				// (a null node stays node-backed: reflect.ValueOf of it is the invalid Value, like a nil interface)
				return Iface{T: m.P.NodeT, V: src.N}
			}
			if src.Ptr == w {
				return Iface{T: m.P.NodeT, V: src.N}
			}
			if src.Ptr == 0 {
				return Iface{T: m.P.NodeT, V: NodeInner{src.N}}
			}
			unsupported("assignment of partially unwrapped node")
		}
		unsupported("assignment of symbolic node to %s", dst)
	}
	if !types.AssignableTo(src.T, dst) {
		panic(targetPanic{v: "reflect." + method + ": value of type " + src.T.String() + " is not assignable to type " + dst.String(), what: "reflect"})
	}
	v := copyVal(src.val())
	if _, ok := dst.Underlying().(*types.Interface); ok {
		if _, srcIface := src.T.Underlying().(*types.Interface); !srcIface {
			return Iface{T: src.T, V: v}
		}
	}
	return v
}

// SymTag is a struct tag whose json value is symbolic: `json:"<V>"`. (The quoting is
// reflect's business; kernels quantify over the unquoted value.)
type SymTag struct {
	JSON Value // string or *BStr
}

func (m *Machine) structTagLookupSym(tag, key Value) Value {
	st, ok := tag.(*SymTag)
	k, ok2 := key.(string)
	if !ok || !ok2 {
		unsupported("StructTag.Lookup on symbolic tag")
	}
	if k == "json" {
		return Tuple{st.JSON, true}
	}
	return Tuple{"", false}
}

var _ = strings.Contains
