package sx

import (
	"fmt"
	"go/constant"
	"go/token"
	"go/types"
	"math"
	"math/big"
	"strings"
	"unicode/utf8"

	"golang.org/x/tools/go/ssa"

	"verif/engine/smt"
)

func constValue(c *ssa.Const) Value {
	if c.Value == nil {
		return zero(c.Type())
	}
	if t, ok := c.Type().Underlying().(*types.Basic); ok {
		switch t.Kind() {
		case types.Bool, types.UntypedBool:
			return constant.BoolVal(c.Value)
		case types.Int, types.UntypedInt, types.Int8, types.Int16, types.Int32, types.UntypedRune, types.Int64:
			return c.Int64()
		case types.Uint, types.Uint8, types.Uint16, types.Uint32, types.Uint64, types.Uintptr:
			return c.Uint64()
		case types.Float32:
			return float64(float32(c.Float64()))
		case types.Float64, types.UntypedFloat:
			return c.Float64()
		case types.Complex64, types.Complex128, types.UntypedComplex:
			return c.Complex128()
		case types.String, types.UntypedString:
			if c.Value.Kind() == constant.String {
				return constant.StringVal(c.Value)
			}
			return string(rune(c.Int64()))
		}
	}
	panic(fmt.Sprintf("constValue: %s", c))
}

// ---- integer terms and bounds

// DeclareRange records lo <= v <= hi for interval reasoning (the constraint itself
// must be asserted separately).
func (m *Machine) DeclareRange(v *smt.Term, lo, hi *big.Int) {
	if m.ranges == nil {
		m.ranges = map[*smt.Term][2]*big.Int{}
	}
	m.ranges[v] = [2]*big.Int{lo, hi}
}

// interval computes conservative bounds of an Int term; nil means unbounded.
func (m *Machine) interval(t *smt.Term) (lo, hi *big.Int) {
	if t.Sort != smt.SInt {
		return nil, nil
	}
	if r, ok := m.ranges[t]; ok {
		return r[0], r[1]
	}
	switch t.Op {
	case smt.OpConst:
		return t.I, t.I
	case smt.OpAdd:
		lo, hi = big.NewInt(0), big.NewInt(0)
		for _, a := range t.Args {
			l, h := m.interval(a)
			if lo != nil {
				if l == nil {
					lo = nil
				} else {
					lo = new(big.Int).Add(lo, l)
				}
			}
			if hi != nil {
				if h == nil {
					hi = nil
				} else {
					hi = new(big.Int).Add(hi, h)
				}
			}
		}
		return lo, hi
	case smt.OpNeg:
		l, h := m.interval(t.Args[0])
		if h != nil {
			lo = new(big.Int).Neg(h)
		}
		if l != nil {
			hi = new(big.Int).Neg(l)
		}
		return lo, hi
	case smt.OpMul:
		a, b := t.Args[0], t.Args[1]
		if a.Op != smt.OpConst {
			a, b = b, a
		}
		if a.Op != smt.OpConst {
			return nil, nil
		}
		l, h := m.interval(b)
		if l == nil || h == nil {
			return nil, nil
		}
		x := new(big.Int).Mul(a.I, l)
		y := new(big.Int).Mul(a.I, h)
		if x.Cmp(y) > 0 {
			x, y = y, x
		}
		return x, y
	case smt.OpIte:
		l1, h1 := m.interval(t.Args[1])
		l2, h2 := m.interval(t.Args[2])
		if l1 != nil && l2 != nil {
			lo = l1
			if l2.Cmp(lo) < 0 {
				lo = l2
			}
		}
		if h1 != nil && h2 != nil {
			hi = h1
			if h2.Cmp(hi) > 0 {
				hi = h2
			}
		}
		return lo, hi
	case smt.OpMod:
		d := new(big.Int).Abs(t.Args[1].I)
		return big.NewInt(0), d.Sub(d, big.NewInt(1))
	case smt.OpIDiv:
		l, h := m.interval(t.Args[0])
		if l == nil || h == nil || t.Args[1].I.Sign() <= 0 {
			return nil, nil
		}
		q1, q2 := new(big.Int), new(big.Int)
		mm := new(big.Int)
		q1.DivMod(l, t.Args[1].I, mm)
		q2.DivMod(h, t.Args[1].I, mm)
		return q1, q2
	}
	return nil, nil
}

func (m *Machine) boundsOf(t *smt.Term) (lo, hi int64, ok bool) {
	l, h := m.interval(t)
	if l == nil || h == nil || !l.IsInt64() || !h.IsInt64() {
		return 0, 0, false
	}
	return l.Int64(), h.Int64(), true
}

// intTerm returns the Int term denoting an integer value.
func (m *Machine) intTerm(v Value) *smt.Term {
	switch v := v.(type) {
	case int64:
		return m.Ctx.Int(v)
	case uint64:
		return m.Ctx.BigInt(new(big.Int).SetUint64(v))
	case SymInt:
		return v.T
	}
	panic(fmt.Sprintf("intTerm: %T", v))
}

// mkInt builds the integer value of term t at static type ii, wrapping when t may be out of range.
func (m *Machine) mkInt(ii intInfo, t *smt.Term) Value {
	if t.Op == smt.OpConst {
		return wrapInt(ii, wrapBig(ii, t.I))
	}
	lo, hi := m.interval(t)
	if lo != nil && hi != nil && lo.Cmp(ii.lo) >= 0 && hi.Cmp(ii.hi) <= 0 {
		return SymInt{t}
	}
	// wrapped = ((t - lo) mod 2^bits) + lo
	mod := new(big.Int).Lsh(big.NewInt(1), uint(ii.bits))
	c := m.Ctx
	w := c.Add(c.Mod(c.Sub(t, c.BigInt(ii.lo)), c.BigInt(mod)), c.BigInt(ii.lo))
	r := c.Ite(c.InRange(t, ii.lo, ii.hi), t, w)
	m.DeclareRange(r, ii.lo, ii.hi)
	return SymInt{r}
}

func wrapBig(ii intInfo, v *big.Int) *big.Int {
	mod := new(big.Int).Lsh(big.NewInt(1), uint(ii.bits))
	r := new(big.Int).Sub(v, ii.lo)
	r.Mod(r, mod)
	return r.Add(r, ii.lo)
}

func boolTerm(c *smt.Ctx, v Value) *smt.Term {
	switch v := v.(type) {
	case bool:
		return c.Bool(v)
	case *smt.Term:
		return v
	}
	panic(fmt.Sprintf("boolTerm: %T", v))
}

func unTerm(t *smt.Term) Value {
	if t.Op == smt.OpConst && t.Sort == smt.SBool {
		return t.B
	}
	return t
}

// ---- binop

func (m *Machine) binop(op token.Token, t types.Type, x, y Value) Value {
	c := m.Ctx
	switch op {
	case token.EQL:
		return m.eqnil(t, x, y)
	case token.NEQ:
		r := m.eqnil(t, x, y)
		if b, ok := r.(bool); ok {
			return !b
		}
		return unTerm(c.Not(r.(*smt.Term)))
	}

	// booleans (&&, || are control flow in SSA; & | on bools may appear)
	if _, ok := x.(bool); ok || isBoolTerm(x) {
		a, b := boolTerm(c, x), boolTerm(c, y)
		switch op {
		case token.AND:
			return unTerm(c.And(a, b))
		case token.OR:
			return unTerm(c.Or(a, b))
		case token.XOR:
			return unTerm(c.Xor(a, b))
		}
		panic(fmt.Sprintf("binop %s on bool", op))
	}

	if ii, ok := intInfoOf(t); ok {
		return m.intBinop(op, ii, x, y)
	}
	if is32, ok := isFloatType(t); ok {
		return m.floatBinop(op, is32, x, y)
	}
	if k, ok := basicKind(t); ok && (k == types.String || k == types.UntypedString) {
		return m.stringBinop(op, x, y)
	}
	unsupported("binop %s on %s", op, t)
	return nil
}

func isBoolTerm(v Value) bool {
	t, ok := v.(*smt.Term)
	return ok && t.Sort == smt.SBool
}

func (m *Machine) intBinop(op token.Token, ii intInfo, x, y Value) Value {
	c := m.Ctx
	_, sx := x.(SymInt)
	_, sy := y.(SymInt)
	if !sx && !sy {
		return concreteIntBinop(op, ii, x, y)
	}
	a, b := m.intTerm(x), m.intTerm(y)
	switch op {
	case token.LSS:
		return unTerm(c.Lt(a, b))
	case token.LEQ:
		return unTerm(c.Le(a, b))
	case token.GTR:
		return unTerm(c.Lt(b, a))
	case token.GEQ:
		return unTerm(c.Le(b, a))
	case token.ADD:
		return m.mkInt(ii, c.Add(a, b))
	case token.SUB:
		return m.mkInt(ii, c.Sub(a, b))
	case token.MUL:
		if a.Op != smt.OpConst && b.Op != smt.OpConst {
			unsupported("symbolic * symbolic")
		}
		return m.mkInt(ii, c.Mul(a, b))
	case token.QUO, token.REM:
		if b.Op != smt.OpConst {
			unsupported("division by symbolic value")
		}
		if b.I.Sign() == 0 {
			panic(targetPanic{v: "integer divide by zero", what: "div-zero"})
		}
		// Go truncates toward zero; SMT-LIB div is Euclidean.
		lo, _ := m.interval(a)
		var q *smt.Term
		absb := new(big.Int).Abs(b.I)
		if lo != nil && lo.Sign() >= 0 {
			q = c.IDiv(a, c.BigInt(absb))
		} else {
			q = c.Ite(c.Le(c.Int(0), a), c.IDiv(a, c.BigInt(absb)), c.Neg(c.IDiv(c.Neg(a), c.BigInt(absb))))
		}
		if b.I.Sign() < 0 {
			q = c.Neg(q)
		}
		if op == token.QUO {
			return m.mkInt(ii, q)
		}
		return m.mkInt(ii, c.Sub(a, c.Mul(b, q)))
	case token.AND:
		// x & (2^k - 1) on a non-negative value
		if b.Op == smt.OpConst {
			if k := maskBits(b.I); k >= 0 {
				if lo, _ := m.interval(a); lo != nil && lo.Sign() >= 0 {
					return m.mkInt(ii, c.Mod(a, c.BigInt(new(big.Int).Lsh(big.NewInt(1), uint(k)))))
				}
			}
		}
	case token.SHL:
		if b.Op == smt.OpConst && b.I.IsInt64() && b.I.Int64() < 64 {
			return m.mkInt(ii, c.Mul(c.BigInt(new(big.Int).Lsh(big.NewInt(1), uint(b.I.Int64()))), a))
		}
	case token.SHR:
		if b.Op == smt.OpConst && b.I.IsInt64() && b.I.Int64() < 64 {
			// arithmetic shift = floor division for both signs
			return m.mkInt(ii, c.IDiv(a, c.BigInt(new(big.Int).Lsh(big.NewInt(1), uint(b.I.Int64())))))
		}
	}
	// bitwise operation of a small non-negative value with a non-negative constant: bit by bit
	if op == token.OR || op == token.AND || op == token.XOR || op == token.AND_NOT {
		v, k := a, b
		if a.Op == smt.OpConst && op != token.AND_NOT {
			v, k = b, a
		}
		if k.Op == smt.OpConst && k.I.Sign() >= 0 {
			if lo, hi := m.interval(v); lo != nil && hi != nil && lo.Sign() >= 0 && hi.BitLen() <= 16 {
				nbits := hi.BitLen()
				if op != token.AND && op != token.AND_NOT && k.I.BitLen() > nbits {
					nbits = k.I.BitLen()
				}
				var sum []*smt.Term
				for i := 0; i < nbits; i++ {
					p2 := c.BigInt(new(big.Int).Lsh(big.NewInt(1), uint(i)))
					bit := c.Mod(c.IDiv(v, p2), c.Int(2)) // 0 or 1
					kb := k.I.Bit(i) == 1
					var rb *smt.Term
					switch op {
					case token.OR:
						if kb {
							rb = c.Int(1)
						} else {
							rb = bit
						}
					case token.AND:
						if kb {
							rb = bit
						} else {
							rb = c.Int(0)
						}
					case token.XOR:
						if kb {
							rb = c.Sub(c.Int(1), bit)
						} else {
							rb = bit
						}
					case token.AND_NOT:
						if kb {
							rb = c.Int(0)
						} else {
							rb = bit
						}
					}
					sum = append(sum, c.Mul(p2, rb))
				}
				if len(sum) == 0 {
					return m.mkInt(ii, c.Int(0))
				}
				return m.mkInt(ii, c.Add(sum...))
			}
		}
	}
	unsupported("integer binop %s on symbolic operands", op)
	return nil
}

func maskBits(v *big.Int) int {
	w := new(big.Int).Add(v, big.NewInt(1))
	if w.Sign() > 0 && new(big.Int).And(w, v).Sign() == 0 {
		return w.BitLen() - 1
	}
	return -1
}

func concreteIntBinop(op token.Token, ii intInfo, x, y Value) Value {
	// shifts: y may have any integer type
	if op == token.SHL || op == token.SHR {
		var n uint64
		switch y := y.(type) {
		case int64:
			if y < 0 {
				panic(targetPanic{v: "negative shift amount", what: "shift"})
			}
			n = uint64(y)
		case uint64:
			n = y
		}
		a := bigOf(x)
		if n > 128 {
			n = 128
		}
		if op == token.SHL {
			return wrapInt(ii, wrapBig(ii, new(big.Int).Lsh(a, uint(n))))
		}
		return wrapInt(ii, new(big.Int).Rsh(a, uint(n)))
	}
	if ii.signed {
		a, b := x.(int64), y.(int64)
		switch op {
		case token.ADD:
			return wrapInt(ii, wrapBig(ii, new(big.Int).Add(big.NewInt(a), big.NewInt(b))))
		case token.SUB:
			return wrapInt(ii, wrapBig(ii, new(big.Int).Sub(big.NewInt(a), big.NewInt(b))))
		case token.MUL:
			return wrapInt(ii, wrapBig(ii, new(big.Int).Mul(big.NewInt(a), big.NewInt(b))))
		case token.QUO:
			if b == 0 {
				panic(targetPanic{v: "integer divide by zero", what: "div-zero"})
			}
			return wrapInt(ii, wrapBig(ii, new(big.Int).Quo(big.NewInt(a), big.NewInt(b))))
		case token.REM:
			if b == 0 {
				panic(targetPanic{v: "integer divide by zero", what: "div-zero"})
			}
			return wrapInt(ii, new(big.Int).Rem(big.NewInt(a), big.NewInt(b)))
		case token.AND:
			return a & b
		case token.OR:
			return a | b
		case token.XOR:
			return a ^ b
		case token.AND_NOT:
			return a &^ b
		case token.LSS:
			return a < b
		case token.LEQ:
			return a <= b
		case token.GTR:
			return a > b
		case token.GEQ:
			return a >= b
		}
	} else {
		a, b := x.(uint64), y.(uint64)
		switch op {
		case token.ADD:
			return wrapInt(ii, new(big.Int).SetUint64(a+b))
		case token.SUB:
			return wrapInt(ii, new(big.Int).SetUint64(a-b))
		case token.MUL:
			return wrapInt(ii, new(big.Int).SetUint64(a*b))
		case token.QUO:
			if b == 0 {
				panic(targetPanic{v: "integer divide by zero", what: "div-zero"})
			}
			return a / b
		case token.REM:
			if b == 0 {
				panic(targetPanic{v: "integer divide by zero", what: "div-zero"})
			}
			return a % b
		case token.AND:
			return a & b
		case token.OR:
			return a | b
		case token.XOR:
			return a ^ b
		case token.AND_NOT:
			return a &^ b
		case token.LSS:
			return a < b
		case token.LEQ:
			return a <= b
		case token.GTR:
			return a > b
		case token.GEQ:
			return a >= b
		}
	}
	panic(fmt.Sprintf("invalid integer binop %s", op))
}

// ---- floats

func (m *Machine) floatBinop(op token.Token, is32 bool, x, y Value) Value {
	fx, sx := x.(*SymFloat)
	fy, sy := y.(*SymFloat)
	if !sx && !sy {
		a, b := x.(float64), y.(float64)
		var r float64
		switch op {
		case token.ADD:
			r = a + b
		case token.SUB:
			r = a - b
		case token.MUL:
			r = a * b
		case token.QUO:
			r = a / b
		case token.LSS:
			return a < b
		case token.LEQ:
			return a <= b
		case token.GTR:
			return a > b
		case token.GEQ:
			return a >= b
		default:
			panic(fmt.Sprintf("invalid float binop %s", op))
		}
		if is32 {
			r = float64(float32(r))
		}
		return r
	}
	c := m.Ctx
	switch op {
	case token.LSS, token.LEQ, token.GTR, token.GEQ:
		a, oka := m.floatReal(x)
		b, okb := m.floatReal(y)
		if !oka || !okb {
			unsupported("ordered comparison with non-finite or opaque float")
		}
		switch op {
		case token.LSS:
			return unTerm(c.Lt(a, b))
		case token.LEQ:
			return unTerm(c.Le(a, b))
		case token.GTR:
			return unTerm(c.Lt(b, a))
		default:
			return unTerm(c.Le(b, a))
		}
	case token.QUO:
		if sx && !sy {
			d := y.(float64)
			return m.floatDivConst(fx, d)
		}
	}
	_ = fy
	unsupported("float binop %s on symbolic operands", op)
	return nil
}

// floatReal returns the Real term of a float that is finite on this path.
func (m *Machine) floatReal(v Value) (*smt.Term, bool) {
	switch v := v.(type) {
	case float64:
		if math.IsNaN(v) || math.IsInf(v, 0) {
			return nil, false
		}
		return m.Ctx.Rat(new(big.Rat).SetFloat64(v)), true
	case *SymFloat:
		if v.FracOf != nil || v.R == nil {
			return nil, false
		}
		if v.Cls != nil {
			if !m.Branch(m.Ctx.Eq(v.Cls, m.Ctx.Int(0)), "float-finite") {
				return nil, false
			}
		}
		return v.R, true
	}
	return nil, false
}

// floatEq returns the truth of x == y for floats.
func (m *Machine) floatEq(x, y Value) Value {
	c := m.Ctx
	fx, sx := x.(*SymFloat)
	fy, sy := y.(*SymFloat)
	if !sx && !sy {
		return x.(float64) == y.(float64)
	}
	// fractional part of Modf compared with zero
	if sx && fx.FracOf != nil {
		if d, ok := y.(float64); ok && d == 0 {
			return m.fracIsZero(fx.FracOf)
		}
		unsupported("comparison of Modf fraction with non-zero")
	}
	if sy && fy.FracOf != nil {
		if d, ok := x.(float64); ok && d == 0 {
			return m.fracIsZero(fy.FracOf)
		}
		unsupported("comparison of Modf fraction with non-zero")
	}
	a, oka := m.floatReal(x)
	b, okb := m.floatReal(y)
	if !oka || !okb {
		// at least one side is non-finite on this path
		ca, cb := m.floatClass(x), m.floatClass(y)
		if ca == 3 || cb == 3 {
			return false
		}
		return ca == cb && ca != 0
	}
	return unTerm(c.Eq(a, b))
}

// floatClass returns the class of a float on this path (forking if symbolic): 0 finite, 1 +Inf, 2 -Inf, 3 NaN.
func (m *Machine) floatClass(v Value) int {
	switch v := v.(type) {
	case float64:
		switch {
		case math.IsNaN(v):
			return 3
		case math.IsInf(v, 1):
			return 1
		case math.IsInf(v, -1):
			return 2
		}
		return 0
	case *SymFloat:
		if v.Cls == nil {
			return 0
		}
		r := m.concretize(SymInt{v.Cls}, "float-class")
		return int(asInt64(r))
	}
	panic("floatClass")
}

func (m *Machine) fracIsZero(x *SymFloat) Value {
	if x.Cls != nil {
		cls := m.floatClass(x)
		if cls != 0 {
			return false // Modf(±Inf) has NaN fraction, Modf(NaN) = NaN
		}
	}
	if x.IsInt == nil {
		unsupported("integrality of an opaque float")
	}
	return unTerm(x.IsInt)
}

// floatDivConst models x / d for a concrete finite non-zero d, under the stated
// exactness assumption (quotient representable; see DESIGN §3.1).
func (m *Machine) floatDivConst(x *SymFloat, d float64) Value {
	c := m.Ctx
	if x.Cls != nil && m.floatClass(x) != 0 {
		unsupported("division of non-finite float")
	}
	if d == 0 || math.IsNaN(d) || math.IsInf(d, 0) {
		unsupported("float division by zero or non-finite constant")
	}
	dr := new(big.Rat).SetFloat64(d)
	q := &SymFloat{R: c.RDiv(x.R, c.Rat(dr))}
	q.IsInt = m.quotIsInt(x, dr)
	// The model divides exactly. Restrict the path to the region where IEEE division agrees
	// about integrality: |q| below 2^53 (2^40 when the divisor is not a power of two, so that a
	// non-integral quotient stays far from every integer), and no underflow.
	lim := new(big.Rat).SetInt(new(big.Int).Lsh(big.NewInt(1), 53))
	if num := new(big.Int).Abs(dr.Num()); !(num.BitLen() > 0 && new(big.Int).And(num, new(big.Int).Sub(num, big.NewInt(1))).Sign() == 0 && dr.Denom().BitLen() > 0 && new(big.Int).And(dr.Denom(), new(big.Int).Sub(dr.Denom(), big.NewInt(1))).Sign() == 0) {
		lim = new(big.Rat).SetInt(new(big.Int).Lsh(big.NewInt(1), 40))
	}
	tiny := new(big.Rat).SetFrac(big.NewInt(1), new(big.Int).Lsh(big.NewInt(1), 1000))
	absLe := c.And(c.Le(c.Neg(c.Rat(lim)), q.R), c.Le(q.R, c.Rat(lim)))
	notTiny := c.Or(c.Eq(q.R, c.RatInt(0)), c.Le(c.Rat(tiny), q.R), c.Le(q.R, c.Neg(c.Rat(tiny))))
	m.Assume(c.And(absLe, notTiny))
	m.noteAssumption("float division x/c (multipleOf): only quotients with |q| <= 2^53 (2^40 for divisors that are not powers of two) and no underflow are in the claim, where the IEEE quotient's integrality equals the exact one")
	return q
}

// quotIsInt returns the term "x/d is an integer" using x's mantissa/exponent decomposition.
func (m *Machine) quotIsInt(x *SymFloat, d *big.Rat) *smt.Term {
	c := m.Ctx
	if x.M == nil {
		return nil
	}
	// x = M * 2^E ; x/d = M * 2^E * den/num. Integral iff num | M * 2^E * den.
	num, den := new(big.Int).Abs(d.Num()), d.Denom()
	var res *smt.Term = c.False
	for i := len(x.Exps) - 1; i >= 0; i-- {
		e := x.Exps[i]
		// value*den/num = M * den * 2^e / num
		k := new(big.Int).Set(num)
		mul := new(big.Int).Set(den)
		if e >= 0 {
			mul.Mul(mul, new(big.Int).Lsh(big.NewInt(1), uint(e)))
		} else {
			k.Mul(k, new(big.Int).Lsh(big.NewInt(1), uint(-e)))
		}
		g := new(big.Int).GCD(nil, nil, k, mul)
		k.Quo(k, g)
		var cond *smt.Term
		if k.IsInt64() && k.Int64() == 1 {
			cond = c.True
		} else {
			cond = c.Eq(c.Mod(x.M, c.BigInt(k)), c.Int(0))
		}
		if i == len(x.Exps)-1 {
			res = cond
		} else {
			res = c.Ite(c.Eq(x.Esel, c.Int(int64(i))), cond, res)
		}
	}
	return res
}

// ---- strings

func (m *Machine) stringBinop(op token.Token, x, y Value) Value {
	xs, okx := x.(string)
	ys, oky := y.(string)
	if okx && oky {
		switch op {
		case token.ADD:
			return xs + ys
		case token.LSS:
			return xs < ys
		case token.LEQ:
			return xs <= ys
		case token.GTR:
			return xs > ys
		case token.GEQ:
			return xs >= ys
		}
	}
	if op == token.ADD {
		a, oka := toBStr(x)
		b, okb := toBStr(y)
		if oka && okb {
			return normBStr(&BStr{B: append(append([]Value(nil), a.B...), b.B...)})
		}
	}
	if op == token.LSS || op == token.LEQ || op == token.GTR || op == token.GEQ {
		a, oka := toBStr(x)
		b, okb := toBStr(y)
		if oka && okb {
			// lexicographic byte order: lt(i) = a[i] < b[i] or (a[i] == b[i] and lt(i+1)); at the end of
			// the shorter string the shorter one is smaller
			c := m.Ctx
			if op == token.GTR || op == token.GEQ {
				a, b = b, a // a > b  <=>  b < a ;  a >= b  <=>  b <= a
			}
			orEqual := op == token.LEQ || op == token.GEQ
			n := len(a.B)
			if len(b.B) < n {
				n = len(b.B)
			}
			var tail *smt.Term
			switch {
			case len(a.B) < len(b.B):
				tail = c.True
			case len(a.B) > len(b.B):
				tail = c.False
			default:
				tail = c.Bool(orEqual)
			}
			for i := n - 1; i >= 0; i-- {
				ai, bi := m.intTerm(a.B[i]), m.intTerm(b.B[i])
				tail = c.Or(c.Lt(ai, bi), c.And(c.Eq(ai, bi), tail))
			}
			return unTerm(m.simp(tail))
		}
	}
	unsupported("string binop %s on symbolic operands", op)
	return nil
}

func toBStr(v Value) (*BStr, bool) {
	switch v := v.(type) {
	case string:
		b := &BStr{B: make([]Value, len(v))}
		for i := 0; i < len(v); i++ {
			b.B[i] = uint64(v[i])
		}
		return b, true
	case *BStr:
		return v, true
	}
	return nil, false
}

// normBStr turns a fully concrete BStr into a Go string.
func normBStr(b *BStr) Value {
	buf := make([]byte, len(b.B))
	for i, x := range b.B {
		c, ok := x.(uint64)
		if !ok {
			return b
		}
		buf[i] = byte(c)
	}
	return string(buf)
}

// stringEq returns the truth of x == y for string values of any representation.
func (m *Machine) stringEq(x, y Value) Value {
	c := m.Ctx
	if xs, ok := x.(string); ok {
		if ys, ok := y.(string); ok {
			return xs == ys
		}
	}
	ax, okx := x.(*AStr)
	ay, oky := y.(*AStr)
	if okx || oky {
		var a, b *smt.Term
		if okx {
			a = ax.T
		} else if s, ok := x.(string); ok {
			a = m.StrConst(s)
		} else {
			unsupported("abstract string compared with byte string")
		}
		if oky {
			b = ay.T
		} else if s, ok := y.(string); ok {
			b = m.StrConst(s)
		} else {
			unsupported("abstract string compared with byte string")
		}
		return unTerm(c.Eq(a, b))
	}
	a, _ := toBStr(x)
	b, _ := toBStr(y)
	if len(a.B) != len(b.B) {
		return false
	}
	var cs []*smt.Term
	for i := range a.B {
		cs = append(cs, c.Eq(m.intTerm(a.B[i]), m.intTerm(b.B[i])))
	}
	return unTerm(c.And(cs...))
}

func (m *Machine) stringIndex(x, idx Value, site string) Value {
	switch x := x.(type) {
	case string:
		i := m.index(idx, len(x), site)
		return uint64(x[i])
	case *BStr:
		i := m.index(idx, len(x.B), site)
		return x.B[i]
	}
	unsupported("index of %T", x)
	return nil
}

func (m *Machine) strLen(x Value) Value {
	switch x := x.(type) {
	case string:
		return int64(len(x))
	case *BStr:
		return int64(len(x.B))
	case *AStr:
		return SymInt{m.StrBytes(x.T)}
	}
	panic(fmt.Sprintf("strLen: %T", x))
}

// ---- equality

func (m *Machine) eqnil(t types.Type, x, y Value) Value {
	switch t.Underlying().(type) {
	case *types.Map:
		return (x.(*OMap) != nil) == (y.(*OMap) != nil)
	case *types.Slice:
		return (x.([]Value) != nil) == (y.([]Value) != nil)
	case *types.Signature:
		return isNilFunc(x) == isNilFunc(y)
	}
	return m.equalsV(t, x, y)
}

func isNilFunc(v Value) bool {
	switch v := v.(type) {
	case *ssa.Function:
		return v == nil
	case *Closure:
		return v == nil
	case *Intrinsic:
		return v == nil
	case *ssa.Builtin:
		return v == nil
	}
	return false
}

// equalsV implements == for type t; the result is a bool or a Bool term.
func (m *Machine) equalsV(t types.Type, x, y Value) Value {
	c := m.Ctx
	switch x := x.(type) {
	case bool, *smt.Term:
		if xb, ok := x.(bool); ok {
			if yb, ok := y.(bool); ok {
				return xb == yb
			}
		}
		return unTerm(c.Eq(boolTerm(c, x), boolTerm(c, y)))
	case int64:
		if yv, ok := y.(int64); ok {
			return x == yv
		}
		return unTerm(c.Eq(m.intTerm(x), m.intTerm(y)))
	case uint64:
		if yv, ok := y.(uint64); ok {
			return x == yv
		}
		return unTerm(c.Eq(m.intTerm(x), m.intTerm(y)))
	case SymInt:
		return unTerm(c.Eq(x.T, m.intTerm(y)))
	case float64, *SymFloat:
		return m.floatEq(x, y)
	case complex128:
		return x == y.(complex128)
	case string, *AStr, *BStr:
		return m.stringEq(x, y)
	case *Value:
		return x == y.(*Value)
	case *Native:
		yn := y.(*Native)
		if x == nil || yn == nil {
			return x == yn
		}
		return x.Obj == yn.Obj
	case RType:
		return x.Identical(y.(RType))
	case Struct:
		ys := y.(Struct)
		st := t.Underlying().(*types.Struct)
		var cs []*smt.Term
		for i := 0; i < st.NumFields(); i++ {
			if st.Field(i).Name() == "_" {
				continue
			}
			r := m.equalsV(st.Field(i).Type(), x[i], ys[i])
			if b, ok := r.(bool); ok {
				if !b {
					return false
				}
				continue
			}
			cs = append(cs, r.(*smt.Term))
		}
		return unTerm(c.And(cs...))
	case Array:
		ya := y.(Array)
		et := t.Underlying().(*types.Array).Elem()
		var cs []*smt.Term
		for i := range x {
			r := m.equalsV(et, x[i], ya[i])
			if b, ok := r.(bool); ok {
				if !b {
					return false
				}
				continue
			}
			cs = append(cs, r.(*smt.Term))
		}
		return unTerm(c.And(cs...))
	case Iface:
		yi := y.(Iface)
		if (x.T == nil && yi.T == m.P.NodeT) || (yi.T == nil && x.T == m.P.NodeT) {
			return m.nodeIfaceEq(x, yi)
		}
		if x.T == nil || yi.T == nil {
			return x.T == nil && yi.T == nil
		}
		if x.T == m.P.NodeT || yi.T == m.P.NodeT {
			return m.nodeIfaceEq(x, yi)
		}
		if !sameType(x.T, yi.T) {
			return false
		}
		if !types.Comparable(x.T) {
			panic(targetPanic{v: "runtime error: comparing uncomparable type " + x.T.String(), what: "uncomparable"})
		}
		return m.equalsV(x.T, x.V, yi.V)
	case *ssa.Function, *Closure, *Intrinsic, *ssa.Builtin:
		return isNilFunc(x) == isNilFunc(y)
	case nil:
		return y == nil
	}
	unsupported("comparison of %T", x)
	return nil
}

// ---- unop

func (m *Machine) unop(instr *ssa.UnOp, x Value) Value {
	c := m.Ctx
	switch instr.Op {
	case token.ARROW:
		unsupported("channel receive")
	case token.SUB:
		switch x := x.(type) {
		case int64, uint64:
			ii, _ := intInfoOf(instr.Type())
			return wrapInt(ii, wrapBig(ii, new(big.Int).Neg(bigOf(x))))
		case SymInt:
			ii, _ := intInfoOf(instr.Type())
			return m.mkInt(ii, c.Neg(x.T))
		case float64:
			return -x
		case *SymFloat:
			if x.FracOf != nil || x.Cls != nil {
				unsupported("negation of opaque float")
			}
			r := &SymFloat{R: c.Neg(x.R), Esel: x.Esel, Exps: x.Exps, IsInt: x.IsInt}
			if x.M != nil {
				r.M = c.Neg(x.M)
			}
			return r
		case complex128:
			return -x
		}
	case token.MUL:
		p := x.(*Value)
		if p == nil {
			nilDeref("load")
		}
		return load(deref(instr.X.Type()), p)
	case token.NOT:
		switch x := x.(type) {
		case bool:
			return !x
		case *smt.Term:
			return unTerm(c.Not(x))
		}
	case token.XOR:
		switch x := x.(type) {
		case int64:
			ii, _ := intInfoOf(instr.Type())
			return wrapInt(ii, big.NewInt(^x))
		case uint64:
			ii, _ := intInfoOf(instr.Type())
			return wrapInt(ii, new(big.Int).SetUint64(^x))
		}
		unsupported("^ on symbolic integer")
	}
	panic(fmt.Sprintf("invalid unary op %s %T", instr.Op, x))
}

// ---- slice, lookup

func (m *Machine) sliceBound(v Value, def int, site string) int {
	if v == nil {
		return def
	}
	return int(asInt64(m.concretize(v, site)))
}

func (m *Machine) slice(instr *ssa.Slice, x, lo, hi, max Value) Value {
	site := "slice"
	var Len, Cap int
	switch x := x.(type) {
	case string:
		Len, Cap = len(x), len(x)
	case *BStr:
		Len, Cap = len(x.B), len(x.B)
	case []Value:
		Len, Cap = len(x), cap(x)
	case *Value:
		if x == nil {
			nilDeref("slice of nil array pointer")
		}
		a := (*x).(Array)
		Len, Cap = len(a), cap(a)
	default:
		panic(fmt.Sprintf("slice: unexpected X type: %T", x))
	}
	l := m.sliceBound(lo, 0, site)
	isStr := false
	switch x.(type) {
	case string, *BStr:
		isStr = true
	}
	var h int
	if isStr || hi != nil {
		h = m.sliceBound(hi, Len, site)
	} else {
		h = Len
	}
	mx := m.sliceBound(max, Cap, site)
	if l < 0 || h < l || (isStr && h > Len) || (!isStr && (h > mx || mx > Cap)) {
		panic(targetPanic{v: fmt.Sprintf("slice bounds out of range [%d:%d] with capacity %d", l, h, Cap), what: "slice-bounds"})
	}
	switch x := x.(type) {
	case string:
		return x[l:h]
	case *BStr:
		return normBStr(&BStr{B: x.B[l:h:h]})
	case []Value:
		if x == nil && l == 0 && h == 0 {
			return []Value(nil)
		}
		return x[l:h:mx]
	case *Value:
		a := (*x).(Array)
		return []Value(a)[l:h:mx]
	}
	panic("unreachable")
}

func (m *Machine) lookup(instr *ssa.Lookup, x, idx Value, site string) Value {
	switch x := x.(type) {
	case *OMap:
		v, ok := x.Get(m, idx)
		if !ok {
			v = zero(instr.X.Type().Underlying().(*types.Map).Elem())
		} else {
			v = copyVal(v)
		}
		if instr.CommaOk {
			return Tuple{v, ok}
		}
		return v
	case string, *BStr:
		return m.stringIndex(x, idx, site)
	}
	panic(fmt.Sprintf("unexpected x type in Lookup: %T", x))
}

// ---- type assertions

func (m *Machine) typeAssert(instr *ssa.TypeAssert, itf Iface) Value {
	var v Value
	err := ""
	if itf.T == nil {
		err = fmt.Sprintf("interface conversion: interface is nil, not %s", instr.AssertedType)
	} else if itf.T == m.P.NodeT {
		ok, val := m.nodeTypeAssert(itf, instr.AssertedType)
		if ok {
			v = val
		} else {
			err = fmt.Sprintf("interface conversion: symbolic JSON value is not %s", instr.AssertedType)
		}
	} else if idst, ok := instr.AssertedType.Underlying().(*types.Interface); ok {
		v = itf
		if itf.T == m.P.ErrT || itf.T == m.P.RTypeT {
			// model types implement exactly the interface they stand for
			if idst.NumMethods() > 1 {
				err = "interface conversion on model value"
			}
		} else if meth, _ := types.MissingMethod(itf.T, idst, true); meth != nil {
			err = fmt.Sprintf("interface conversion: %v is not %v: missing method %s", itf.T, idst, meth.Name())
		}
	} else if types.Identical(itf.T, instr.AssertedType) {
		v = itf.V
	} else {
		err = fmt.Sprintf("interface conversion: interface is %s, not %s", itf.T, instr.AssertedType)
	}
	if err != "" {
		if !instr.CommaOk {
			panic(targetPanic{v: err, what: "type-assert"})
		}
		return Tuple{zero(instr.AssertedType), false}
	}
	if instr.CommaOk {
		return Tuple{v, true}
	}
	return v
}

// ---- builtins

func (m *Machine) callBuiltin(caller *frame, callpos token.Pos, fn *ssa.Builtin, args []Value) Value {
	switch fn.Name() {
	case "append":
		if len(args) == 1 {
			return args[0]
		}
		base := args[0].([]Value)
		var add []Value
		switch s := args[1].(type) {
		case string, *BStr:
			b, _ := toBStr(s)
			add = b.B
		default:
			add = args[1].([]Value)
		}
		if m.TrackShared && len(add) > 0 && cap(base) > len(base) && m.sharedCells[&base[:cap(base)][len(base)]] {
			m.noteSharedWrite("append into the spare capacity of a shared slice")
		}
		return append(base, add...)

	case "copy":
		src := args[1]
		switch s := src.(type) {
		case string, *BStr:
			b, _ := toBStr(s)
			src = b.B
		}
		dst := args[0].([]Value)
		if n := min(len(dst), len(src.([]Value))); m.TrackShared && n > 0 && m.sharedCells[&dst[0]] {
			m.noteSharedWrite("copy into a shared slice")
		}
		return int64(copy(dst, src.([]Value)))

	case "delete":
		args[0].(*OMap).Delete(m, args[1])
		return nil

	case "clear":
		switch x := args[0].(type) {
		case *OMap:
			if x != nil {
				x.entries = nil
			}
		case []Value:
			et := fn.Type().(*types.Signature).Params().At(0).Type().Underlying().(*types.Slice).Elem()
			for i := range x {
				x[i] = zero(et)
			}
		}
		return nil

	case "print", "println":
		return nil

	case "len":
		switch x := args[0].(type) {
		case string, *BStr, *AStr:
			return m.strLen(x)
		case Array:
			return int64(len(x))
		case *Value:
			if x == nil {
				// len of nil *array is the array length (static); approximate via type
				pt := fn.Type().(*types.Signature).Params().At(0).Type().Underlying().(*types.Pointer)
				return pt.Elem().Underlying().(*types.Array).Len()
			}
			return int64(len((*x).(Array)))
		case []Value:
			return int64(len(x))
		case *OMap:
			return int64(x.Len())
		default:
			panic(fmt.Sprintf("len: illegal operand: %T", x))
		}

	case "cap":
		switch x := args[0].(type) {
		case Array:
			return int64(cap(x))
		case *Value:
			return int64(cap((*x).(Array)))
		case []Value:
			return int64(cap(x))
		default:
			panic(fmt.Sprintf("cap: illegal operand: %T", x))
		}

	case "min", "max":
		t := fn.Type().(*types.Signature).Params().At(0).Type()
		acc := args[0]
		for _, a := range args[1:] {
			op := token.LSS
			if fn.Name() == "max" {
				op = token.GTR
			}
			less := m.binop(op, t, a, acc)
			switch l := less.(type) {
			case bool:
				if l {
					acc = a
				}
			case *smt.Term:
				if ii, ok := intInfoOf(t); ok {
					acc = m.mkInt(ii, m.Ctx.Ite(l, m.intTerm(a), m.intTerm(acc)))
				} else if m.Branch(l, "minmax") {
					acc = a
				}
			}
		}
		return acc

	case "real", "imag", "complex":
		unsupported("complex numbers")

	case "panic":
		panic(targetPanic{v: args[0], what: "explicit"})

	case "recover":
		return m.doRecover(caller)

	case "ssa:wrapnilchk":
		recv := args[0]
		if p, ok := recv.(*Value); ok && p == nil {
			panic(targetPanic{v: fmt.Sprintf("value method (%s).%s called using nil pointer", toString(args[1]), toString(args[2])), what: "nil-deref"})
		}
		return recv

	case "ssa:deferstack":
		return &caller.defers
	}
	panic("unknown built-in: " + fn.Name())
}

// ---- range

type iter interface {
	next() Tuple
}

type stringIter struct {
	m *Machine
	s Value
	i int
}

func (it *stringIter) next() Tuple {
	switch s := it.s.(type) {
	case string:
		if it.i >= len(s) {
			return Tuple{false, nil, nil}
		}
		r, n := utf8.DecodeRuneInString(s[it.i:])
		t := Tuple{true, int64(it.i), int64(r)}
		it.i += n
		return t
	case *BStr:
		if it.i >= len(s.B) {
			return Tuple{false, nil, nil}
		}
		b := s.B[it.i]
		if c, ok := b.(uint64); ok && c < utf8.RuneSelf {
			t := Tuple{true, int64(it.i), int64(c)}
			it.i++
			return t
		}
		if sb, ok := b.(SymInt); ok {
			// ASCII bytes decode to themselves; anything else is outside the kernel bounds.
			if it.m.Branch(it.m.Ctx.Lt(sb.T, it.m.Ctx.Int(utf8.RuneSelf)), "range-string-ascii") {
				t := Tuple{true, int64(it.i), SymInt{sb.T}}
				it.i++
				return t
			}
		}
		unsupported("range over byte string with non-ASCII byte")
	}
	panic("stringIter")
}

func (m *Machine) rangeIter(x Value, t types.Type) iter {
	switch x := x.(type) {
	case *OMap:
		ks := x.Keys()
		if m.AllOrders && m.OrderOncePerMap && len(ks) >= 2 {
			// one iteration order per map object and path: a repeated range over the same map (same
			// size) sees the order chosen the first time, so forks do not multiply with every traversal
			type cached struct{ perm []int }
			key := struct {
				o *OMap
				n int
			}{x, len(ks)}
			if c, ok := m.Scratch[key].(cached); ok {
				out := make([]Value, len(ks))
				for i, j := range c.perm {
					out[i] = ks[j]
				}
				return &mapIter{m: m, o: x, keys: out}
			}
			idx := make([]Value, len(ks))
			for i := range idx {
				idx[i] = int64(i)
			}
			chosen := m.orderKeys(idx)
			perm := make([]int, len(ks))
			out := make([]Value, len(ks))
			for i, v := range chosen {
				perm[i] = int(v.(int64))
				out[i] = ks[perm[i]]
			}
			m.Scratch[key] = cached{perm}
			return &mapIter{m: m, o: x, keys: out}
		}
		keys := m.orderKeys(ks)
		return &mapIter{m: m, o: x, keys: keys}
	case string, *BStr:
		return &stringIter{m: m, s: x}
	}
	panic(fmt.Sprintf("cannot range over %T", x))
}

// orderKeys chooses the iteration order of a map range. By default the stored
// (sorted/insertion) order; in all-orders mode every permutation of up to 4 keys, and
// every rotation in both directions of larger key sets.
func (m *Machine) orderKeys(keys []Value) []Value {
	if !m.AllOrders || len(keys) < 2 {
		return keys
	}
	if len(keys) > 4 {
		// larger maps: every rotation in both directions (each key comes first and last once)
		n := len(keys)
		k := m.ChooseN(2*n, "map-order-rotation")
		out := make([]Value, 0, n)
		for i := 0; i < n; i++ {
			if k < n {
				out = append(out, keys[(k+i)%n])
			} else {
				out = append(out, keys[((k-n)-i+2*n)%n])
			}
		}
		return out
	}
	rest := append([]Value(nil), keys...)
	var out []Value
	for len(rest) > 1 {
		i := m.ChooseN(len(rest), "map-order")
		out = append(out, rest[i])
		rest = append(rest[:i:i], rest[i+1:]...)
	}
	return append(out, rest[0])
}

// ---- conversions

func (m *Machine) conv(tDst, tSrc types.Type, x Value) Value {
	utSrc := tSrc.Underlying()
	utDst := tDst.Underlying()

	switch utSrc.(type) {
	case *types.Pointer, *types.Signature, *types.Struct, *types.Array, *types.Map, *types.Chan, *types.Interface:
		return x
	case *types.Slice:
		// []byte / []rune -> string
		if b, ok := utDst.(*types.Basic); ok && b.Info()&types.IsString != 0 {
			et := utSrc.(*types.Slice).Elem().Underlying().(*types.Basic)
			xs := x.([]Value)
			if et.Kind() == types.Uint8 {
				return normBStr(&BStr{B: append([]Value(nil), xs...)})
			}
			var sb strings.Builder
			for _, r := range xs {
				sb.WriteRune(rune(asInt64(r)))
			}
			return sb.String()
		}
		return x
	}
	bSrc, ok := utSrc.(*types.Basic)
	if !ok {
		panic(fmt.Sprintf("conv: unexpected source type %s", tSrc))
	}
	if bSrc.Kind() == types.UnsafePointer {
		return x
	}
	// string -> []byte / []rune
	if bSrc.Info()&types.IsString != 0 {
		if sl, ok := utDst.(*types.Slice); ok {
			et := sl.Elem().Underlying().(*types.Basic)
			if et.Kind() == types.Uint8 {
				b, ok := toBStr(x)
				if !ok {
					unsupported("[]byte(abstract string)")
				}
				return append([]Value(nil), b.B...)
			}
			s, ok := x.(string)
			if !ok {
				unsupported("[]rune(symbolic string)")
			}
			var out []Value
			for _, r := range s {
				out = append(out, int64(r))
			}
			return out
		}
		return x
	}
	bDst, ok := utDst.(*types.Basic)
	if !ok {
		panic(fmt.Sprintf("conv: unexpected destination type %s", tDst))
	}
	if bDst.Kind() == types.UnsafePointer {
		return x
	}
	// integer -> string
	if bDst.Info()&types.IsString != 0 {
		switch x := x.(type) {
		case int64:
			return string(rune(x))
		case uint64:
			return string(rune(x))
		case SymInt:
			// an ASCII code point converts to a one-byte string
			if m.Branch(m.Ctx.And(m.Ctx.Le(m.Ctx.Int(0), x.T), m.Ctx.Lt(x.T, m.Ctx.Int(0x80))), "string(rune)-ascii") {
				return &BStr{B: []Value{x}}
			}
		}
		unsupported("string(symbolic non-ASCII integer)")
	}
	if iiDst, ok := intInfos[bDst.Kind()]; ok {
		switch x := x.(type) {
		case int64, uint64:
			return wrapInt(iiDst, wrapBig(iiDst, bigOf(x)))
		case SymInt:
			return m.mkInt(iiDst, x.T)
		case float64:
			if math.IsNaN(x) || math.IsInf(x, 0) {
				return wrapInt(iiDst, iiDst.lo) // implementation-defined in Go; amd64 gives min
			}
			bf := new(big.Float).SetFloat64(math.Trunc(x))
			bi, _ := bf.Int(nil)
			if bi.Cmp(iiDst.lo) < 0 || bi.Cmp(iiDst.hi) > 0 {
				return wrapInt(iiDst, iiDst.lo)
			}
			return wrapInt(iiDst, bi)
		case *SymFloat:
			return m.floatToInt(iiDst, x)
		}
	}
	if is32, ok := isFloatType(tDst); ok {
		switch x := x.(type) {
		case int64:
			f := float64(x)
			if is32 {
				f = float64(float32(x))
			}
			return f
		case uint64:
			f := float64(x)
			if is32 {
				f = float64(float32(x))
			}
			return f
		case float64:
			if is32 {
				return float64(float32(x))
			}
			return x
		case SymInt:
			return m.intToFloat(x, is32)
		case *SymFloat:
			if is32 {
				unsupported("float32(symbolic float64)")
			}
			return x
		}
	}
	if bDst.Info()&types.IsComplex != 0 {
		return x
	}
	panic(fmt.Sprintf("unsupported conversion: %s -> %s, dynamic type %T", tSrc, tDst, x))
}

// intToFloat models float64(i): exact when |i| <= 2^53, otherwise unsupported (forked).
func (m *Machine) intToFloat(x SymInt, is32 bool) Value {
	c := m.Ctx
	lim := new(big.Int).Lsh(big.NewInt(1), 53)
	if is32 {
		lim = new(big.Int).Lsh(big.NewInt(1), 24)
	}
	lo, hi := m.interval(x.T)
	neg := new(big.Int).Neg(lim)
	if lo == nil || hi == nil || lo.Cmp(neg) < 0 || hi.Cmp(lim) > 0 {
		if !m.Branch(c.InRange(x.T, neg, lim), "int-to-float-exact") {
			return m.intToFloatRounded(x, is32)
		}
	}
	return &SymFloat{R: c.ToReal(x.T), M: x.T, Esel: c.Int(0), Exps: []int{0}, IsInt: c.True}
}

// intToFloatRounded models float64(i) for 2^53 < |i| < 2^64 with round-to-nearest-even.
func (m *Machine) intToFloatRounded(x SymInt, is32 bool) Value {
	if is32 {
		unsupported("float32 of large symbolic integer")
	}
	c := m.Ctx
	// Work on the absolute value; choose the power-of-two bucket 2^(53+k) <= |i| < 2^(54+k), k=0..10
	neg := m.Branch(c.Lt(x.T, c.Int(0)), "int-to-float-sign")
	a := x.T
	if neg {
		a = c.Neg(a)
	}
	var conds []*smt.Term
	for k := 0; k <= 10; k++ {
		lo := new(big.Int).Lsh(big.NewInt(1), uint(53+k))
		hi := new(big.Int).Lsh(big.NewInt(1), uint(54+k))
		hi.Sub(hi, big.NewInt(1))
		conds = append(conds, c.InRange(a, lo, hi))
	}
	k := m.Choose(conds, "int-to-float-bucket")
	ulp := new(big.Int).Lsh(big.NewInt(1), uint(k+1)) // spacing in [2^(53+k), 2^(54+k))
	half := new(big.Int).Rsh(ulp, 1)
	q := c.IDiv(a, c.BigInt(ulp))
	r := c.Mod(a, c.BigInt(ulp))
	// round half to even on q
	up := c.Or(c.Lt(c.BigInt(half), r), c.And(c.Eq(r, c.BigInt(half)), c.Eq(c.Mod(q, c.Int(2)), c.Int(1))))
	rq := c.Ite(up, c.Add(q, c.Int(1)), q)
	val := c.Mul(c.BigInt(ulp), rq)
	if neg {
		val = c.Neg(val)
	}
	return &SymFloat{R: c.ToReal(val), M: val, Esel: c.Int(0), Exps: []int{0}, IsInt: c.True}
}

// floatToInt models intN(f) for a finite f whose truncation fits the type (forks otherwise).
func (m *Machine) floatToInt(ii intInfo, x *SymFloat) Value {
	c := m.Ctx
	r, ok := m.floatReal(x)
	if !ok {
		unsupported("integer conversion of non-finite float")
	}
	if x.M != nil && x.Esel != nil {
		// exact integer arithmetic per exponent case: trunc(M * 2^E)
		var t *smt.Term
		for i := len(x.Exps) - 1; i >= 0; i-- {
			e := x.Exps[i]
			var ci *smt.Term
			switch {
			case e >= 0:
				ci = c.Mul(c.BigInt(new(big.Int).Lsh(big.NewInt(1), uint(e))), x.M)
			case -e >= 64:
				ci = c.Int(0)
			default:
				d := c.BigInt(new(big.Int).Lsh(big.NewInt(1), uint(-e)))
				// truncation toward zero
				ci = c.Ite(c.Le(c.Int(0), x.M), c.IDiv(x.M, d), c.Neg(c.IDiv(c.Neg(x.M), d)))
			}
			if t == nil {
				t = ci
			} else {
				t = c.Ite(c.Eq(x.Esel, c.Int(int64(i))), ci, t)
			}
		}
		t = m.simp(t)
		if !m.Branch(c.InRange(t, ii.lo, ii.hi), "float-to-int-range") {
			return wrapInt(ii, ii.lo)
		}
		m.DeclareRange(t, ii.lo, ii.hi)
		return SymInt{t}
	}
	// k = trunc(r): introduce k with k <= |r| < k+1 on the absolute value.
	k := c.Var(fmt.Sprintf("trunc!%d", r.ID), smt.SInt)
	nonneg := c.Le(c.RatInt(0), r)
	kr := c.ToReal(k)
	def := c.Ite(nonneg,
		c.And(c.Le(kr, r), c.Lt(r, c.Add(kr, c.RatInt(1)))),
		c.And(c.Le(r, kr), c.Lt(c.Sub(kr, c.RatInt(1)), r)))
	m.Define(def)
	if !m.Branch(c.InRange(k, ii.lo, ii.hi), "float-to-int-range") {
		// out of range: implementation-specific result (amd64: minimum value)
		return wrapInt(ii, ii.lo)
	}
	m.DeclareRange(k, ii.lo, ii.hi)
	return SymInt{k}
}

// ---- Go == on interfaces that hold symbolic JSON nodes

// ifaceView resolves an interface value to (nil?, dynamic type, accessor) on this path.
type ifaceView struct {
	isNil bool
	t     types.Type
	node  *Node // non-nil for node-backed values (value without wrappers unless ptr)
	ptr   bool  // the dynamic value is a pointer to the node's value
	v     Value // concrete engine value otherwise
}

func (m *Machine) viewIface(x Iface) ifaceView {
	if x.T == nil {
		return ifaceView{isNil: true}
	}
	if x.T != m.P.NodeT {
		return ifaceView{t: x.T, v: x.V}
	}
	var n *Node
	inner := false
	if in, ok := x.V.(NodeInner); ok {
		n, inner = in.N, true
	} else {
		n = x.V.(*Node)
	}
	w := 0
	if !inner {
		w = m.nodeWrap(n)
	}
	if w == 0 && m.Branch(m.nodeTagIn(n, TagNull), "iface-nil") {
		return ifaceView{isNil: true}
	}
	if w > 0 {
		t := m.nodeGoType(n)
		if t == nil {
			t = types.Typ[types.Int] // typed nil pointer: the harness uses *int
		}
		return ifaceView{t: types.NewPointer(t), node: n, ptr: true}
	}
	return ifaceView{t: m.nodeGoType(n), node: n}
}

func (m *Machine) nodeIfaceEq(x, y Iface) Value {
	c := m.Ctx
	a, b := m.viewIface(x), m.viewIface(y)
	if a.isNil || b.isNil {
		return a.isNil && b.isNil
	}
	if !types.Identical(a.t, b.t) {
		return false
	}
	if !types.Comparable(a.t) {
		panic(targetPanic{v: "runtime error: comparing uncomparable type " + a.t.String(), what: "uncomparable"})
	}
	if a.ptr || b.ptr {
		// pointers: identity; distinct nodes never alias
		return a.node != nil && a.node == b.node
	}
	// scalar views
	scalar := func(v ifaceView) Value {
		if v.node == nil {
			return v.v
		}
		n := v.node
		switch bt := v.t.Underlying().(type) {
		case *types.Basic:
			switch {
			case bt.Kind() == types.Bool:
				return unTerm(m.simp(n.B))
			case bt.Info()&types.IsInteger != 0:
				return m.intVal(n.IVal)
			case bt.Info()&types.IsFloat != 0:
				return n.Float()
			case bt.Kind() == types.String:
				if types.Identical(v.t, m.P.ImportedType("encoding/json", "Number")) {
					return &AStr{T: m.jsonNumberText(n)}
				}
				return &AStr{T: n.Str}
			}
		}
		return nil
	}
	if arr, ok := a.t.Underlying().(*types.Array); ok {
		// [n]any: element-wise interface comparison
		var cs []*smt.Term
		for i := 0; i < int(arr.Len()); i++ {
			ea, eb := m.elemIface(a, i), m.elemIface(b, i)
			r := m.equalsV(arr.Elem(), ea, eb)
			if bv, ok := r.(bool); ok {
				if !bv {
					return false
				}
				continue
			}
			cs = append(cs, r.(*smt.Term))
		}
		return unTerm(c.And(cs...))
	}
	sa, sb := scalar(a), scalar(b)
	if sa == nil || sb == nil {
		unsupported("== on interfaces holding %s", a.t)
	}
	return m.equalsV(a.t, sa, sb)
}

func (m *Machine) elemIface(v ifaceView, i int) Value {
	if v.node != nil {
		return Iface{T: m.P.NodeT, V: v.node.Elem(i)}
	}
	return v.v.(Array)[i]
}

// checkHashable panics like the runtime when an interface map key holds an unhashable dynamic type.
func (m *Machine) checkHashable(key Value) {
	k, ok := key.(Iface)
	if !ok || k.T == nil {
		return
	}
	v := m.viewIface(k)
	if !v.isNil && !types.Comparable(v.t) {
		panic(targetPanic{v: "runtime error: hash of unhashable type " + v.t.String(), what: "unhashable"})
	}
}
