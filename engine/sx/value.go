// Package sx is a bounded symbolic executor for go/ssa.
//
// Its skeleton (boxed values, frames, defers, closures, range-over-func) follows
// golang.org/x/tools/go/ssa/interp (BSD licence, The Go Authors); values may be SMT
// terms, branches on symbolic conditions fork by re-execution, and calls that leave
// the module under test go through an intrinsic table.
package sx

import (
	"bytes"
	"fmt"
	"go/types"
	"math/big"
	"unsafe"

	"golang.org/x/tools/go/ssa"

	"verif/engine/smt"
)

// Value is a boxed engine value. Dynamic types:
//
//	bool | *smt.Term (sort Bool)                 booleans
//	int64 (all signed kinds) | uint64 (unsigned) | SymInt   integers
//	float64 (float32 values are rounded) | *SymFloat        floats
//	string | *AStr (abstract string) | *BStr (byte string with symbolic bytes)
//	*Value            pointers
//	Struct, Array, []Value (slices), Iface, *OMap, Tuple
//	*ssa.Function, *ssa.Builtin, *Closure, *Intrinsic        functions
//	RType             reflect.Type payload
//	*Native           opaque handle to a native Go object (regexp, url, replacer, ...)
type Value = any

type Tuple []Value
type Array []Value
type Struct []Value

type Iface struct {
	T types.Type // nil for the nil interface
	V Value
}

type Closure struct {
	Fn  *ssa.Function
	Env []Value
}

// Intrinsic is an engine-native callable.
type Intrinsic struct {
	Name string
	Fn   func(m *Machine, fr *frame, args []Value) Value
}

// Native wraps a native Go object that the engine treats as opaque.
type Native struct {
	Kind string
	Obj  any
}

// SymInt is an integer whose mathematical value is the Int-sorted term T.
// The term always lies within the range of the static Go type it is used at.
type SymInt struct {
	T *smt.Term
}

// SymFloat is a finite or non-finite float64/float32.
type SymFloat struct {
	R *smt.Term // Real-sorted value when finite
	// Decomposition R = M * 2^Exps[Esel] when known (used for integrality and division).
	M, Esel *smt.Term
	Exps    []int
	IsInt   *smt.Term // Bool: value is integral (nil if unknown)
	Cls     *smt.Term // Int: 0 finite, 1 +Inf, 2 -Inf, 3 NaN; nil means finite
	FracOf  *SymFloat // this value is the fractional part returned by math.Modf(FracOf)
	NegZero *smt.Term // Bool: when the value is zero, its sign bit is set (nil = +0)
}

// AStr is an abstract string: only equality, code-point count, byte length,
// regexp matching and hashing observe it.
type AStr struct {
	T *smt.Term // sort Str
}

// BStr is a string or byte sequence of concrete length whose bytes may be symbolic.
type BStr struct {
	B []Value // each uint64 (0..255) or SymInt
}

type bad struct{}

// targetPanic is a panic raised by the program under test.
type targetPanic struct {
	v    Value
	what string // classification for runtime errors: "nil-deref", "index", "assert", ...
}

func (p targetPanic) String() string {
	if p.what != "" {
		return p.what + ": " + toString(p.v)
	}
	return toString(p.v)
}

func isSym(v Value) bool {
	switch v.(type) {
	case *smt.Term, SymInt, *SymFloat, *AStr, *BStr:
		return true
	}
	return false
}

// ---- type helpers

type intInfo struct {
	signed bool
	bits   int
	lo, hi *big.Int
}

var intInfos = map[types.BasicKind]intInfo{}

func init() {
	mk := func(k types.BasicKind, signed bool, bits int) {
		var lo, hi *big.Int
		if signed {
			hi = new(big.Int).Sub(new(big.Int).Lsh(big.NewInt(1), uint(bits-1)), big.NewInt(1))
			lo = new(big.Int).Neg(new(big.Int).Lsh(big.NewInt(1), uint(bits-1)))
		} else {
			lo = big.NewInt(0)
			hi = new(big.Int).Sub(new(big.Int).Lsh(big.NewInt(1), uint(bits)), big.NewInt(1))
		}
		intInfos[k] = intInfo{signed, bits, lo, hi}
	}
	mk(types.Int, true, 64)
	mk(types.Int8, true, 8)
	mk(types.Int16, true, 16)
	mk(types.Int32, true, 32)
	mk(types.Int64, true, 64)
	mk(types.Uint, false, 64)
	mk(types.Uint8, false, 8)
	mk(types.Uint16, false, 16)
	mk(types.Uint32, false, 32)
	mk(types.Uint64, false, 64)
	mk(types.Uintptr, false, 64)
	mk(types.UntypedInt, true, 64)
	mk(types.UntypedRune, true, 32)
}

func basicKind(t types.Type) (types.BasicKind, bool) {
	if b, ok := t.Underlying().(*types.Basic); ok {
		return b.Kind(), true
	}
	return 0, false
}

func intInfoOf(t types.Type) (intInfo, bool) {
	k, ok := basicKind(t)
	if !ok {
		return intInfo{}, false
	}
	ii, ok := intInfos[k]
	return ii, ok
}

func isFloatType(t types.Type) (is32 bool, ok bool) {
	k, ok := basicKind(t)
	if !ok {
		return false, false
	}
	switch k {
	case types.Float32:
		return true, true
	case types.Float64, types.UntypedFloat:
		return false, true
	}
	return false, false
}

// wrapInt normalises a concrete integer to the kind's width.
func wrapInt(ii intInfo, v *big.Int) Value {
	if ii.signed {
		switch ii.bits {
		case 8:
			return int64(int8(v.Int64()))
		case 16:
			return int64(int16(v.Int64()))
		case 32:
			return int64(int32(v.Int64()))
		}
		return v.Int64()
	}
	switch ii.bits {
	case 8:
		return uint64(uint8(v.Uint64()))
	case 16:
		return uint64(uint16(v.Uint64()))
	case 32:
		return uint64(uint32(v.Uint64()))
	}
	return v.Uint64()
}

func bigOf(v Value) *big.Int {
	switch v := v.(type) {
	case int64:
		return big.NewInt(v)
	case uint64:
		return new(big.Int).SetUint64(v)
	}
	panic(fmt.Sprintf("bigOf: %T", v))
}

func asInt64(x Value) int64 {
	switch x := x.(type) {
	case int64:
		return x
	case uint64:
		return int64(x)
	}
	panic(abort{kind: abortUnsupported, msg: fmt.Sprintf("concrete integer required, got %T", x)})
}

// zero returns a new zero value of type t.
func zero(t types.Type) Value {
	switch t := t.(type) {
	case *types.Basic:
		if t.Kind() == types.UntypedNil {
			panic("untyped nil has no zero value")
		}
		if t.Info()&types.IsUntyped != 0 {
			t = types.Default(t).(*types.Basic)
		}
		switch t.Kind() {
		case types.Bool:
			return false
		case types.Int, types.Int8, types.Int16, types.Int32, types.Int64:
			return int64(0)
		case types.Uint, types.Uint8, types.Uint16, types.Uint32, types.Uint64, types.Uintptr:
			return uint64(0)
		case types.Float32, types.Float64:
			return float64(0)
		case types.Complex64, types.Complex128:
			return complex128(0)
		case types.String:
			return ""
		case types.UnsafePointer:
			return unsafe.Pointer(nil)
		}
		panic(fmt.Sprint("zero for unexpected type:", t))
	case *types.Pointer:
		return (*Value)(nil)
	case *types.Array:
		a := make(Array, t.Len())
		for i := range a {
			a[i] = zero(t.Elem())
		}
		return a
	case *types.Named:
		return zero(t.Underlying())
	case *types.Alias:
		return zero(types.Unalias(t))
	case *types.Interface:
		return Iface{}
	case *types.Slice:
		return []Value(nil)
	case *types.Struct:
		s := make(Struct, t.NumFields())
		for i := range s {
			s[i] = zero(t.Field(i).Type())
		}
		return s
	case *types.Tuple:
		if t.Len() == 1 {
			return zero(t.At(0).Type())
		}
		s := make(Tuple, t.Len())
		for i := range s {
			s[i] = zero(t.At(i).Type())
		}
		return s
	case *types.Chan:
		return (*Native)(nil)
	case *types.Map:
		return (*OMap)(nil)
	case *types.Signature:
		return (*ssa.Function)(nil)
	case *types.TypeParam:
		panic("zero of type parameter")
	}
	panic(fmt.Sprint("zero: unexpected ", t))
}

// load returns a copy of the value of type T in *addr.
func load(T types.Type, addr *Value) Value {
	switch T := T.Underlying().(type) {
	case *types.Struct:
		v := (*addr).(Struct)
		a := make(Struct, len(v))
		for i := range a {
			a[i] = load(T.Field(i).Type(), &v[i])
		}
		return a
	case *types.Array:
		v := (*addr).(Array)
		a := make(Array, len(v))
		for i := range a {
			a[i] = load(T.Elem(), &v[i])
		}
		return a
	default:
		// a buffer filled by PutUint64 read byte by byte
		switch tk := (*addr).(type) {
		case tokU64:
			return byteValue(tk.Byte)
		case tokPad:
			return byteValue(tk.Byte)
		}
		return *addr
	}
}

func byteValue(t *smt.Term) Value {
	if t.Op == smt.OpConst {
		return t.I.Uint64()
	}
	return SymInt{t}
}

// copyVal returns a deep copy of the aggregate parts of v (structs and arrays are values).
func copyVal(v Value) Value {
	switch v := v.(type) {
	case Struct:
		a := make(Struct, len(v))
		for i := range v {
			a[i] = copyVal(v[i])
		}
		return a
	case Array:
		a := make(Array, len(v))
		for i := range v {
			a[i] = copyVal(v[i])
		}
		return a
	}
	return v
}

func deref(t types.Type) types.Type {
	if p, ok := t.Underlying().(*types.Pointer); ok {
		return p.Elem()
	}
	panic(fmt.Sprintf("deref: %v is not a pointer", t))
}

// sameType is a nil-tolerant types.Identical.
func sameType(x, y types.Type) bool {
	if x == nil {
		return y == nil
	}
	return y != nil && types.Identical(x, y)
}

func writeValue(buf *bytes.Buffer, v Value, depth int) {
	if depth > 6 {
		buf.WriteString("...")
		return
	}
	switch v := v.(type) {
	case nil, bool, int64, uint64, float64, complex128, string:
		fmt.Fprintf(buf, "%v", v)
	case *smt.Term:
		fmt.Fprintf(buf, "<bool %s>", trunc(v.String()))
	case SymInt:
		fmt.Fprintf(buf, "<int %s>", trunc(v.T.String()))
	case *SymFloat:
		buf.WriteString("<float>")
	case *AStr:
		fmt.Fprintf(buf, "<str %s>", v.T)
	case *BStr:
		buf.WriteString("<bstr")
		for _, b := range v.B {
			if c, ok := b.(uint64); ok {
				fmt.Fprintf(buf, " %q", rune(c))
			} else {
				buf.WriteString(" ?")
			}
		}
		buf.WriteString(">")
	case *OMap:
		if v == nil {
			buf.WriteString("map[nil]")
			return
		}
		buf.WriteString("map[")
		for i, e := range v.entries {
			if i > 0 {
				buf.WriteString(" ")
			}
			writeValue(buf, e.k, depth+1)
			buf.WriteString(":")
			writeValue(buf, e.v, depth+1)
		}
		buf.WriteString("]")
	case *Value:
		if v == nil {
			buf.WriteString("<nil>")
		} else {
			fmt.Fprintf(buf, "%p", v)
		}
	case Iface:
		if v.T == nil {
			buf.WriteString("(nil)")
			return
		}
		fmt.Fprintf(buf, "(%s, ", v.T)
		writeValue(buf, v.V, depth+1)
		buf.WriteString(")")
	case Struct:
		buf.WriteString("{")
		for i, e := range v {
			if i > 0 {
				buf.WriteString(" ")
			}
			writeValue(buf, e, depth+1)
		}
		buf.WriteString("}")
	case Array:
		buf.WriteString("[")
		for i, e := range v {
			if i > 0 {
				buf.WriteString(" ")
			}
			writeValue(buf, e, depth+1)
		}
		buf.WriteString("]")
	case []Value:
		buf.WriteString("[")
		for i, e := range v {
			if i > 0 {
				buf.WriteString(" ")
			}
			writeValue(buf, e, depth+1)
		}
		buf.WriteString("]")
	case *ssa.Function, *ssa.Builtin, *Closure, *Intrinsic:
		fmt.Fprintf(buf, "%p", v)
	case RType:
		buf.WriteString(v.String())
	case Tuple:
		buf.WriteString("(")
		for i, e := range v {
			if i > 0 {
				buf.WriteString(", ")
			}
			writeValue(buf, e, depth+1)
		}
		buf.WriteString(")")
	default:
		fmt.Fprintf(buf, "<%T>", v)
	}
}

func trunc(s string) string {
	if len(s) > 80 {
		return s[:80] + "..."
	}
	return s
}

func toString(v Value) string {
	var b bytes.Buffer
	writeValue(&b, v, 0)
	return b.String()
}

// ZeroOf returns the zero engine value of type t.
func ZeroOf(t types.Type) Value { return zero(t) }

// ConcreteString returns the Go string denoted by a fully concrete engine string value.
func ConcreteString(v Value) (string, bool) {
	switch s := v.(type) {
	case string:
		return s, true
	case *BStr:
		b := make([]byte, len(s.B))
		for i, x := range s.B {
			switch x := x.(type) {
			case uint64:
				b[i] = byte(x)
			case int64:
				b[i] = byte(x)
			default:
				return "", false
			}
		}
		return string(b), true
	}
	return "", false
}

// NewError returns an error value with the given text (as the fmt/errors stubs make them).
func (m *Machine) NewError(text string) Value { return m.P.mkErr(text) }
