package sx

import (
	"fmt"
	"go/token"
	"go/types"
	"strings"

	"golang.org/x/tools/go/packages"
	"golang.org/x/tools/go/ssa"
	"golang.org/x/tools/go/ssa/ssautil"
)

// Program is the loaded SSA of the package under test plus the engine's model tables.
type Program struct {
	Prog *ssa.Program
	Pkg  *ssa.Package // package under test
	Path string       // its import path

	// Sentinel dynamic types for model values held in interfaces.
	RTypeT types.Type // reflect.Type implementation
	ErrT   types.Type // opaque error
	NodeT  types.Type // symbolic JSON node behind an `any`

	intr       map[string]*Intrinsic
	prefixIntr map[string]*Intrinsic // matched by prefix of fn.String() (generic instances)
	interpPkgs map[string]bool
	kinds      map[string]string // callee -> treatment kind, for evidence

	// GlobalInit supplies initial values for package-level variables (imported from
	// the native process); returning false means zero value.
	GlobalInit func(m *Machine, g *ssa.Global) (Value, bool)
}

func sentinel(name string) types.Type {
	return types.NewNamed(types.NewTypeName(token.NoPos, nil, name, nil), types.NewStruct(nil, nil), nil)
}

// Load type-checks and builds SSA for the package in dir. overlay maps absolute
// file names to contents (harness files injected into the package).
func Load(dir string, overlay map[string][]byte) (*Program, error) {
	cfg := &packages.Config{
		Mode:    packages.LoadAllSyntax,
		Dir:     dir,
		Overlay: overlay,
		Env:     nil,
	}
	pkgs, err := packages.Load(cfg, ".")
	if err != nil {
		return nil, err
	}
	if len(pkgs) != 1 {
		return nil, fmt.Errorf("expected one package, got %d", len(pkgs))
	}
	if len(pkgs[0].Errors) > 0 {
		var sb strings.Builder
		for _, e := range pkgs[0].Errors {
			sb.WriteString(e.Error() + "\n")
		}
		return nil, fmt.Errorf("package errors:\n%s", sb.String())
	}
	prog, spkgs := ssautil.AllPackages(pkgs, ssa.InstantiateGenerics)
	prog.Build()
	p := &Program{
		Prog:       prog,
		Pkg:        spkgs[0],
		Path:       pkgs[0].PkgPath,
		RTypeT:     sentinel("sx.rtype"),
		ErrT:       sentinel("sx.error"),
		NodeT:      sentinel("sx.jsonnode"),
		intr:       map[string]*Intrinsic{},
		prefixIntr: map[string]*Intrinsic{},
		kinds:      map[string]string{},
		interpPkgs: map[string]bool{
			pkgs[0].PkgPath: true,
			"slices":        true,
			"maps":          true,
			"cmp":           true,
			"iter":          true,
			"sort":          true,
			"math/bits":     true,
			"strconv":       true,
			"bytes":         true, // (functions without an intrinsic; assembly-backed ones stay unsupported)
			"unicode":       true,
			"unicode/utf8":  true,
		},
	}
	registerIntrinsics(p)
	return p, nil
}

// Reg registers an intrinsic for the function with the given ssa name.
func (p *Program) Reg(name, kind string, fn func(m *Machine, fr *frame, args []Value) Value) {
	p.intr[name] = &Intrinsic{Name: name, Fn: fn}
	p.kinds[name] = kind
}

// RegPrefix registers an intrinsic for every function whose name starts with prefix.
func (p *Program) RegPrefix(prefix, kind string, fn func(m *Machine, fr *frame, args []Value) Value) {
	p.prefixIntr[prefix] = &Intrinsic{Name: prefix + "*", Fn: fn}
	p.kinds[prefix+"*"] = kind
}

// Kind reports how a callee is treated ("model", "native", "stub", "interpreted").
func (p *Program) Kind(name string) string {
	if k, ok := p.kinds[name]; ok {
		return k
	}
	return "interpreted"
}

func (p *Program) intrinsic(name string) *Intrinsic {
	if in, ok := p.intr[name]; ok {
		return in
	}
	unsupported("no model for %s", name)
	return nil
}

func (p *Program) lookupIntrinsic(fn *ssa.Function) *Intrinsic {
	name := fn.String()
	if in, ok := p.intr[name]; ok {
		return in
	}
	if i := strings.IndexByte(name, '['); i > 0 {
		if in, ok := p.prefixIntr[name[:i]]; ok {
			return in
		}
	}
	return nil
}

func fnPkgPath(fn *ssa.Function) string {
	if o := fn.Origin(); o != nil {
		fn = o
	}
	if fn.Pkg != nil {
		return fn.Pkg.Pkg.Path()
	}
	if fn.Object() != nil && fn.Object().Pkg() != nil {
		return fn.Object().Pkg().Path()
	}
	return ""
}

// interpFuncs are single functions of otherwise modelled packages that are executed from their real SSA.
var interpFuncs = map[string]bool{
	"encoding/json.parseTag":              true,
	"encoding/json.isValidTag":            true,
	"(encoding/json.tagOptions).Contains": true,
}

func (p *Program) mayInterpret(fn *ssa.Function) bool {
	if interpFuncs[fn.String()] {
		return true
	}
	path := fnPkgPath(fn)
	if path == "" {
		return true // synthetic wrappers, bound methods, thunks
	}
	return p.interpPkgs[path]
}

// Func returns a package-level function or method of the package under test.
// name is "F" or "(*T).M" / "(T).M".
func (p *Program) Func(name string) *ssa.Function {
	if !strings.HasPrefix(name, "(") {
		f := p.Pkg.Func(name)
		if f == nil {
			panic(abort{kind: abortUnsupported, msg: "anchor-missing: function " + name})
		}
		return f
	}
	// (*T).M or (T).M
	end := strings.Index(name, ").")
	recv, meth := name[1:end], name[end+2:]
	ptr := strings.HasPrefix(recv, "*")
	recv = strings.TrimPrefix(recv, "*")
	tn := p.Pkg.Type(recv)
	if tn == nil {
		panic(abort{kind: abortUnsupported, msg: "anchor-missing: type " + recv})
	}
	var t types.Type = tn.Type()
	if ptr {
		t = types.NewPointer(t)
	}
	f := p.Prog.LookupMethod(t, p.Pkg.Pkg, meth)
	if f == nil {
		panic(abort{kind: abortUnsupported, msg: "anchor-missing: method " + name})
	}
	return f
}

// NamedType returns the named type T of the package under test.
func (p *Program) NamedType(name string) types.Type {
	tn := p.Pkg.Type(name)
	if tn == nil {
		panic(abort{kind: abortUnsupported, msg: "anchor-missing: type " + name})
	}
	return tn.Type()
}

// ImportedType returns pkg.Name for any package in the program.
func (p *Program) ImportedType(pkg, name string) types.Type {
	sp := p.Prog.ImportedPackage(pkg)
	if sp == nil {
		for _, q := range p.Prog.AllPackages() {
			if q.Pkg.Path() == pkg {
				sp = q
				break
			}
		}
	}
	if sp == nil || sp.Type(name) == nil {
		panic(abort{kind: abortUnsupported, msg: "anchor-missing: type " + pkg + "." + name})
	}
	return sp.Type(name).Type()
}

// FieldIndex returns the index of the named field of struct type t (-1 if absent).
func FieldIndex(t types.Type, name string) int {
	st, ok := t.Underlying().(*types.Struct)
	if !ok {
		return -1
	}
	for i := 0; i < st.NumFields(); i++ {
		if st.Field(i).Name() == name {
			return i
		}
	}
	return -1
}

// FuncIn returns a package-level function of any package in the program.
func (p *Program) FuncIn(pkg, name string) *ssa.Function {
	for _, q := range p.Prog.AllPackages() {
		if q.Pkg.Path() == pkg {
			if f := q.Func(name); f != nil {
				return f
			}
		}
	}
	panic(abort{kind: abortUnsupported, msg: "anchor-missing: " + pkg + "." + name})
}

// MethodIn returns method name of named type typ (value receiver) in package pkg.
func (p *Program) MethodIn(pkg, typ, name string, ptr bool) *ssa.Function {
	var t types.Type = p.ImportedType(pkg, typ)
	if ptr {
		t = types.NewPointer(t)
	}
	var tp *types.Package
	for _, q := range p.Prog.AllPackages() {
		if q.Pkg.Path() == pkg {
			tp = q.Pkg
		}
	}
	f := p.Prog.LookupMethod(t, tp, name)
	if f == nil {
		panic(abort{kind: abortUnsupported, msg: "anchor-missing: " + pkg + "." + typ + "." + name})
	}
	return f
}
