package sx

import (
	"fmt"
	"go/types"
	"math/big"
	"regexp"
	"runtime"
	"sort"
	"strings"
	"time"

	"golang.org/x/tools/go/ssa"

	"verif/engine/smt"
)

type abortKind int

const (
	abortUnsupported abortKind = iota // construct or callee the engine cannot execute: inconclusive
	abortBudget                       // step or depth budget exhausted: bound exceeded
	abortInfeasible                   // path condition became unsatisfiable (assume false)
	abortSolver                       // solver answered unknown where a definite answer is needed
)

// abort ends the current path without it being a behaviour of the program.
type abort struct {
	kind abortKind
	msg  string
}

func (a abort) Error() string { return fmt.Sprintf("abort(%d): %s", a.kind, a.msg) }

func unsupported(format string, args ...any) {
	panic(abort{kind: abortUnsupported, msg: fmt.Sprintf(format, args...)})
}

type decision struct {
	choice int
	forced bool
}

// Outcome kinds of a path.
const (
	OutReturn      = "return"
	OutPanic       = "panic"
	OutUnsupported = "unsupported"
	OutBudget      = "bound-exceeded"
	OutInfeasible  = "infeasible"
	OutSolver      = "solver-unknown"
)

type PathResult struct {
	Outcome      string
	Ret          Value
	Panic        *targetPanic
	Msg          string
	PC           []*smt.Term
	Trace        []decision
	Steps        int
	SharedWrites []string
	Uncertain    bool // some feasibility check answered unknown
}

// Decisive reports whether the path is a behaviour of the program (return or panic).
func (r *PathResult) Decisive() bool { return r.Outcome == OutReturn || r.Outcome == OutPanic }

// Limits bound every path ("unwinding assertions": exceeding them is reported, never silently cut).
type Limits struct {
	MaxSteps int
	MaxDepth int
	MaxPaths int
	MaxWall  time.Duration // per exploration; 0 = unlimited
}

var DefaultLimits = Limits{MaxSteps: 2_000_000, MaxDepth: 400, MaxPaths: 20000}

type Stats struct {
	Paths       int
	Forks       int
	Steps       int64
	FeasQueries int
	UnknownFeas int
	ByOutcome   map[string]int
	ForkSites   map[string]int
	FuncsRun    map[string]int // SSA functions executed -> instructions executed
	Intrinsics  map[string]int
	Unsupported map[string]int
	Elapsed     time.Duration
	PathsCapped bool
}

func NewStats() *Stats {
	return &Stats{ByOutcome: map[string]int{}, ForkSites: map[string]int{}, FuncsRun: map[string]int{}, Intrinsics: map[string]int{}, Unsupported: map[string]int{}}
}

func (s *Stats) Merge(o *Stats) {
	s.Paths += o.Paths
	s.Forks += o.Forks
	s.Steps += o.Steps
	s.FeasQueries += o.FeasQueries
	s.UnknownFeas += o.UnknownFeas
	s.PathsCapped = s.PathsCapped || o.PathsCapped
	for k, v := range o.ByOutcome {
		s.ByOutcome[k] += v
	}
	for k, v := range o.ForkSites {
		s.ForkSites[k] += v
	}
	for k, v := range o.FuncsRun {
		s.FuncsRun[k] += v
	}
	for k, v := range o.Intrinsics {
		s.Intrinsics[k] += v
	}
	for k, v := range o.Unsupported {
		s.Unsupported[k] += v
	}
	s.Elapsed += o.Elapsed
}

// Machine executes one harness over all its paths. Not safe for concurrent use;
// use one Machine (with its own Ctx and Solver) per worker.
type Machine struct {
	P      *Program
	Ctx    *smt.Ctx
	S      *smt.Solver
	Limits Limits
	Stats  *Stats

	// Base constraints of the current exploration (template invariants, assumptions
	// made before the first fork).
	base         []*smt.Term
	baseAsserted int // how many are asserted at the exploration's outer scope
	inPath       bool

	// per path
	prefix       []decision
	pos          int
	trace        []decision
	pc           []*smt.Term
	known        map[*smt.Term]bool
	bind         map[*smt.Term]*smt.Term
	steps        int
	depth        int
	globals      map[*ssa.Global]*Value
	sharedCells  map[*Value]bool
	sharedWrites []string
	uncertain    bool
	initStarted  bool
	worklist     [][]decision

	AllOrders       bool // fork over map iteration orders (up to 4 keys)
	OrderOncePerMap bool // with AllOrders: one order per map object and path (repeated ranges reuse it)
	TrackShared     bool

	ranges      map[*smt.Term][2]*big.Int
	assumptions map[string]bool

	// per exploration (per Ctx) model state
	nodes         map[string]*Node
	strConsts     map[string]*smt.Term
	strConstOrder []string
	patterns      map[string]*regexp.Regexp
	patternOrder  []string
	jnTexts       map[*smt.Term]*Node
	initDone      bool
	axioms        map[*smt.Term]bool
	extraModel    []*smt.Term
	Env           map[string]string

	JSONUnmarshalHook func(m *Machine, args []Value) (Value, bool)
	JSONMarshalHook   func(m *Machine, args []Value) (Value, bool)

	// Scratch is reset per path; models keep their state here.
	Scratch map[any]any

	// Trace enables instruction tracing to stderr.
	Tracing bool
}

func NewMachine(p *Program, ctx *smt.Ctx, s *smt.Solver) *Machine {
	return &Machine{P: p, Ctx: ctx, S: s, Limits: DefaultLimits, Stats: NewStats()}
}

// AddBase adds a constraint that holds on every path of the exploration.
func (m *Machine) AddBase(t *smt.Term) {
	if t.IsTrue() {
		return
	}
	m.base = append(m.base, t)
	if m.inPath {
		m.S.Assert(t)
	}
}

// Axiom adds a universally valid fact about terms created during a path (each fact once).
func (m *Machine) Axiom(t *smt.Term) {
	if m.axioms == nil {
		m.axioms = map[*smt.Term]bool{}
	}
	if m.axioms[t] {
		return
	}
	m.axioms[t] = true
	m.AddBase(t)
}

// Base returns the base constraints.
func (m *Machine) Base() []*smt.Term { return m.base }

// ResetBase forgets base constraints (between explorations on the same Ctx).
func (m *Machine) ResetBase() { m.base = nil; m.baseAsserted = 0 }

// Explore runs body once per feasible path. onPath is called at the end of every
// path while the solver still holds base ∧ PC, so it can issue verdict queries.
func (m *Machine) Explore(body func(m *Machine) Value, onPath func(m *Machine, r *PathResult)) {
	t0 := time.Now()
	m.worklist = [][]decision{nil}
	m.S.Push()
	m.baseAsserted = 0
	for len(m.worklist) > 0 {
		if m.Stats.Paths >= m.Limits.MaxPaths || (m.Limits.MaxWall > 0 && time.Since(t0) > m.Limits.MaxWall) {
			m.Stats.PathsCapped = true
			break
		}
		n := len(m.worklist) - 1
		prefix := m.worklist[n]
		m.worklist = m.worklist[:n]
		for ; m.baseAsserted < len(m.base); m.baseAsserted++ {
			m.S.Assert(m.base[m.baseAsserted])
		}
		m.S.Push()
		m.inPath = true
		r := m.runPath(prefix, body)
		m.Stats.Paths++
		m.Stats.ByOutcome[r.Outcome]++
		m.Stats.Steps += int64(r.Steps)
		if r.Outcome == OutUnsupported {
			m.Stats.Unsupported[r.Msg]++
		}
		// a path ended by a stated assumption (or a template constraint) that contradicts its
		// path condition denotes no input: it is counted in ByOutcome and not reported
		if onPath != nil && r.Outcome != OutInfeasible {
			onPath(m, r)
		}
		m.inPath = false
		m.S.Pop()
	}
	m.S.Pop()
	m.Stats.Elapsed += time.Since(t0)
}

func (m *Machine) runPath(prefix []decision, body func(m *Machine) Value) (res *PathResult) {
	m.prefix = prefix
	m.pos = 0
	m.trace = nil
	m.pc = nil
	m.known = map[*smt.Term]bool{}
	m.bind = map[*smt.Term]*smt.Term{}
	m.steps = 0
	m.depth = 0
	m.globals = map[*ssa.Global]*Value{}
	m.sharedCells = map[*Value]bool{}
	m.sharedWrites = nil
	m.uncertain = false
	m.initStarted = false
	m.initDone = false
	m.Scratch = map[any]any{}
	res = &PathResult{}
	defer func() {
		res.PC = m.pc
		res.Trace = m.trace
		res.Steps = m.steps
		res.SharedWrites = m.sharedWrites
		res.Uncertain = m.uncertain
		if r := recover(); r != nil {
			switch r := r.(type) {
			case abort:
				res.Msg = r.msg
				switch r.kind {
				case abortUnsupported:
					res.Outcome = OutUnsupported
				case abortBudget:
					res.Outcome = OutBudget
				case abortInfeasible:
					res.Outcome = OutInfeasible
				case abortSolver:
					res.Outcome = OutSolver
				}
			case targetPanic:
				res.Outcome = OutPanic
				rr := r
				res.Panic = &rr
				res.Msg = r.String()
			case runtime.Error:
				// An engine bug or an unmodelled dynamic type: inconclusive, never a program behaviour.
				buf := make([]byte, 4096)
				buf = buf[:runtime.Stack(buf, false)]
				res.Outcome = OutUnsupported
				res.Msg = "engine: " + r.Error() + " @ " + firstEngineFrame(string(buf))
			default:
				res.Outcome = OutUnsupported
				res.Msg = fmt.Sprintf("engine panic: %v", r)
			}
		}
	}()
	res.Ret = body(m)
	res.Outcome = OutReturn
	return res
}

func firstEngineFrame(stack string) string {
	lines := strings.Split(stack, "\n")
	var out []string
	for i, l := range lines {
		if strings.Contains(l, "verif/engine/sx.") && !strings.Contains(l, "runPath") && i+1 < len(lines) {
			out = append(out, strings.TrimSpace(l)+" "+strings.TrimSpace(lines[i+1]))
			if len(out) == 3 {
				break
			}
		}
	}
	return strings.Join(out, " <- ")
}

// site names the current fork site for the profile.
func (m *Machine) site(tag string) string { return tag }

// Assume adds t to the path condition; the path ends as infeasible if it contradicts it.
func (m *Machine) Assume(t *smt.Term) {
	t = m.simp(t)
	if t.IsTrue() {
		return
	}
	if t.IsFalse() {
		panic(abort{kind: abortInfeasible, msg: "assume false"})
	}
	if m.pos < len(m.prefix) {
		// replaying: feasibility was established when the prefix was first explored
		m.assertPC(t)
		return
	}
	m.Stats.FeasQueries++
	switch m.S.CheckWith(t) {
	case smt.Unsat:
		panic(abort{kind: abortInfeasible, msg: "assumption contradicts path condition"})
	case smt.Unknown:
		m.uncertain = true
		m.Stats.UnknownFeas++
	}
	m.assertPC(t)
}

// Define adds a definitional constraint (always satisfiable) to the path condition.
func (m *Machine) Define(t *smt.Term) {
	if t.IsTrue() {
		return
	}
	m.pc = append(m.pc, t)
	m.S.Assert(t)
}

func (m *Machine) assertPC(t *smt.Term) {
	m.pc = append(m.pc, t)
	m.S.Assert(t)
	m.learn(t, true)
}

// learn records cheap consequences of t having truth value val.
func (m *Machine) learn(t *smt.Term, val bool) {
	m.known[t] = val
	if val {
		switch t.Op {
		case smt.OpVar:
			m.bind[t] = m.Ctx.True
		case smt.OpNot:
			m.learn(t.Args[0], false)
		case smt.OpAnd:
			for _, a := range t.Args {
				m.learn(a, true)
			}
		case smt.OpEq:
			a, b := t.Args[0], t.Args[1]
			if a.Op == smt.OpConst {
				a, b = b, a
			}
			if b.Op == smt.OpConst && a.Op == smt.OpVar {
				m.bind[a] = b
			}
		}
	} else {
		switch t.Op {
		case smt.OpVar:
			m.bind[t] = m.Ctx.False
		case smt.OpNot:
			m.learn(t.Args[0], true)
		case smt.OpOr:
			for _, a := range t.Args {
				m.learn(a, false)
			}
		}
	}
}

// simp simplifies t under the bindings learned on this path.
func (m *Machine) simp(t *smt.Term) *smt.Term {
	if t.Op == smt.OpConst {
		return t
	}
	if v, ok := m.known[t]; ok && t.Sort == smt.SBool {
		return m.Ctx.Bool(v)
	}
	if len(m.bind) > 0 {
		t = m.Ctx.Subst(t, m.bind)
		if v, ok := m.known[t]; ok && t.Sort == smt.SBool {
			return m.Ctx.Bool(v)
		}
	}
	return t
}

// Simp exposes simp for models.
func (m *Machine) Simp(t *smt.Term) *smt.Term { return m.simp(t) }

// truth decides a boolean Value on the current path, forking if necessary.
func (m *Machine) truth(v Value, site string) bool {
	switch v := v.(type) {
	case bool:
		return v
	case *smt.Term:
		return m.Branch(v, site)
	}
	panic(fmt.Sprintf("truth: not a boolean: %T", v))
}

// Branch decides the truth of cond on this path. When both outcomes are feasible the
// other one is queued as a new path.
func (m *Machine) Branch(cond *smt.Term, site string) bool {
	cond = m.simp(cond)
	if cond.Op == smt.OpConst {
		return cond.B
	}
	c := m.Choose([]*smt.Term{cond, m.Ctx.Not(cond)}, site)
	return c == 0
}

// Choose picks one of the alternatives whose condition is feasible; the others that are
// feasible are queued. Conditions need not be exclusive; they should be exhaustive.
func (m *Machine) Choose(conds []*smt.Term, site string) int {
	if m.pos < len(m.prefix) {
		d := m.prefix[m.pos]
		m.pos++
		m.trace = append(m.trace, d)
		if d.choice >= len(conds) {
			panic(abort{kind: abortUnsupported, msg: "engine: non-deterministic replay at " + site})
		}
		c := m.simp(conds[d.choice])
		if !d.forced && !c.IsTrue() {
			m.assertPC(c)
		} else if !c.IsTrue() {
			m.learn(c, true)
		}
		return d.choice
	}
	var feas []int
	binary := len(conds) == 2 && conds[1] == m.Ctx.Not(conds[0])
	for i, c := range conds {
		c = m.simp(c)
		if binary && i == 1 && len(feas) == 0 && !c.IsFalse() {
			// PC is satisfiable and the first alternative is not: the second one is.
			feas = append(feas, i)
			continue
		}
		if c.IsFalse() {
			continue
		}
		if c.IsTrue() {
			feas = append(feas, i)
			continue
		}
		m.Stats.FeasQueries++
		switch m.S.CheckWith(c) {
		case smt.Sat:
			feas = append(feas, i)
		case smt.Unknown:
			m.uncertain = true
			m.Stats.UnknownFeas++
			feas = append(feas, i)
		}
	}
	if len(feas) == 0 {
		panic(abort{kind: abortInfeasible, msg: "no feasible alternative at " + site})
	}
	forced := len(feas) == 1
	if !forced {
		m.Stats.Forks++
		m.Stats.ForkSites[site]++
		for _, j := range feas[1:] {
			alt := make([]decision, len(m.trace)+1)
			copy(alt, m.trace)
			alt[len(m.trace)] = decision{choice: j}
			m.worklist = append(m.worklist, alt)
		}
	}
	d := decision{choice: feas[0], forced: forced}
	m.trace = append(m.trace, d)
	m.prefix = append(m.prefix[:m.pos:m.pos], d) // keep prefix/pos consistent
	m.pos++
	c := m.simp(conds[d.choice])
	if !c.IsTrue() {
		if forced {
			m.learn(c, true)
		} else {
			m.assertPC(c)
		}
	}
	return d.choice
}

// ChooseN is a pure nondeterministic choice among n alternatives (all feasible).
func (m *Machine) ChooseN(n int, site string) int {
	if n <= 1 {
		return 0
	}
	conds := make([]*smt.Term, n)
	for i := range conds {
		conds[i] = m.Ctx.True
	}
	return m.Choose(conds, site)
}

// Fresh returns a fresh variable whose name is deterministic along a path prefix.
func (m *Machine) Fresh(prefix string, s smt.Sort) *smt.Term {
	n, _ := m.Scratch["fresh"].(int)
	m.Scratch["fresh"] = n + 1
	return m.Ctx.Var(fmt.Sprintf("%s!%d", prefix, n), s)
}

// noteAssumption records a modelling assumption that is part of the claim.
func (m *Machine) noteAssumption(s string) {
	if m.assumptions == nil {
		m.assumptions = map[string]bool{}
	}
	m.assumptions[s] = true
}

// Assumptions lists the modelling assumptions used so far.
func (m *Machine) Assumptions() []string {
	var out []string
	for k := range m.assumptions {
		out = append(out, k)
	}
	sort.Strings(out)
	return out
}

func (m *Machine) noteSharedWrite(what string) {
	if m.TrackShared {
		m.sharedWrites = append(m.sharedWrites, what)
	}
}

// MarkShared records that the cell belongs to pre-state shared between calls.
func (m *Machine) MarkShared(p *Value) { m.sharedCells[p] = true }

func (m *Machine) step(fn *ssa.Function) {
	m.steps++
	if m.steps > m.Limits.MaxSteps {
		panic(abort{kind: abortBudget, msg: "step budget exhausted in " + fn.String()})
	}
}

// global returns the address of g, zero-initialising it on first use in a path.
func (m *Machine) global(g *ssa.Global) *Value {
	if p, ok := m.globals[g]; ok {
		return p
	}
	// Package-level variables of the package under test are initialised by running its
	// real initialiser in the engine, once per path, on first use.
	if g.Pkg == m.P.Pkg && !m.initStarted && g.Name() != "init$guard" {
		m.initStarted = true
		if init := m.P.Pkg.Func("init"); init != nil {
			saved := m.depth
			m.call(nil, 0, init, nil)
			m.depth = saved
			// after initialisation, package-level variables are state shared between calls
			for _, cell := range m.globals {
				m.MarkShared(cell)
			}
			m.initDone = true
		}
		if p, ok := m.globals[g]; ok {
			return p
		}
	}
	if init := m.P.GlobalInit; init != nil {
		if v, ok := init(m, g); ok {
			cell := v
			m.globals[g] = &cell
			return &cell
		}
	}
	cell := zero(deref(g.Type()))
	p := &cell
	m.globals[g] = p
	if g.Pkg == m.P.Pkg && m.initDone {
		// a package-level variable without an initialiser (first touched now): shared between calls too
		m.MarkShared(p)
	}
	return p
}

var _ = types.Typ

// Truth exposes truth for harness code running inside a path.
func (m *Machine) Truth(v Value) bool { return m.truth(v, "harness") }

// StringEq exposes string equality for harness code.
func (m *Machine) StringEq(x, y Value) Value { return m.stringEq(x, y) }
