package sx

import (
	"encoding/json"
	"fmt"
	"go/types"
	"math"
	"math/big"
	"os"
	"regexp"
	"strconv"
	"strings"
	"unicode/utf8"

	"verif/engine/smt"
)

// ErrObj is the payload of an opaque error (dynamic type P.ErrT).
type ErrObj struct {
	Msg string
}

func (p *Program) mkErr(msg string) Value {
	return Iface{T: p.ErrT, V: &ErrObj{Msg: msg}}
}

func registerIntrinsics(p *Program) {
	registerReflect(p)
	registerBig(p)
	registerHash(p)
	registerStrings(p)
	registerNative(p)

	stub := func(name string, fn func(m *Machine, fr *frame, args []Value) Value) {
		p.Reg(name, "stub", fn)
	}
	model := func(name string, fn func(m *Machine, fr *frame, args []Value) Value) {
		p.Reg(name, "model", fn)
	}

	// fmt / errors: opaque results; arguments are not inspected (error text is not observable).
	stub("fmt.Errorf", func(m *Machine, fr *frame, args []Value) Value {
		f, _ := args[0].(string)
		return p.mkErr(f)
	})
	stub("errors.New", func(m *Machine, fr *frame, args []Value) Value {
		f, _ := args[0].(string)
		return p.mkErr(f)
	})
	stub("errors.Join", func(m *Machine, fr *frame, args []Value) Value {
		for _, e := range args[0].([]Value) {
			if e.(Iface).T != nil {
				return p.mkErr("joined")
			}
		}
		return Iface{}
	})
	stub("error.Error", func(m *Machine, fr *frame, args []Value) Value {
		return "<error: " + args[0].(*ErrObj).Msg + ">"
	})
	stub("fmt.Sprintf", func(m *Machine, fr *frame, args []Value) Value {
		return m.nativeSprintf(args[0], args[1].([]Value))
	})
	stub("fmt.Sprint", func(m *Machine, fr *frame, args []Value) Value { return "<fmt.Sprint>" })
	stub("fmt.Appendf", func(m *Machine, fr *frame, args []Value) Value {
		s := m.nativeSprintf(args[1], args[2].([]Value))
		b, _ := toBStr(s)
		return append(args[0].([]Value), b.B...)
	})

	// math
	model("math.Modf", func(m *Machine, fr *frame, args []Value) Value {
		switch x := args[0].(type) {
		case float64:
			i, f := math.Modf(x)
			return Tuple{i, f}
		case *SymFloat:
			return Tuple{&SymFloat{}, &SymFloat{FracOf: x}}
		}
		panic("math.Modf: bad arg")
	})
	// truncInt returns trunc(x) as an Int term (x finite with a mantissa decomposition).
	truncInt := func(m *Machine, x *SymFloat) *smt.Term {
		c := m.Ctx
		if x.Cls != nil && m.floatClass(x) != 0 {
			unsupported("rounding of a non-finite float")
		}
		if x.M == nil || x.Esel == nil {
			unsupported("rounding of an opaque float")
		}
		var t *smt.Term
		for i := len(x.Exps) - 1; i >= 0; i-- {
			e := x.Exps[i]
			var ci *smt.Term
			switch {
			case e >= 0:
				ci = c.Mul(c.BigInt(new(big.Int).Lsh(big.NewInt(1), uint(e))), x.M)
			case -e >= 64:
				ci = c.Int(0)
			default:
				d := c.BigInt(new(big.Int).Lsh(big.NewInt(1), uint(-e)))
				ci = c.Ite(c.Le(c.Int(0), x.M), c.IDiv(x.M, d), c.Neg(c.IDiv(c.Neg(x.M), d)))
			}
			if t == nil {
				t = ci
			} else {
				t = c.Ite(c.Eq(x.Esel, c.Int(int64(i))), ci, t)
			}
		}
		return m.simp(t)
	}
	intFloat := func(m *Machine, t *smt.Term) *SymFloat {
		c := m.Ctx
		return &SymFloat{R: c.ToReal(t), M: t, Esel: c.Int(0), Exps: []int{0}, IsInt: c.True}
	}
	round := func(mode string) func(m *Machine, fr *frame, args []Value) Value {
		return func(m *Machine, fr *frame, args []Value) Value {
			switch x := args[0].(type) {
			case float64:
				switch mode {
				case "trunc":
					return math.Trunc(x)
				case "floor":
					return math.Floor(x)
				}
				return math.Ceil(x)
			case *SymFloat:
				c := m.Ctx
				t := truncInt(m, x)
				isInt := x.IsInt
				if isInt == nil {
					isInt = c.Eq(c.ToReal(t), x.R)
				}
				switch mode {
				case "floor":
					t = c.Ite(c.And(c.Lt(x.R, c.RatInt(0)), c.Not(isInt)), c.Sub(t, c.Int(1)), t)
				case "ceil":
					t = c.Ite(c.And(c.Lt(c.RatInt(0), x.R), c.Not(isInt)), c.Add(t, c.Int(1)), t)
				}
				return intFloat(m, m.simp(t))
			}
			panic("math rounding: bad arg")
		}
	}
	model("math.Trunc", round("trunc"))
	model("math.Floor", round("floor"))
	model("math.Ceil", round("ceil"))
	model("math.Abs", func(m *Machine, fr *frame, args []Value) Value {
		switch x := args[0].(type) {
		case float64:
			return math.Abs(x)
		case *SymFloat:
			c := m.Ctx
			if x.Cls != nil {
				switch m.floatClass(x) {
				case 1, 2:
					return math.Inf(1)
				case 3:
					return math.NaN()
				}
			}
			if x.R == nil {
				unsupported("math.Abs of an opaque float")
			}
			out := &SymFloat{R: c.Ite(c.Lt(x.R, c.RatInt(0)), c.Neg(x.R), x.R), Esel: x.Esel, Exps: x.Exps, IsInt: x.IsInt}
			if x.M != nil {
				out.M = c.Ite(c.Lt(x.M, c.Int(0)), c.Neg(x.M), x.M)
			}
			return out
		}
		panic("math.Abs: bad arg")
	})
	model("math.Signbit", func(m *Machine, fr *frame, args []Value) Value {
		switch x := args[0].(type) {
		case float64:
			return math.Signbit(x)
		case *SymFloat:
			c := m.Ctx
			if x.Cls != nil {
				switch m.floatClass(x) {
				case 1:
					return false
				case 2:
					return true
				case 3:
					unsupported("Signbit of NaN")
				}
			}
			nz := x.NegZero
			if nz == nil {
				nz = c.False
			}
			return unTerm(m.simp(c.Or(c.Lt(x.R, c.RatInt(0)), c.And(c.Eq(x.R, c.RatInt(0)), nz))))
		}
		panic("math.Signbit: bad arg")
	})
	model("math.Float64bits", func(m *Machine, fr *frame, args []Value) Value {
		if x, ok := args[0].(float64); ok {
			return math.Float64bits(x)
		}
		x, ok := args[0].(*SymFloat)
		if !ok {
			unsupported("Float64bits of %T", args[0])
		}
		// IEEE bits as an injective uninterpreted function of the value, except that the two
		// zeros have the bit patterns 0 and 2^63 (the only pair of equal floats with different bits)
		if x.Cls != nil {
			switch m.floatClass(x) {
			case 1:
				return math.Float64bits(math.Inf(1))
			case 2:
				return math.Float64bits(math.Inf(-1))
			case 3:
				return math.Float64bits(math.NaN())
			}
		}
		if x.R == nil {
			unsupported("Float64bits of opaque float")
		}
		c := m.Ctx
		fb := c.App("f64bits", smt.SInt, x.R)
		two63 := new(big.Int).Lsh(big.NewInt(1), 63)
		max := new(big.Int).Sub(new(big.Int).Lsh(big.NewInt(1), 64), big.NewInt(1))
		m.Axiom(c.And(c.InRange(fb, big.NewInt(1), max), c.Ne(fb, c.BigInt(two63)), c.Eq(c.App("f64bitsInv", smt.SReal, fb), x.R)))
		nz := x.NegZero
		if nz == nil {
			nz = c.False
		}
		t := c.Ite(c.Eq(x.R, c.RatInt(0)), c.Ite(nz, c.BigInt(two63), c.Int(0)), fb)
		m.DeclareRange(t, big.NewInt(0), max)
		return m.uintVal(t)
	})
	model("math.IsNaN", func(m *Machine, fr *frame, args []Value) Value {
		return m.floatClass(args[0]) == 3
	})
	model("math.IsInf", func(m *Machine, fr *frame, args []Value) Value {
		cls := m.floatClass(args[0])
		sign := asInt64(m.concretize(args[1], "IsInf"))
		return (cls == 1 && sign >= 0) || (cls == 2 && sign <= 0)
	})

	// unicode/utf8
	model("unicode/utf8.RuneCountInString", func(m *Machine, fr *frame, args []Value) Value {
		switch s := args[0].(type) {
		case string:
			return int64(utf8.RuneCountInString(s))
		case *AStr:
			return SymInt{m.StrRunes(s.T)}
		case *BStr:
			c := m.Ctx
			var cs []*smt.Term
			for _, b := range s.B {
				cs = append(cs, c.Lt(m.intTerm(b), c.Int(utf8.RuneSelf)))
			}
			if m.Branch(c.And(cs...), "runecount-ascii") {
				return int64(len(s.B))
			}
			unsupported("RuneCountInString of non-ASCII symbolic bytes")
		}
		panic("RuneCountInString: bad arg")
	})

	// os
	p.Reg(p.Path+".verifOrdersOff", "model", func(m *Machine, fr *frame, args []Value) Value {
		m.AllOrders = false
		return nil
	})
	p.Reg("os.Getenv", "native", func(m *Machine, fr *frame, args []Value) Value {
		k, _ := args[0].(string)
		if v, ok := m.Env[k]; ok {
			return v
		}
		return os.Getenv(k)
	})

	// sync.Map: a per-path engine map flagged synchronised
	syncMap := func(m *Machine, recv Value) *OMap {
		key := recv.(*Value)
		if om, ok := m.Scratch[key].(*OMap); ok {
			return om
		}
		om := NewOMap(p.AnyT())
		m.Scratch[key] = om
		return om
	}
	model("(*sync.Map).Load", func(m *Machine, fr *frame, args []Value) Value {
		v, ok := syncMap(m, args[0]).Get(m, args[1])
		if !ok {
			return Tuple{Iface{}, false}
		}
		return Tuple{v, true}
	})
	// bytes.Compare / bytes.Equal over byte slices that may hold symbolic bytes
	bytesLess := func(m *Machine, a, b []Value, orEqual bool) *smt.Term {
		c := m.Ctx
		n := len(a)
		if len(b) < n {
			n = len(b)
		}
		var tail *smt.Term
		switch {
		case len(a) < len(b):
			tail = c.True
		case len(a) > len(b):
			tail = c.False
		default:
			tail = c.Bool(orEqual)
		}
		for i := n - 1; i >= 0; i-- {
			ai, bi := m.intTerm(a[i]), m.intTerm(b[i])
			tail = c.Or(c.Lt(ai, bi), c.And(c.Eq(ai, bi), tail))
		}
		return m.simp(tail)
	}
	model("bytes.Compare", func(m *Machine, fr *frame, args []Value) Value {
		a, b := args[0].([]Value), args[1].([]Value)
		c := m.Ctx
		lt, le := bytesLess(m, a, b, false), bytesLess(m, a, b, true)
		return m.intVal(c.Ite(lt, c.Int(-1), c.Ite(le, c.Int(0), c.Int(1))))
	})
	model("bytes.Equal", func(m *Machine, fr *frame, args []Value) Value {
		a, b := args[0].([]Value), args[1].([]Value)
		if len(a) != len(b) {
			return false
		}
		c := m.Ctx
		var cs []*smt.Term
		for i := range a {
			cs = append(cs, c.Eq(m.intTerm(a[i]), m.intTerm(b[i])))
		}
		return unTerm(m.simp(c.And(cs...)))
	})

	// encoding/json.Number methods on the text of a symbolic json.Number
	model("(encoding/json.Number).String", func(m *Machine, fr *frame, args []Value) Value { return args[0] })
	model("(encoding/json.Number).Int64", func(m *Machine, fr *frame, args []Value) Value {
		as, ok := args[0].(*AStr)
		if !ok {
			s, _ := args[0].(string)
			v, err := json.Number(s).Int64()
			if err != nil {
				return Tuple{v, p.mkErr(err.Error())}
			}
			return Tuple{v, Iface{}}
		}
		n, ok := m.jnTexts[as.T]
		if !ok {
			unsupported("json.Number.Int64 of an abstract string")
		}
		c := m.Ctx
		ii := intInfos[types.Int64]
		bad := c.False
		if n.JBad != nil {
			bad = n.JBad
		}
		// strconv.ParseInt: plain integer literal within range
		if m.Branch(c.And(c.Not(bad), c.Eq(n.JK, c.Int(0)), c.InRange(n.JN, ii.lo, ii.hi)), "json.Number.Int64 parses") {
			return Tuple{m.intVal(n.JN), Iface{}}
		}
		return Tuple{int64(0), p.mkErr("strconv.ParseInt: invalid syntax or out of range")}
	})
	model("(encoding/json.Number).Float64", func(m *Machine, fr *frame, args []Value) Value {
		as, ok := args[0].(*AStr)
		if !ok {
			s, _ := args[0].(string)
			v, err := json.Number(s).Float64()
			if err != nil {
				return Tuple{v, p.mkErr(err.Error())}
			}
			return Tuple{v, Iface{}}
		}
		n, ok := m.jnTexts[as.T]
		if !ok {
			unsupported("json.Number.Float64 of an abstract string")
		}
		c := m.Ctx
		if n.JBad != nil && m.Branch(n.JBad, "json.Number.Float64 bad") {
			return Tuple{math.Inf(1), p.mkErr("strconv.ParseFloat: value out of range")}
		}
		if k, isConst := m.simp(n.JK).Int64(); isConst && k == 0 {
			return Tuple{m.intToFloat(SymInt{n.JN}, false), Iface{}}
		}
		if m.Branch(c.Eq(n.JK, c.Int(0)), "json.Number.Float64 integral text") {
			return Tuple{m.intToFloat(SymInt{n.JN}, false), Iface{}}
		}
		// a fraction spelling of an integer ("5.00", "9007199254740993.0"): strconv rounds
		// correctly, so the result is the integer converted with round-to-nearest-even
		for k := 1; k <= 3; k++ {
			if !m.Branch(c.Eq(n.JK, c.Int(int64(k))), "json.Number.Float64 decimals") {
				continue
			}
			p10 := c.BigInt(big.NewInt(0).Exp(big.NewInt(10), big.NewInt(int64(k)), nil))
			if m.Branch(c.Eq(c.Mod(n.JN, p10), c.Int(0)), "json.Number.Float64 integral fraction spelling") {
				return Tuple{m.intToFloat(SymInt{c.IDiv(n.JN, p10)}, false), Iface{}}
			}
			break
		}
		unsupported("json.Number.Float64 of a decimal fraction (decimal-to-binary rounding is not modelled)")
		return nil
	})

	// sync.Pool: Get returns an object Put earlier in this execution or a fresh New() (both
	// are explored); an object in the pool outlives the call that put it there.
	type poolState struct{ items []Value }
	poolOf := func(m *Machine, recv Value) *poolState {
		key := recv.(*Value)
		if ps, ok := m.Scratch[key].(*poolState); ok {
			return ps
		}
		ps := &poolState{}
		m.Scratch[key] = ps
		return ps
	}
	model("(*sync.Pool).Get", func(m *Machine, fr *frame, args []Value) Value {
		ps := poolOf(m, args[0])
		if n := len(ps.items); n > 0 && m.ChooseN(2, "sync.Pool.Get reuses") == 0 {
			v := ps.items[n-1]
			ps.items = ps.items[:n-1]
			return v
		}
		st := (*args[0].(*Value)).(Struct)
		idx := FieldIndex(p.ImportedType("sync", "Pool"), "New")
		if idx < 0 {
			unsupported("sync.Pool without field New")
		}
		newFn := st[idx]
		if isNilFunc(newFn) {
			return Iface{}
		}
		return m.Call(newFn)
	})
	model("(*sync.Pool).Put", func(m *Machine, fr *frame, args []Value) Value {
		ps := poolOf(m, args[0])
		ps.items = append(ps.items, args[1])
		return nil
	})

	// slices.Insert: the standard library's body compares addresses (unsafe) to detect
	// overlap; modelled with the documented semantics, including the in-place case
	// that writes into the argument's spare capacity.
	p.RegPrefix("slices.Insert", "model", func(m *Machine, fr *frame, args []Value) Value {
		s := args[0].([]Value)
		i := int(asInt64(m.concretize(args[1], "slices.Insert index")))
		v := args[2].([]Value)
		if i < 0 || i > len(s) {
			panic(targetPanic{v: "runtime error: slice bounds out of range", what: "index"})
		}
		if len(v) == 0 {
			return s
		}
		n, k := len(s), len(v)
		if n+k > cap(s) {
			out := make([]Value, 0, n+k)
			out = append(out, s[:i]...)
			out = append(out, v...)
			return append(out, s[i:]...)
		}
		full := s[:n+k]
		if m.TrackShared && m.sharedCells[&full[n]] {
			m.noteSharedWrite("slices.Insert shifts elements inside a shared slice's backing array")
		}
		vals := append([]Value(nil), v...)
		copy(full[i+k:], s[i:n])
		copy(full[i:], vals)
		return full
	})

	// A value stored into a sync.Map is published to every goroutine: a later write into a
	// map or cell reachable from it is a write to shared memory.
	publish := func(m *Machine, v Value) {
		if i, ok := v.(Iface); ok {
			v = i.V
		}
		switch x := v.(type) {
		case *OMap:
			if x != nil {
				x.Shared = true
			}
		case *Value:
			if x != nil {
				m.MarkShared(x)
			}
		case []Value:
			full := x[:cap(x)]
			for i := range full {
				m.MarkShared(&full[i])
			}
		}
	}
	model("(*sync.Map).Store", func(m *Machine, fr *frame, args []Value) Value {
		syncMap(m, args[0]).Set(m, args[1], args[2])
		publish(m, args[2])
		return nil
	})
	model("(*sync.Map).LoadOrStore", func(m *Machine, fr *frame, args []Value) Value {
		om := syncMap(m, args[0])
		if v, ok := om.Get(m, args[1]); ok {
			return Tuple{v, true}
		}
		om.Set(m, args[1], args[2])
		publish(m, args[2])
		return Tuple{args[2], false}
	})
	model("(*sync.Map).Delete", func(m *Machine, fr *frame, args []Value) Value {
		syncMap(m, args[0]).Delete(m, args[1])
		return nil
	})
	model("(*sync.Map).Clear", func(m *Machine, fr *frame, args []Value) Value {
		syncMap(m, args[0]).entries = nil
		return nil
	})

	// regexp on abstract strings: uninterpreted predicate per compiled pattern
	model("(*regexp.Regexp).MatchString", func(m *Machine, fr *frame, args []Value) Value {
		re := args[0].(*Native).Obj.(*regexp.Regexp)
		switch s := args[1].(type) {
		case string:
			return re.MatchString(s)
		case *AStr:
			return unTerm(m.matchTerm(re, s.T))
		case *BStr:
			unsupported("regexp on symbolic bytes")
		}
		panic("MatchString: bad arg")
	})
	p.Reg("regexp.Compile", "native", func(m *Machine, fr *frame, args []Value) Value {
		s, ok := args[0].(string)
		if !ok {
			unsupported("regexp.Compile of symbolic pattern")
		}
		re, err := regexp.Compile(s)
		if err != nil {
			return Tuple{(*Native)(nil), p.mkErr(err.Error())}
		}
		return Tuple{&Native{Kind: "regexp", Obj: re}, Iface{}}
	})
	p.Reg("regexp.MustCompile", "native", func(m *Machine, fr *frame, args []Value) Value {
		s, ok := args[0].(string)
		if !ok {
			unsupported("regexp.MustCompile of symbolic pattern")
		}
		return &Native{Kind: "regexp", Obj: regexp.MustCompile(s)}
	})

	// maps.clone is implemented in the runtime (linkname); shallow copy.
	model("maps.clone", func(m *Machine, fr *frame, args []Value) Value {
		x := args[0].(Iface)
		om, ok := x.V.(*OMap)
		if !ok {
			unsupported("maps.clone of %T", x.V)
		}
		return Iface{T: x.T, V: om.Clone()}
	})

	// strconv internals reached when strconv.Atoi is interpreted from its real SSA
	p.Reg("strconv.cloneString", "stub", func(m *Machine, fr *frame, args []Value) Value { return args[0] })
	p.Reg("internal/stringslite.Clone", "stub", func(m *Machine, fr *frame, args []Value) Value { return args[0] })
	p.Reg("strconv.Itoa", "native", func(m *Machine, fr *frame, args []Value) Value {
		return strconv.Itoa(int(asInt64(m.concretize(args[0], "Itoa"))))
	})
	p.Reg("strconv.Quote", "native", func(m *Machine, fr *frame, args []Value) Value {
		if s, ok := args[0].(string); ok {
			return strconv.Quote(s)
		}
		return "<quoted>"
	})
	// errors returned by interpreted strconv code are constructed as *NumError; its methods are never called.
}

// Env overrides for os.Getenv (configuration inputs).
func (m *Machine) SetEnv(k, v string) {
	if m.Env == nil {
		m.Env = map[string]string{}
	}
	m.Env[k] = v
}

// RegisterPattern makes re known to the abstract-string model and returns its predicate name.
func (m *Machine) RegisterPattern(re *regexp.Regexp) string {
	src := re.String()
	if m.patterns == nil {
		m.patterns = map[string]*regexp.Regexp{}
	}
	if _, ok := m.patterns[src]; !ok {
		m.patterns[src] = re
		m.patternOrder = append(m.patternOrder, src)
		for _, s := range m.strConstOrder {
			m.AddBase(m.Ctx.Eq(m.rawMatch(src, m.strConsts[s]), m.Ctx.Bool(re.MatchString(s))))
		}
	}
	return src
}

func (m *Machine) rawMatch(src string, t *smt.Term) *smt.Term {
	return m.Ctx.App("match:"+src, smt.SBool, t)
}

func (m *Machine) matchTerm(re *regexp.Regexp, t *smt.Term) *smt.Term {
	src := m.RegisterPattern(re)
	return m.rawMatch(src, t)
}

// MatchTerm is the oracle-side view of the same predicate.
func (m *Machine) MatchTerm(re *regexp.Regexp, t *smt.Term) *smt.Term { return m.matchTerm(re, t) }

// nativeSprintf formats natively when every argument is a concrete basic value.
func (m *Machine) nativeSprintf(format Value, args []Value) Value {
	f, ok := format.(string)
	if !ok {
		return "<fmt>"
	}
	var nat []any
	for _, a := range args {
		n, ok := toNativeSimple(a)
		if !ok {
			return "<fmt:" + f + ">"
		}
		nat = append(nat, n)
	}
	return fmt.Sprintf(f, nat...)
}

func toNativeSimple(v Value) (any, bool) {
	switch v := v.(type) {
	case Iface:
		if v.T == nil {
			return nil, true
		}
		if b, ok := v.T.Underlying().(*types.Basic); ok {
			switch x := v.V.(type) {
			case string:
				return x, true
			case bool:
				return x, true
			case float64:
				return x, true
			case int64:
				if b.Info()&types.IsInteger != 0 {
					return int(x), true
				}
			case uint64:
				return x, true
			}
		}
		return nil, false
	case string:
		return v, true
	case bool:
		return v, true
	case int64:
		return int(v), true
	case uint64:
		return v, true
	case float64:
		return v, true
	}
	return nil, false
}

var _ = big.NewInt
var _ = strings.Contains

// ErrorValue returns an opaque non-nil error value (for harness hooks).
func (p *Program) ErrorValue(msg string) Value { return p.mkErr(msg) }
