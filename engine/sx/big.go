package sx

import (
	"math"
	"math/big"

	"verif/engine/smt"
)

// RatModel is the model state of a *big.Rat: an exact rational as a Real term.
type RatModel struct {
	R *smt.Term // Real value (constant when concrete)
	F *SymFloat // set when the value came from SetFloat64 of a symbolic float
	I *smt.Term // set when the value came from SetInt64/SetUint64 (Int term)
	// IsIntT is the integrality of the value when known as a term.
	IsIntT *smt.Term
}

// BigIntModel is the model state of a *big.Int obtained from Rat.Num / Rat.Denom.
type BigIntModel struct {
	Kind string    // "num" or "den"
	R    *smt.Term // the rational it was taken from
	Rat  *RatModel // the model of that rational (integrality, integer term when known)
}

// BigBytes is the value of (*big.Int).Bytes() on a model integer: an opaque byte
// sequence that is a function of the normalised rational's numerator / denominator.
type BigBytes struct {
	Kind string
	R    *smt.Term
}

func ratOf(m *Machine, v Value) *RatModel {
	p := v.(*Value)
	if p == nil {
		nilDeref("method on nil *big.Rat")
	}
	s := (*p).(Struct)
	if rm, ok := s[0].(*RatModel); ok {
		return rm
	}
	return &RatModel{R: m.Ctx.RatInt(0), I: m.Ctx.Int(0)}
}

func setRat(v Value, rm *RatModel) {
	p := v.(*Value)
	if p == nil {
		nilDeref("method on nil *big.Rat")
	}
	(*p).(Struct)[0] = rm
}

func registerBig(p *Program) {
	reg := func(name string, fn func(m *Machine, fr *frame, args []Value) Value) {
		p.Reg(name, "model", fn)
	}
	reg("(*math/big.Rat).SetInt64", func(m *Machine, fr *frame, args []Value) Value {
		t := m.intTerm(args[1])
		setRat(args[0], &RatModel{R: m.Ctx.ToReal(t), I: t})
		return args[0]
	})
	reg("(*math/big.Rat).SetUint64", func(m *Machine, fr *frame, args []Value) Value {
		t := m.intTerm(args[1])
		setRat(args[0], &RatModel{R: m.Ctx.ToReal(t), I: t})
		return args[0]
	})
	reg("(*math/big.Rat).SetFloat64", func(m *Machine, fr *frame, args []Value) Value {
		switch f := args[1].(type) {
		case float64:
			if math.IsNaN(f) || math.IsInf(f, 0) {
				return (*Value)(nil)
			}
			setRat(args[0], &RatModel{R: m.Ctx.Rat(new(big.Rat).SetFloat64(f))})
			return args[0]
		case *SymFloat:
			if f.Cls != nil && m.floatClass(f) != 0 {
				return (*Value)(nil)
			}
			if f.R == nil {
				unsupported("SetFloat64 of opaque float")
			}
			setRat(args[0], &RatModel{R: f.R, F: f})
			return args[0]
		}
		panic("SetFloat64: bad arg")
	})
	reg("(*math/big.Rat).SetString", func(m *Machine, fr *frame, args []Value) Value {
		switch s := args[1].(type) {
		case string:
			r, ok := new(big.Rat).SetString(s)
			if !ok {
				return Tuple{(*Value)(nil), false}
			}
			setRat(args[0], &RatModel{R: m.Ctx.Rat(r)})
			return Tuple{args[0], true}
		case *AStr:
			if n, ok := m.jnTexts[s.T]; ok {
				if n.JBad != nil && m.Branch(n.JBad, "json.Number-unparseable") {
					return Tuple{(*Value)(nil), false}
				}
				if k, isConst := m.simp(n.JK).Int64(); isConst && k == 0 {
					setRat(args[0], &RatModel{R: m.Ctx.ToReal(n.JN), I: n.JN})
					return Tuple{args[0], true}
				}
				r, isInt := m.jnValue(n)
				setRat(args[0], &RatModel{R: r, IsIntT: isInt})
				return Tuple{args[0], true}
			}
		}
		unsupported("Rat.SetString of symbolic text")
		return nil
	})
	reg("(*math/big.Rat).Cmp", func(m *Machine, fr *frame, args []Value) Value {
		a, b := ratOf(m, args[0]), ratOf(m, args[1])
		c := m.Ctx
		t := c.Ite(c.Lt(a.R, b.R), c.Int(-1), c.Ite(c.Eq(a.R, b.R), c.Int(0), c.Int(1)))
		return m.intVal(t)
	})
	reg("(*math/big.Rat).Sign", func(m *Machine, fr *frame, args []Value) Value {
		a := ratOf(m, args[0])
		c := m.Ctx
		z := c.RatInt(0)
		t := c.Ite(c.Lt(a.R, z), c.Int(-1), c.Ite(c.Eq(a.R, z), c.Int(0), c.Int(1)))
		return m.intVal(t)
	})
	mkInt := func(kind string) func(m *Machine, fr *frame, args []Value) Value {
		return func(m *Machine, fr *frame, args []Value) Value {
			a := ratOf(m, args[0])
			var cell Value = Struct{&BigIntModel{Kind: kind, R: a.R, Rat: a}, []Value(nil)}
			return &cell
		}
	}
	reg("(*math/big.Rat).Num", mkInt("num"))
	reg("(*math/big.Rat).Denom", mkInt("den"))
	reg("(*math/big.Int).Bytes", func(m *Machine, fr *frame, args []Value) Value {
		pv := args[0].(*Value)
		if pv == nil {
			nilDeref("(*big.Int).Bytes")
		}
		bi, ok := (*pv).(Struct)[0].(*BigIntModel)
		if !ok {
			unsupported("(*big.Int).Bytes on non-model integer")
		}
		return []Value{&BigBytes{Kind: bi.Kind, R: bi.R}}
	})
	// numOfIntegral returns the numerator of a rational that is an integer on this path, as an
	// Int term (a fresh integer tied to the real value when no integer term is at hand).
	numOfIntegral := func(m *Machine, args []Value, what string) *smt.Term {
		pv := args[0].(*Value)
		if pv == nil {
			nilDeref(what)
		}
		bi, ok := (*pv).(Struct)[0].(*BigIntModel)
		if !ok || bi.Kind != "num" || bi.Rat == nil {
			unsupported(what + " on a big.Int that is not the numerator of a model rational")
		}
		a := bi.Rat
		c := m.Ctx
		if a.I != nil {
			return a.I
		}
		if a.R.Op == smt.OpConst {
			if !a.R.R.IsInt() {
				unsupported(what + " on the numerator of a non-integral rational")
			}
			return c.BigInt(a.R.R.Num())
		}
		var isInt *smt.Term
		switch {
		case a.F != nil && a.F.IsInt != nil:
			isInt = a.F.IsInt
		case a.IsIntT != nil:
			isInt = a.IsIntT
		}
		if isInt == nil {
			unsupported(what + " on the numerator of a rational of unknown integrality")
		}
		if v, isB := unTerm(m.simp(isInt)).(bool); !isB || !v {
			if !m.Branch(isInt, what+" integral") {
				unsupported(what + " on the numerator of a non-integral rational")
			}
		}
		n := m.Fresh("bignum", smt.SInt)
		m.Assume(c.Eq(c.ToReal(n), a.R))
		return n
	}
	two63 := new(big.Int).Lsh(big.NewInt(1), 63)
	two64 := new(big.Int).Lsh(big.NewInt(1), 64)
	reg("(*math/big.Int).IsInt64", func(m *Machine, fr *frame, args []Value) Value {
		n := numOfIntegral(m, args, "(*big.Int).IsInt64")
		c := m.Ctx
		return unTerm(m.simp(c.And(c.Ge(n, c.BigInt(new(big.Int).Neg(two63))), c.Lt(n, c.BigInt(two63)))))
	})
	reg("(*math/big.Int).IsUint64", func(m *Machine, fr *frame, args []Value) Value {
		n := numOfIntegral(m, args, "(*big.Int).IsUint64")
		c := m.Ctx
		return unTerm(m.simp(c.And(c.Ge(n, c.Int(0)), c.Lt(n, c.BigInt(two64)))))
	})
	reg("(*math/big.Int).Int64", func(m *Machine, fr *frame, args []Value) Value {
		n := numOfIntegral(m, args, "(*big.Int).Int64")
		c := m.Ctx
		// the result is undefined when the value does not fit; the engine follows the
		// implementation (low 64 bits, two's complement)
		w := c.Mod(c.Add(n, c.BigInt(two63)), c.BigInt(two64))
		return m.intVal(c.Sub(w, c.BigInt(two63)))
	})
	reg("(*math/big.Rat).Float64", func(m *Machine, fr *frame, args []Value) Value {
		a := ratOf(m, args[0])
		if a.F != nil {
			return Tuple{a.F, true}
		}
		if a.R.Op == smt.OpConst {
			f, exact := a.R.R.Float64()
			return Tuple{f, exact}
		}
		if a.I != nil {
			return Tuple{m.intToFloat(SymInt{a.I}, false), true}
		}
		unsupported("Rat.Float64 of symbolic non-float rational")
		return nil
	})
	reg("(*math/big.Rat).String", func(m *Machine, fr *frame, args []Value) Value { return "<rat>" })
	reg("(*math/big.Rat).IsInt", func(m *Machine, fr *frame, args []Value) Value {
		a := ratOf(m, args[0])
		if a.R.Op == smt.OpConst {
			return a.R.R.IsInt()
		}
		if a.I != nil {
			return true
		}
		if a.F != nil && a.F.IsInt != nil {
			return unTerm(a.F.IsInt)
		}
		if a.IsIntT != nil {
			return unTerm(m.simp(a.IsIntT))
		}
		unsupported("Rat.IsInt of symbolic rational")
		return nil
	})
}
