package sx

import (
	"fmt"
	"go/types"
	"math/big"
	"regexp"
	"sort"

	"verif/engine/smt"
)

// JSON tags of a symbolic node.
const (
	TagNull = iota
	TagBool
	TagNumber
	TagString
	TagArray
	TagObject
)

var TagNames = []string{"null", "boolean", "number", "string", "array", "object"}

// Numeric representations (Rep when the tag is number).
const (
	RepFloat64 = iota
	RepFloat32
	RepInt
	RepInt8
	RepInt16
	RepInt32
	RepInt64
	RepUint
	RepUint8
	RepUint16
	RepUint32
	RepUint64
	RepUintptr
	RepJSONNumber
	numReps
)

var RepNames = []string{"float64", "float32", "int", "int8", "int16", "int32", "int64", "uint", "uint8", "uint16", "uint32", "uint64", "uintptr", "json.Number"}

// Tmpl fixes the bounds of a symbolic JSON instance.
type Tmpl struct {
	Depth  int      // nodes at depth == Depth are scalars or empty containers
	MaxLen int      // maximum array length
	Keys   []string // object key pool (concrete, sorted)
	// KeysFor, if set, gives individual nodes (by name) their own key pool.
	KeysFor func(nodeName string) ([]string, bool)
	Exps    []int // exponent set for float64 numbers
	// NumReps lists the admissible numeric representations (nil = float64 only).
	NumReps []int
	// ContainerReps enables typed containers, Go arrays, named string / key types (see reps.go).
	ContainerReps bool
	// Wrappers enables one pointer layer around values held in interface slots and at top level.
	Wrappers bool
	// StrT / KeyT are the named string types used for the named-string and named-key representations.
	StrT, KeyT types.Type
	// IntAbsLimit, if set, bounds |value| of integer-kind and json.Number representations.
	IntAbsLimit *big.Int
	// IntExactFloat replaces IntAbsLimit by "the value is exactly a float64": |v| <= 2^53
	// or v is a multiple of 2^11 (every such integer below 2^64 has a 53-bit mantissa).
	IntExactFloat bool
	// NegZero lets a float64/float32 number that is zero carry a set sign bit (-0).
	NegZero bool
	// JNAllowBad lets a json.Number hold a text that math/big cannot parse (hand-built values
	// such as json.Number("abc"), or "1e9999999"): selected by the node's JBad flag.
	JNAllowBad bool
	// NamedKeyMapsOnly (with ContainerReps): objects are map[string]any or map[NamedKey]any, nothing else varies.
	NamedKeyMapsOnly bool
	// TypedPtrElems lets typed containers have the element types *T and [n]any besides T.
	TypedPtrElems bool
	// RootTyped restricts the root to a typed container ([]T, map[string]T with T concrete).
	RootTyped bool
	// JNIntegersOnly restricts json.Number representations to integer texts (JK = 0).
	JNIntegersOnly bool
}

var DefaultExps = []int{-1074, -30, -4, -3, -2, -1, 0, 1, 2, 3, 4, 30, 60, 970}

// Node is a symbolic JSON value. All of its variables are created eagerly for the
// node itself and lazily for its children.
type Node struct {
	Name  string
	Tm    *Tmpl
	Depth int
	m     *Machine

	Tag    *smt.Term // Int in [0,5]
	B      *smt.Term // Bool
	Mant   *smt.Term // Int, |Mant| < 2^53
	Esel   *smt.Term // Int index into Tm.Exps
	IVal   *smt.Term // Int: value when the representation is an integer kind
	JN     *smt.Term // Int: numerator n of a json.Number n/10^JK
	NZ     *smt.Term // Bool: a zero float has its sign bit set (templates with NegZero)
	JBad   *smt.Term // Bool: the json.Number text is not a parseable number (nil = never)
	JK     *smt.Term // Int in [0,3]
	Rep    *smt.Term // Int: numeric representation selector; const 0 = float64
	CRep   *smt.Term // Int: string/array/object typing selector; const 0 = canonical
	Wrap   *smt.Term // Int: pointer layers around the value (0 or 1); const 0 = none
	Parent *Node
	Str    *smt.Term // Str
	Len    *smt.Term // Int in [0, MaxLen] (0 at the depth limit)

	elems   []*Node
	vals    []*Node
	Present []*smt.Term // per pool key

	numReal  *smt.Term
	numIsInt *smt.Term
	fval     *SymFloat
}

var two53 = new(big.Int).Lsh(big.NewInt(1), 53)
var two24 = new(big.Int).Lsh(big.NewInt(1), 24)

// NewNode creates the root of a symbolic instance and registers its invariants as base constraints.
func (m *Machine) NewNode(name string, tm *Tmpl) *Node {
	return m.newNode(name, tm, 0)
}

func (m *Machine) nodeCache() map[string]*Node {
	if m.nodes == nil {
		m.nodes = map[string]*Node{}
	}
	return m.nodes
}

func (m *Machine) newNode(name string, tm *Tmpl, depth int) *Node {
	if n, ok := m.nodeCache()[name]; ok {
		return n
	}
	c := m.Ctx
	if tm.Exps == nil {
		tm.Exps = DefaultExps
	}
	n := &Node{Name: name, Tm: tm, Depth: depth, m: m}
	m.nodes[name] = n
	v := func(suffix string, s smt.Sort) *smt.Term { return c.Var(name+"."+suffix, s) }
	n.Tag = v("tag", smt.SInt)
	m.AddBase(c.InRange(n.Tag, big.NewInt(0), big.NewInt(5)))
	m.DeclareRange(n.Tag, big.NewInt(0), big.NewInt(5))
	n.B = v("b", smt.SBool)
	n.Mant = v("m", smt.SInt)
	lim := new(big.Int).Sub(two53, big.NewInt(1))
	m.AddBase(c.InRange(n.Mant, new(big.Int).Neg(lim), lim))
	m.DeclareRange(n.Mant, new(big.Int).Neg(lim), lim)
	n.Esel = v("e", smt.SInt)
	m.AddBase(c.InRange(n.Esel, big.NewInt(0), big.NewInt(int64(len(tm.Exps)-1))))
	m.DeclareRange(n.Esel, big.NewInt(0), big.NewInt(int64(len(tm.Exps)-1)))
	n.Str = v("s", smt.SStr)
	m.strAxioms(n.Str)
	n.Len = v("len", smt.SInt)
	maxLen := tm.MaxLen
	if depth >= tm.Depth {
		maxLen = 0
	}
	m.AddBase(c.InRange(n.Len, big.NewInt(0), big.NewInt(int64(maxLen))))
	m.DeclareRange(n.Len, big.NewInt(0), big.NewInt(int64(maxLen)))
	for _, k := range n.Keys() {
		p := v("has:"+k, smt.SBool)
		if depth >= tm.Depth {
			m.AddBase(c.Not(p))
		}
		n.Present = append(n.Present, p)
	}
	if len(tm.NumReps) > 0 {
		n.Rep = v("rep", smt.SInt)
		m.repInvariants(n)
	} else {
		n.Rep = c.Int(0)
	}
	if tm.ContainerReps {
		n.CRep = v("crep", smt.SInt)
		m.crepInvariants(n)
		if depth == 0 && tm.RootTyped {
			m.AddBase(n.TypedContainer())
		}
	} else {
		n.CRep = c.Int(0)
	}
	if tm.Wrappers {
		n.Wrap = v("wrap", smt.SInt)
		m.AddBase(c.InRange(n.Wrap, big.NewInt(0), big.NewInt(1)))
		m.DeclareRange(n.Wrap, big.NewInt(0), big.NewInt(1))
	} else {
		n.Wrap = c.Int(0)
	}
	return n
}

// Elem returns the i-th array element node (i < Tm.MaxLen).
func (n *Node) Elem(i int) *Node {
	for len(n.elems) <= i {
		n.elems = append(n.elems, nil)
	}
	if n.elems[i] == nil {
		n.elems[i] = n.m.newNode(fmt.Sprintf("%s[%d]", n.Name, i), n.Tm, n.Depth+1)
		n.elems[i].Parent = n
		if i > 0 {
			n.Elem(0)
		}
		n.m.childRepInvariants(n, n.elems[i], n.elems[0], TagArray)
	}
	return n.elems[i]
}

// Val returns the value node for pool key index k.
func (n *Node) Val(k int) *Node {
	for len(n.vals) <= k {
		n.vals = append(n.vals, nil)
	}
	if n.vals[k] == nil {
		n.vals[k] = n.m.newNode(fmt.Sprintf("%s{%s}", n.Name, n.Keys()[k]), n.Tm, n.Depth+1)
		n.vals[k].Parent = n
		if k > 0 {
			n.Val(0)
		}
		n.m.childRepInvariants(n, n.vals[k], n.vals[0], TagObject)
	}
	return n.vals[k]
}

// Keys returns the object-key pool of this node (a per-node pool if the template defines one).
func (n *Node) Keys() []string {
	if n.Tm.KeysFor != nil {
		if ks, ok := n.Tm.KeysFor(n.Name); ok {
			return ks
		}
	}
	return n.Tm.Keys
}

// KeyIndex returns the pool index of key or -1.
func (n *Node) KeyIndex(key string) int {
	for i, k := range n.Keys() {
		if k == key {
			return i
		}
	}
	return -1
}

// MaxLen returns the maximum array length of this node under the template.
func (n *Node) MaxLen() int {
	if n.Depth >= n.Tm.Depth {
		return 0
	}
	return n.Tm.MaxLen
}

// CanHaveChildren reports whether containers at this node may be non-empty.
func (n *Node) CanHaveChildren() bool { return n.Depth < n.Tm.Depth }

// TagIs returns the term tag == t.
func (n *Node) TagIs(t int) *smt.Term { return n.m.Ctx.Eq(n.Tag, n.m.Ctx.Int(int64(t))) }

// Float returns the float64 view (Mant * 2^Exps[Esel]) of the node's number.
func (n *Node) Float() *SymFloat {
	if n.fval != nil {
		return n.fval
	}
	c := n.m.Ctx
	exps := n.Tm.Exps
	var r, isInt *smt.Term
	for i := len(exps) - 1; i >= 0; i-- {
		e := exps[i]
		var scale *big.Rat
		if e >= 0 {
			scale = new(big.Rat).SetInt(new(big.Int).Lsh(big.NewInt(1), uint(e)))
		} else {
			scale = new(big.Rat).SetFrac(big.NewInt(1), new(big.Int).Lsh(big.NewInt(1), uint(-e)))
		}
		val := c.Mul(c.Rat(scale), c.ToReal(n.Mant))
		var ii *smt.Term
		if e >= 0 {
			ii = c.True
		} else if -e >= 53 {
			ii = c.Eq(n.Mant, c.Int(0))
		} else {
			ii = c.Eq(c.Mod(n.Mant, c.BigInt(new(big.Int).Lsh(big.NewInt(1), uint(-e)))), c.Int(0))
		}
		if r == nil {
			r, isInt = val, ii
		} else {
			cond := c.Eq(n.Esel, c.Int(int64(i)))
			r = c.Ite(cond, val, r)
			isInt = c.Ite(cond, ii, isInt)
		}
	}
	n.fval = &SymFloat{R: r, M: n.Mant, Esel: n.Esel, Exps: exps, IsInt: isInt}
	if n.Tm.NegZero {
		if n.NZ == nil {
			n.NZ = c.Var(n.Name+".negzero", smt.SBool)
		}
		n.fval.NegZero = n.NZ
	}
	return n.fval
}

// NumReal returns the mathematical value of the node's number (whatever its representation).
func (n *Node) NumReal() *smt.Term {
	if n.numReal == nil {
		n.numReal, n.numIsInt = n.m.numValue(n)
	}
	return n.numReal
}

// NumIsInt returns the term "the node's number is an integer".
func (n *Node) NumIsInt() *smt.Term {
	n.NumReal()
	return n.numIsInt
}

// CountPresent returns the number of present properties as an Int term.
func (n *Node) CountPresent() *smt.Term {
	c := n.m.Ctx
	var ts []*smt.Term
	for _, p := range n.Present {
		ts = append(ts, c.Ite(p, c.Int(1), c.Int(0)))
	}
	if len(ts) == 0 {
		return c.Int(0)
	}
	r := c.Add(ts...)
	n.m.DeclareRange(r, big.NewInt(0), big.NewInt(int64(len(ts))))
	return r
}

// ---- abstract strings

// StrConst returns the Str constant for a concrete Go string, with its attributes as base constraints.
func (m *Machine) StrConst(s string) *smt.Term {
	if m.strConsts == nil {
		m.strConsts = map[string]*smt.Term{}
	}
	if t, ok := m.strConsts[s]; ok {
		return t
	}
	c := m.Ctx
	t := c.Var(fmt.Sprintf("str!%q", s), smt.SStr)
	// distinct from all other constants
	for _, o := range m.strConstOrder {
		m.AddBase(c.Ne(t, m.strConsts[o]))
	}
	m.strConsts[s] = t
	m.strConstOrder = append(m.strConstOrder, s)
	m.AddBase(c.Eq(m.rawRunes(t), c.Int(int64(runeCount(s)))))
	m.AddBase(c.Eq(m.rawBytes(t), c.Int(int64(len(s)))))
	// every known pattern is decided natively on constants
	for _, p := range m.patternOrder {
		m.AddBase(c.Eq(m.rawMatch(p, t), c.Bool(m.patterns[p].MatchString(s))))
	}
	return t
}

func runeCount(s string) int {
	n := 0
	for range s {
		n++
	}
	return n
}

func (m *Machine) rawRunes(t *smt.Term) *smt.Term { return m.Ctx.App("runes", smt.SInt, t) }
func (m *Machine) rawBytes(t *smt.Term) *smt.Term { return m.Ctx.App("bytes", smt.SInt, t) }

// strAxioms adds the attribute axioms for a string variable.
func (m *Machine) strAxioms(t *smt.Term) {
	c := m.Ctx
	r, b := m.rawRunes(t), m.rawBytes(t)
	big31 := big.NewInt(1 << 31)
	m.DeclareRange(r, big.NewInt(0), big31)
	m.DeclareRange(b, big.NewInt(0), big31)
	m.AddBase(c.Le(c.Int(0), r))
	m.AddBase(c.Le(r, b))
	m.AddBase(c.Le(b, c.Mul(c.Int(4), r)))
	m.AddBase(c.Le(b, c.BigInt(big31)))
	// the empty string is unique
	m.AddBase(c.Eq(c.Eq(r, c.Int(0)), c.Eq(t, m.StrConst(""))))
}

// StrRunes returns the code-point count of an abstract string.
func (m *Machine) StrRunes(t *smt.Term) *smt.Term { return m.rawRunes(t) }

// StrBytes returns the byte length of an abstract string.
func (m *Machine) StrBytes(t *smt.Term) *smt.Term { return m.rawBytes(t) }

// strTerm returns the Str term of a string value (constant or abstract).
func (m *Machine) strTerm(v Value) *smt.Term {
	switch v := v.(type) {
	case string:
		return m.StrConst(v)
	case *AStr:
		return v.T
	}
	unsupported("abstract view of %T", v)
	return nil
}

// ---- accessors for harnesses

// Nodes returns every node created so far, sorted by name.
func (m *Machine) Nodes() []*Node {
	var names []string
	for k := range m.nodes {
		names = append(names, k)
	}
	sort.Strings(names)
	out := make([]*Node, len(names))
	for i, k := range names {
		out[i] = m.nodes[k]
	}
	return out
}

// PatternSources lists the registered regular expressions.
func (m *Machine) PatternSources() []string { return m.patternOrder }

// Pattern returns the compiled regexp for a registered source.
func (m *Machine) Pattern(src string) *regexp.Regexp { return m.patterns[src] }

// StrConstTerms returns the Str constants in creation order.
func (m *Machine) StrConstTerms() []*smt.Term {
	var out []*smt.Term
	for _, s := range m.strConstOrder {
		out = append(out, m.strConsts[s])
	}
	return out
}

// StrConstMap returns string -> Str constant.
func (m *Machine) StrConstMap() map[string]*smt.Term { return m.strConsts }

// ExtraModelTerms lists additional terms harnesses want in models.
func (m *Machine) ExtraModelTerms() []*smt.Term { return m.extraModel }

// WantInModel registers t to be included in models.
func (m *Machine) WantInModel(t *smt.Term) { m.extraModel = append(m.extraModel, t) }

// JNTexts returns the json.Number text variables created so far.
func (m *Machine) JNTexts() map[*smt.Term]*Node { return m.jnTexts }

// NoBadJSONNumber returns the term "no json.Number of the instance is in the unparseable
// state" (true for templates without JNAllowBad).
func (m *Machine) NoBadJSONNumber() *smt.Term {
	c := m.Ctx
	var cs []*smt.Term
	names := make([]string, 0, len(m.nodes))
	for name := range m.nodes {
		names = append(names, name)
	}
	sort.Strings(names)
	for _, name := range names {
		if n := m.nodes[name]; n.JBad != nil {
			cs = append(cs, c.Not(n.JBad))
		}
	}
	return c.And(cs...)
}
