package sx

import (
	"math/big"

	"verif/engine/smt"
)

// HashModel is the state of a maphash.Hash: the hash so far as an Int term built from
// a symbolic seed by a chain of uninterpreted mixing functions, one application per
// token written. Equal token sequences hash equal by congruence; everything else
// (collisions included) is left to the solver.
type HashModel struct {
	H     *smt.Term
	Seed0 *smt.Term // the state right after SetSeed (for Reset)
}

// tokU64 marks a buffer filled by binary.BigEndian.PutUint64 with the value T.
type tokU64 struct {
	T    *smt.Term
	Byte *smt.Term // the most significant byte, for code that reads the buffer byte by byte
}
type tokPad struct{ Byte *smt.Term }

var two64m1 = new(big.Int).Sub(new(big.Int).Lsh(big.NewInt(1), 64), big.NewInt(1))

func hashOf(m *Machine, v Value) *HashModel {
	p := v.(*Value)
	if p == nil {
		nilDeref("method on nil *maphash.Hash")
	}
	s := (*p).(Struct)
	if hm, ok := s[0].(*HashModel); ok {
		return hm
	}
	hm := &HashModel{H: m.Ctx.Var("hash.zeroseed", smt.SInt)}
	hm.Seed0 = hm.H
	s[0] = hm
	return hm
}

// noteHashWrite reports a state change of a hasher that lives in shared pre-state (two
// concurrent calls would interleave their writes into it).
func noteHashWrite(m *Machine, v Value) {
	if p, ok := v.(*Value); ok && p != nil && m.TrackShared && m.sharedCells[p] {
		m.noteSharedWrite("write into a shared maphash.Hash")
	}
}

func (m *Machine) mix(fn string, h *smt.Term, tok *smt.Term) *smt.Term {
	r := m.Ctx.App(fn, smt.SInt, h, tok)
	m.DeclareRange(r, big.NewInt(0), two64m1)
	return r
}

func registerHash(p *Program) {
	reg := func(name string, fn func(m *Machine, fr *frame, args []Value) Value) {
		p.Reg(name, "model", fn)
	}
	reg("hash/maphash.MakeSeed", func(m *Machine, fr *frame, args []Value) Value {
		s := m.Fresh("seed", smt.SInt)
		m.DeclareRange(s, big.NewInt(0), two64m1)
		return Struct{SymInt{s}}
	})
	reg("(*hash/maphash.Hash).SetSeed", func(m *Machine, fr *frame, args []Value) Value {
		noteHashWrite(m, args[0])
		pv := args[0].(*Value)
		if pv == nil {
			nilDeref("SetSeed")
		}
		seed := args[1].(Struct)[0]
		(*pv).(Struct)[0] = &HashModel{H: m.intTerm(seed), Seed0: m.intTerm(seed)}
		return nil
	})
	writeToks := func(m *Machine, hm *HashModel, bs []Value) {
		for _, b := range bs {
			switch b := b.(type) {
			case tokU64:
				hm.H = m.mix("mixU64", hm.H, b.T)
			case tokPad:
			case *BigBytes:
				hm.H = m.Ctx.App("mix"+b.Kind, smt.SInt, hm.H, b.R)
				m.DeclareRange(hm.H, big.NewInt(0), two64m1)
			default:
				hm.H = m.mix("mixByte", hm.H, m.intTerm(b))
			}
		}
	}
	reg("(*hash/maphash.Hash).Write", func(m *Machine, fr *frame, args []Value) Value {
		noteHashWrite(m, args[0])
		hm := hashOf(m, args[0])
		bs := args[1].([]Value)
		writeToks(m, hm, bs)
		return Tuple{int64(len(bs)), Iface{}}
	})
	reg("(*hash/maphash.Hash).WriteByte", func(m *Machine, fr *frame, args []Value) Value {
		noteHashWrite(m, args[0])
		hm := hashOf(m, args[0])
		hm.H = m.mix("mixByte", hm.H, m.intTerm(args[1]))
		return Iface{}
	})
	reg("(*hash/maphash.Hash).WriteString", func(m *Machine, fr *frame, args []Value) Value {
		noteHashWrite(m, args[0])
		hm := hashOf(m, args[0])
		switch s := args[1].(type) {
		case string, *AStr:
			hm.H = m.Ctx.App("mixStr", smt.SInt, hm.H, m.strTerm(s))
			m.DeclareRange(hm.H, big.NewInt(0), two64m1)
			return Tuple{m.strLen(s), Iface{}}
		case *BStr:
			writeToks(m, hm, s.B)
			return Tuple{int64(len(s.B)), Iface{}}
		}
		panic("WriteString: bad arg")
	})
	reg("(*hash/maphash.Hash).Reset", func(m *Machine, fr *frame, args []Value) Value {
		noteHashWrite(m, args[0])
		pv := args[0].(*Value)
		if pv == nil {
			nilDeref("Reset")
		}
		// back to the state right after SetSeed: the model keeps the seed in Seed0
		if hm, ok := (*pv).(Struct)[0].(*HashModel); ok && hm.Seed0 != nil {
			hm.H = hm.Seed0
		}
		return nil
	})
	reg("(*hash/maphash.Hash).Sum64", func(m *Machine, fr *frame, args []Value) Value {
		return SymInt{hashOf(m, args[0]).H}
	})
	reg("(encoding/binary.bigEndian).PutUint64", func(m *Machine, fr *frame, args []Value) Value {
		buf := args[1].([]Value)
		if len(buf) < 8 {
			panic(targetPanic{v: "index out of range in PutUint64", what: "index"})
		}
		t := m.intTerm(args[2])
		c := m.Ctx
		byteAt := func(i int) *smt.Term {
			sh := new(big.Int).Lsh(big.NewInt(1), uint(8*(7-i)))
			return c.Mod(c.IDiv(t, c.BigInt(sh)), c.Int(256))
		}
		buf[0] = tokU64{T: t, Byte: byteAt(0)}
		for i := 1; i < 8; i++ {
			buf[i] = tokPad{Byte: byteAt(i)}
		}
		return nil
	})
}
