package sx

import (
	"encoding/json"
	"go/types"
	"math/big"
	"net/url"
	"reflect"

	"verif/engine/smt"
)

// bytesOf returns the concrete bytes of a []byte engine value.
func bytesOf(v Value) ([]byte, bool) {
	s, ok := v.([]Value)
	if !ok {
		return nil, false
	}
	out := make([]byte, len(s))
	for i, b := range s {
		c, ok := b.(uint64)
		if !ok {
			return nil, false
		}
		out[i] = byte(c)
	}
	return out, true
}

func bytesToEngine(b []byte) []Value {
	out := make([]Value, len(b))
	for i, c := range b {
		out[i] = uint64(c)
	}
	return out
}

// urlFromEngine converts an engine net/url.URL struct to a native one.
func urlFromEngine(s Struct) *url.URL {
	u := &url.URL{}
	rv := reflect.ValueOf(u).Elem()
	for i := 0; i < rv.NumField(); i++ {
		f := rv.Field(i)
		switch f.Kind() {
		case reflect.String:
			str, ok := s[i].(string)
			if !ok {
				unsupported("symbolic URL component")
			}
			f.SetString(str)
		case reflect.Bool:
			f.SetBool(s[i].(bool))
		case reflect.Pointer:
			if p, ok := s[i].(*Value); ok && p != nil {
				unsupported("URL with user info")
			}
		}
	}
	return u
}

func (p *Program) urlToEngine(u *url.URL) Value {
	if u == nil {
		return (*Value)(nil)
	}
	if u.User != nil {
		unsupported("URL with user info")
	}
	rv := reflect.ValueOf(u).Elem()
	s := make(Struct, rv.NumField())
	for i := range s {
		f := rv.Field(i)
		switch f.Kind() {
		case reflect.String:
			s[i] = f.String()
		case reflect.Bool:
			s[i] = f.Bool()
		default:
			s[i] = (*Value)(nil)
		}
	}
	var cell Value = s
	return &cell
}

func urlArg(v Value) *url.URL {
	p := v.(*Value)
	if p == nil {
		nilDeref("method on nil *url.URL")
	}
	return urlFromEngine((*p).(Struct))
}

func registerNative(p *Program) {
	nat := func(name string, fn func(m *Machine, fr *frame, args []Value) Value) {
		p.Reg(name, "native", fn)
	}
	nat("net/url.Parse", func(m *Machine, fr *frame, args []Value) Value {
		s, ok := args[0].(string)
		if !ok {
			return m.urlParseSym(args[0])
		}
		u, err := url.Parse(s)
		if err != nil {
			return Tuple{(*Value)(nil), p.mkErr(err.Error())}
		}
		return Tuple{p.urlToEngine(u), Iface{}}
	})
	nat("(*net/url.URL).ResolveReference", func(m *Machine, fr *frame, args []Value) Value {
		return p.urlToEngine(urlArg(args[0]).ResolveReference(urlArg(args[1])))
	})
	nat("(*net/url.URL).String", func(m *Machine, fr *frame, args []Value) Value {
		return urlArg(args[0]).String()
	})
	nat("(*net/url.URL).IsAbs", func(m *Machine, fr *frame, args []Value) Value {
		return urlArg(args[0]).IsAbs()
	})

	// encoding/json on concrete data, into *any
	nat("encoding/json.Unmarshal", func(m *Machine, fr *frame, args []Value) Value {
		if hook := m.JSONUnmarshalHook; hook != nil {
			if r, ok := hook(m, args); ok {
				return r
			}
		}
		data, ok := bytesOf(args[0])
		if !ok {
			unsupported("json.Unmarshal of symbolic bytes")
		}
		dst := args[1].(Iface)
		pt, ok := dst.T.Underlying().(*types.Pointer)
		if !ok || dst.V.(*Value) == nil {
			return p.mkErr("json: Unmarshal(non-pointer)")
		}
		cell := dst.V.(*Value)
		switch et := pt.Elem().Underlying().(type) {
		case *types.Interface:
			if et.NumMethods() == 0 {
				var x any
				if err := json.Unmarshal(data, &x); err != nil {
					return p.mkErr(err.Error())
				}
				*cell = p.ImportJSON(x)
				return Iface{}
			}
		case *types.Basic:
			rt := nativeBasic(et)
			if rt != nil {
				x := reflect.New(rt)
				if err := json.Unmarshal(data, x.Interface()); err != nil {
					return p.mkErr(err.Error())
				}
				im := &Importer{P: p}
				*cell = im.Import(x.Elem(), et)
				return Iface{}
			}
		}
		unsupported("json.Unmarshal into %s", pt.Elem())
		return nil
	})
	nat("encoding/json.Marshal", func(m *Machine, fr *frame, args []Value) Value {
		if hook := m.JSONMarshalHook; hook != nil {
			if r, ok := hook(m, args); ok {
				return r
			}
		}
		x := args[0].(Iface)
		if s, ok := x.V.(string); ok && x.T != nil {
			if b, ok := x.T.Underlying().(*types.Basic); ok && b.Kind() == types.String {
				out, _ := json.Marshal(s)
				return Tuple{bytesToEngine(out), Iface{}}
			}
		}
		if bs, ok := x.V.(*BStr); ok {
			// a string of plain ASCII letters and digits encodes as itself between quotes
			c := m.Ctx
			var cs []*smt.Term
			for _, b := range bs.B {
				t := m.intTerm(b)
				cs = append(cs, c.Or(c.InRange(t, big.NewInt('a'), big.NewInt('z')), c.InRange(t, big.NewInt('A'), big.NewInt('Z')), c.InRange(t, big.NewInt('0'), big.NewInt('9'))))
			}
			if m.Branch(c.And(cs...), "json.Marshal-plain-string") {
				out := []Value{uint64('"')}
				out = append(out, bs.B...)
				out = append(out, uint64('"'))
				return Tuple{out, Iface{}}
			}
		}
		unsupported("json.Marshal of %v", x.T)
		return nil
	})
	nat("(encoding/json.Number).String", func(m *Machine, fr *frame, args []Value) Value {
		return args[0]
	})
}

func nativeBasic(b *types.Basic) reflect.Type {
	switch b.Kind() {
	case types.Bool:
		return reflect.TypeOf(false)
	case types.Int:
		return reflect.TypeOf(int(0))
	case types.Int64:
		return reflect.TypeOf(int64(0))
	case types.Float64:
		return reflect.TypeOf(float64(0))
	case types.String:
		return reflect.TypeOf("")
	}
	return nil
}

// urlParseSym handles url.Parse of a symbolic string; provided for fragment-only kernels.
func (m *Machine) urlParseSym(s Value) Value {
	unsupported("url.Parse of symbolic string")
	return nil
}
