package sx

import (
	"fmt"
	"go/token"
	"go/types"
	"os"
	"runtime"
	"slices"
	"strings"

	"golang.org/x/tools/go/ssa"

	"verif/engine/smt"
)

type continuation int

const (
	kNext continuation = iota
	kReturn
	kJump
)

type deferred struct {
	fn    Value
	args  []Value
	instr *ssa.Defer
	tail  *deferred
}

type frame struct {
	m                *Machine
	caller           *frame
	fn               *ssa.Function
	block, prevBlock *ssa.BasicBlock
	env              map[ssa.Value]Value
	locals           []Value
	defers           *deferred
	result           Value
	panicking        bool
	panic            interface{}
	phitemps         []Value
}

func (fr *frame) get(key ssa.Value) Value {
	switch key := key.(type) {
	case nil:
		return nil
	case *ssa.Function, *ssa.Builtin:
		return key
	case *ssa.Const:
		return constValue(key)
	case *ssa.Global:
		return fr.m.global(key)
	}
	if r, ok := fr.env[key]; ok {
		return r
	}
	panic(fmt.Sprintf("get: no value for %T: %v", key, key.Name()))
}

func (fr *frame) runDefer(d *deferred) {
	var ok bool
	defer func() {
		if !ok {
			r := recover()
			if a, isAbort := r.(abort); isAbort {
				panic(a)
			}
			fr.panicking = true
			fr.panic = r
		}
	}()
	fr.m.call(fr, d.instr.Pos(), d.fn, d.args)
	ok = true
}

func (fr *frame) runDefers() {
	for d := fr.defers; d != nil; d = d.tail {
		fr.runDefer(d)
	}
	fr.defers = nil
	if fr.panicking {
		panic(fr.panic)
	}
}

func nilDeref(what string) {
	panic(targetPanic{v: "invalid memory address or nil pointer dereference (" + what + ")", what: "nil-deref"})
}

func (m *Machine) visitInstr(fr *frame, instr ssa.Instruction) continuation {
	switch instr := instr.(type) {
	case *ssa.DebugRef:
		// no-op

	case *ssa.UnOp:
		fr.env[instr] = m.unop(instr, fr.get(instr.X))

	case *ssa.BinOp:
		fr.env[instr] = m.binop(instr.Op, instr.X.Type(), fr.get(instr.X), fr.get(instr.Y))

	case *ssa.Call:
		fn, args := m.prepareCall(fr, &instr.Call)
		fr.env[instr] = m.call(fr, instr.Pos(), fn, args)

	case *ssa.ChangeInterface:
		fr.env[instr] = fr.get(instr.X)

	case *ssa.ChangeType:
		fr.env[instr] = fr.get(instr.X)

	case *ssa.Convert:
		fr.env[instr] = m.conv(instr.Type(), instr.X.Type(), fr.get(instr.X))

	case *ssa.SliceToArrayPointer:
		unsupported("SliceToArrayPointer")

	case *ssa.MakeInterface:
		fr.env[instr] = Iface{T: instr.X.Type(), V: fr.get(instr.X)}

	case *ssa.Extract:
		fr.env[instr] = fr.get(instr.Tuple).(Tuple)[instr.Index]

	case *ssa.Slice:
		fr.env[instr] = m.slice(instr, fr.get(instr.X), fr.get(instr.Low), fr.get(instr.High), fr.get(instr.Max))

	case *ssa.Return:
		switch len(instr.Results) {
		case 0:
		case 1:
			fr.result = fr.get(instr.Results[0])
		default:
			var res []Value
			for _, r := range instr.Results {
				res = append(res, fr.get(r))
			}
			fr.result = Tuple(res)
		}
		fr.block = nil
		return kReturn

	case *ssa.RunDefers:
		fr.runDefers()

	case *ssa.Panic:
		panic(targetPanic{v: fr.get(instr.X), what: "explicit"})

	case *ssa.Send:
		unsupported("channel send")

	case *ssa.Store:
		addr := fr.get(instr.Addr).(*Value)
		if addr == nil {
			nilDeref("store")
		}
		m.store(deref(instr.Addr.Type()), addr, fr.get(instr.Val))

	case *ssa.If:
		succ := 1
		if m.truth(fr.get(instr.Cond), siteOf(fr, instr)) {
			succ = 0
		}
		fr.prevBlock, fr.block = fr.block, fr.block.Succs[succ]
		return kJump

	case *ssa.Jump:
		fr.prevBlock, fr.block = fr.block, fr.block.Succs[0]
		return kJump

	case *ssa.Defer:
		fn, args := m.prepareCall(fr, &instr.Call)
		defers := &fr.defers
		if into := fr.get(instr.DeferStack); into != nil {
			defers = into.(**deferred)
		}
		*defers = &deferred{fn: fn, args: args, instr: instr, tail: *defers}

	case *ssa.Go:
		unsupported("go statement")

	case *ssa.MakeChan:
		unsupported("make(chan)")

	case *ssa.Alloc:
		var addr *Value
		if instr.Heap {
			addr = new(Value)
			fr.env[instr] = addr
		} else {
			addr = fr.env[instr].(*Value)
		}
		*addr = zero(deref(instr.Type()))

	case *ssa.MakeSlice:
		c := asInt64(m.concretize(fr.get(instr.Cap), "makeslice-cap"))
		l := asInt64(m.concretize(fr.get(instr.Len), "makeslice-len"))
		if l < 0 || c < l || c > 1<<20 {
			panic(targetPanic{v: "makeslice: len out of range", what: "makeslice"})
		}
		s := make([]Value, c)
		tElt := instr.Type().Underlying().(*types.Slice).Elem()
		for i := range s {
			s[i] = zero(tElt)
		}
		fr.env[instr] = s[:l]

	case *ssa.MakeMap:
		fr.env[instr] = NewOMap(instr.Type().Underlying().(*types.Map).Key())

	case *ssa.Range:
		fr.env[instr] = m.rangeIter(fr.get(instr.X), instr.X.Type())

	case *ssa.Next:
		fr.env[instr] = fr.get(instr.Iter).(iter).next()

	case *ssa.FieldAddr:
		p := fr.get(instr.X).(*Value)
		if p == nil {
			nilDeref("field " + fieldName(instr.X.Type(), instr.Field))
		}
		fr.env[instr] = &(*p).(Struct)[instr.Field]

	case *ssa.Field:
		fr.env[instr] = fr.get(instr.X).(Struct)[instr.Field]

	case *ssa.IndexAddr:
		x := fr.get(instr.X)
		switch x := x.(type) {
		case []Value:
			i := m.index(fr.get(instr.Index), len(x), siteOf(fr, instr))
			fr.env[instr] = &x[i]
		case *Value: // *array
			if x == nil {
				nilDeref("index of nil array pointer")
			}
			a := (*x).(Array)
			i := m.index(fr.get(instr.Index), len(a), siteOf(fr, instr))
			fr.env[instr] = &a[i]
		default:
			panic(fmt.Sprintf("unexpected x type in IndexAddr: %T", x))
		}

	case *ssa.Index:
		x := fr.get(instr.X)
		switch x := x.(type) {
		case Array:
			i := m.index(fr.get(instr.Index), len(x), siteOf(fr, instr))
			fr.env[instr] = x[i]
		default:
			fr.env[instr] = m.stringIndex(x, fr.get(instr.Index), siteOf(fr, instr))
		}

	case *ssa.Lookup:
		fr.env[instr] = m.lookup(instr, fr.get(instr.X), fr.get(instr.Index), siteOf(fr, instr))

	case *ssa.MapUpdate:
		mp := fr.get(instr.Map).(*OMap)
		mp.Set(m, fr.get(instr.Key), fr.get(instr.Value))

	case *ssa.TypeAssert:
		fr.env[instr] = m.typeAssert(instr, fr.get(instr.X).(Iface))

	case *ssa.MakeClosure:
		var bindings []Value
		for _, binding := range instr.Bindings {
			bindings = append(bindings, fr.get(binding))
		}
		fr.env[instr] = &Closure{instr.Fn.(*ssa.Function), bindings}

	case *ssa.Phi:
		panic("unreachable: phi")

	case *ssa.Select:
		unsupported("select")

	default:
		panic(fmt.Sprintf("unexpected instruction: %T", instr))
	}
	return kNext
}

func fieldName(t types.Type, i int) string {
	if p, ok := t.Underlying().(*types.Pointer); ok {
		if s, ok := p.Elem().Underlying().(*types.Struct); ok && i < s.NumFields() {
			return s.Field(i).Name()
		}
	}
	return fmt.Sprint(i)
}

func siteOf(fr *frame, instr ssa.Instruction) string {
	pos := fr.fn.Prog.Fset.Position(instr.Pos())
	if !pos.IsValid() {
		return fr.fn.Name()
	}
	f := pos.Filename
	if i := strings.LastIndex(f, "/"); i >= 0 {
		f = f[i+1:]
	}
	return fmt.Sprintf("%s:%d", f, pos.Line)
}

func (m *Machine) store(T types.Type, addr *Value, v Value) {
	if m.TrackShared && m.sharedCells[addr] {
		m.noteSharedWrite("store to shared cell of type " + T.String())
	}
	switch T := T.Underlying().(type) {
	case *types.Struct:
		lhs := (*addr).(Struct)
		rhs := v.(Struct)
		for i := range lhs {
			m.store(T.Field(i).Type(), &lhs[i], rhs[i])
		}
	case *types.Array:
		lhs := (*addr).(Array)
		rhs := v.(Array)
		for i := range lhs {
			m.store(T.Elem(), &lhs[i], rhs[i])
		}
	default:
		*addr = v
	}
}

func (m *Machine) prepareCall(fr *frame, call *ssa.CallCommon) (fn Value, args []Value) {
	v := fr.get(call.Value)
	if call.Method == nil {
		fn = v
	} else {
		recv := v.(Iface)
		if recv.T == nil {
			nilDeref("method " + call.Method.Name() + " on nil interface")
		}
		fn = m.lookupMethod(recv.T, call.Method)
		args = append(args, recv.V)
	}
	for _, arg := range call.Args {
		args = append(args, fr.get(arg))
	}
	return
}

func (m *Machine) lookupMethod(typ types.Type, meth *types.Func) Value {
	if typ == m.P.RTypeT {
		return m.P.intrinsic("reflect.Type." + meth.Name())
	}
	if typ == m.P.ErrT {
		return m.P.intrinsic("error." + meth.Name())
	}
	f := m.P.Prog.LookupMethod(typ, meth.Pkg(), meth.Name())
	if f == nil {
		unsupported("method set for dynamic type %v does not contain %s", typ, meth)
	}
	return f
}

// call invokes a function value.
func (m *Machine) call(caller *frame, callpos token.Pos, fn Value, args []Value) Value {
	switch fn := fn.(type) {
	case *ssa.Function:
		if fn == nil {
			nilDeref("call of nil function")
		}
		return m.callSSA(caller, callpos, fn, args, nil)
	case *Closure:
		return m.callSSA(caller, callpos, fn.Fn, args, fn.Env)
	case *ssa.Builtin:
		return m.callBuiltin(caller, callpos, fn, args)
	case *Intrinsic:
		m.Stats.Intrinsics[fn.Name]++
		return fn.Fn(m, caller, args)
	}
	panic(fmt.Sprintf("cannot call %T", fn))
}

// Call lets harnesses invoke a function value.
func (m *Machine) Call(fn Value, args ...Value) Value {
	return m.call(nil, token.NoPos, fn, args)
}

func (m *Machine) callSSA(caller *frame, callpos token.Pos, fn *ssa.Function, args []Value, env []Value) Value {
	fr := &frame{m: m, caller: caller, fn: fn}
	if fn.Synthetic == "package initializer" && fn.Pkg != m.P.Pkg {
		return nil // initialisers of imported packages are not run; their functions are modelled
	}
	if fn.Parent() == nil {
		if in := m.P.lookupIntrinsic(fn); in != nil {
			m.Stats.Intrinsics[in.Name]++
			return in.Fn(m, fr, args)
		}
		if !m.P.mayInterpret(fn) {
			unsupported("no model for callee %s", fn.String())
		}
	}
	if fn.Blocks == nil {
		unsupported("no code for function %s", fn.String())
	}
	if fn.TypeParams().Len() > 0 && len(fn.TypeArgs()) == 0 {
		unsupported("uninstantiated generic %s", fn.String())
	}
	m.depth++
	if m.depth > m.Limits.MaxDepth {
		panic(abort{kind: abortBudget, msg: "call depth budget exhausted in " + fn.String()})
	}
	defer func() { m.depth-- }()

	if m.Tracing {
		fmt.Fprintf(os.Stderr, "%*sEntering %s\n", m.depth, "", fn)
	}
	fr.env = make(map[ssa.Value]Value)
	fr.block = fn.Blocks[0]
	fr.locals = make([]Value, len(fn.Locals))
	for i, l := range fn.Locals {
		fr.locals[i] = zero(deref(l.Type()))
		fr.env[l] = &fr.locals[i]
	}
	for i, p := range fn.Params {
		fr.env[p] = args[i]
	}
	for i, fv := range fn.FreeVars {
		fr.env[fv] = env[i]
	}
	name := fn.String()
	before := m.steps
	for fr.block != nil {
		m.runFrame(fr)
	}
	m.Stats.FuncsRun[name] += m.steps - before
	return fr.result
}

func (m *Machine) runFrame(fr *frame) {
	defer func() {
		if fr.block == nil {
			return // normal return
		}
		r := recover()
		switch r := r.(type) {
		case abort:
			panic(r)
		case targetPanic:
		case runtime.Error:
			// engine bug: propagate unchanged to the path boundary
			panic(r)
		default:
			panic(r)
		}
		fr.panicking = true
		fr.panic = r
		fr.runDefers()
		fr.block = fr.fn.Recover
	}()

	for {
		nonPhis := executePhis(fr)
		for _, instr := range nonPhis {
			m.step(fr.fn)
			if m.Tracing {
				if v, ok := instr.(ssa.Value); ok {
					fmt.Fprintf(os.Stderr, "%*s %s = %s\n", m.depth, "", v.Name(), instr)
				} else {
					fmt.Fprintf(os.Stderr, "%*s %s\n", m.depth, "", instr)
				}
			}
			if m.visitInstr(fr, instr) == kReturn {
				return
			}
		}
	}
}

func executePhis(fr *frame) []ssa.Instruction {
	firstNonPhi := -1
	for i, instr := range fr.block.Instrs {
		if _, ok := instr.(*ssa.Phi); !ok {
			firstNonPhi = i
			break
		}
	}
	nonPhis := fr.block.Instrs[firstNonPhi:]
	if firstNonPhi > 0 {
		phis := fr.block.Instrs[:firstNonPhi]
		predIndex := slices.Index(fr.block.Preds, fr.prevBlock)
		fr.phitemps = fr.phitemps[:0]
		for _, phi := range phis {
			phi := phi.(*ssa.Phi)
			fr.phitemps = append(fr.phitemps, fr.get(phi.Edges[predIndex]))
		}
		for i, phi := range phis {
			fr.env[phi.(*ssa.Phi)] = fr.phitemps[i]
		}
	}
	return nonPhis
}

// doRecover implements the recover() built-in.
func (m *Machine) doRecover(caller *frame) Value {
	if caller != nil && !caller.panicking && caller.caller != nil && caller.caller.panicking {
		caller.caller.panicking = false
		p := caller.caller.panic
		caller.caller.panic = nil
		switch p := p.(type) {
		case targetPanic:
			if iv, ok := p.v.(Iface); ok {
				return iv
			}
			return Iface{T: types.Typ[types.String], V: toString(p.v)}
		default:
			panic(p)
		}
	}
	return Iface{}
}

// concretize turns an integer value into a concrete one, forking over a small range if needed.
func (m *Machine) concretize(v Value, site string) Value {
	si, ok := v.(SymInt)
	if !ok {
		return v
	}
	t := m.simp(si.T)
	if c, ok := t.Int64(); ok {
		return c
	}
	lo, hi, ok := m.boundsOf(t)
	if !ok || hi-lo > 64 {
		unsupported("cannot concretize unbounded symbolic integer at %s", site)
	}
	var conds []*smt.Term
	for i := lo; i <= hi; i++ {
		conds = append(conds, m.Ctx.Eq(t, m.Ctx.Int(i)))
	}
	c := m.Choose(conds, site)
	return lo + int64(c)
}

// index checks 0 <= idx < n and returns the concrete index (forking over symbolic ones).
func (m *Machine) index(idx Value, n int, site string) int {
	if si, ok := idx.(SymInt); ok {
		t := m.simp(si.T)
		if c, ok := t.Int64(); ok {
			idx = c
		} else {
			var conds []*smt.Term
			for i := 0; i < n; i++ {
				conds = append(conds, m.Ctx.Eq(t, m.Ctx.Int(int64(i))))
			}
			conds = append(conds, m.Ctx.Or(m.Ctx.Lt(t, m.Ctx.Int(0)), m.Ctx.Le(m.Ctx.Int(int64(n)), t)))
			c := m.Choose(conds, site)
			if c == n {
				panic(targetPanic{v: fmt.Sprintf("index out of range [symbolic] with length %d", n), what: "index"})
			}
			return c
		}
	}
	var i int64
	switch x := idx.(type) {
	case int64:
		i = x
	case uint64:
		if x > 1<<62 {
			i = -1
		} else {
			i = int64(x)
		}
	default:
		panic(fmt.Sprintf("index: bad index type %T", idx))
	}
	if i < 0 || i >= int64(n) {
		panic(targetPanic{v: fmt.Sprintf("index out of range [%d] with length %d", i, n), what: "index"})
	}
	return int(i)
}
