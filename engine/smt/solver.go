package smt

import (
	"bufio"
	"bytes"
	"fmt"
	"io"
	"math/big"
	"os"
	"os/exec"
	"strings"
	"time"
)

type Result int

const (
	Unknown Result = iota
	Sat
	Unsat
)

func (r Result) String() string {
	switch r {
	case Sat:
		return "sat"
	case Unsat:
		return "unsat"
	}
	return "unknown"
}

// Stats accumulates what a solver process was asked.
type Stats struct {
	Queries        int
	Sat            int
	Unsat          int
	Unknown        int
	Errors         int
	Time           time.Duration
	MaxQuery       time.Duration
	ModelTime      time.Duration
	Models         int
	SecondOpinions int
}

func (s *Stats) Add(o Stats) {
	s.Queries += o.Queries
	s.Sat += o.Sat
	s.Unsat += o.Unsat
	s.Unknown += o.Unknown
	s.Errors += o.Errors
	s.Time += o.Time
	s.ModelTime += o.ModelTime
	s.Models += o.Models
	if o.MaxQuery > s.MaxQuery {
		s.MaxQuery = o.MaxQuery
	}
}

// Solver drives one long-lived SMT solver process over SMT-LIB2 text.
type Solver struct {
	bin       []string
	timeoutMs int
	cmd       *exec.Cmd
	in        io.WriteCloser
	out       *bufio.Reader
	ctx       *Ctx
	declared  map[string]bool
	defined   map[int]bool
	depth     int
	Stats     Stats
	Log       io.Writer // if non-nil, every command is copied here
	LastError string
	script    bytes.Buffer
}

// NewSolver starts bin (e.g. "z3", "-in"). timeoutMs applies per check-sat.
func NewSolver(timeoutMs int, bin ...string) (*Solver, error) {
	if len(bin) == 0 {
		bin = []string{"z3", "-in"}
	}
	s := &Solver{bin: bin, timeoutMs: timeoutMs}
	if err := s.start(); err != nil {
		return nil, err
	}
	return s, nil
}

func (s *Solver) start() error {
	s.cmd = exec.Command(s.bin[0], s.bin[1:]...)
	in, err := s.cmd.StdinPipe()
	if err != nil {
		return err
	}
	out, err := s.cmd.StdoutPipe()
	if err != nil {
		return err
	}
	s.cmd.Stderr = os.Stderr
	if err := s.cmd.Start(); err != nil {
		return err
	}
	s.in = in
	s.out = bufio.NewReaderSize(out, 1<<16)
	return nil
}

func (s *Solver) Close() {
	if s.cmd != nil {
		s.in.Close()
		s.cmd.Process.Kill()
		s.cmd.Wait()
		s.cmd = nil
	}
}

func (s *Solver) send(line string) {
	if s.Log != nil {
		io.WriteString(s.Log, line+"\n")
	}
	if !strings.HasPrefix(line, "(check-sat") && !strings.HasPrefix(line, "(echo") && !strings.HasPrefix(line, "(get-value") {
		s.script.WriteString(line)
		s.script.WriteByte('\n')
	}
	io.WriteString(s.in, line+"\n")
}

// CheckLong repeats the last query with the per-query timeout multiplied by factor (the
// assertion stack is unchanged), and restores the timeout.
func (s *Solver) CheckLong(factor int) Result {
	if s.timeoutMs <= 0 {
		return s.Check()
	}
	s.send(fmt.Sprintf("(set-option :timeout %d)", s.timeoutMs*factor))
	r := s.Check()
	s.send(fmt.Sprintf("(set-option :timeout %d)", s.timeoutMs))
	return r
}

// CheckSecondOpinion re-decides the current assertion stack with another solver
// binary (one-shot, from the recorded script). Used when the primary answers unknown.
func (s *Solver) CheckSecondOpinion(timeoutSec int, bin ...string) Result {
	f, err := os.CreateTemp("", "symgo-*.smt2")
	if err != nil {
		return Unknown
	}
	defer os.Remove(f.Name())
	f.Write(s.script.Bytes())
	f.WriteString("(check-sat)\n")
	f.Close()
	args := append(bin[1:], f.Name())
	cmd := exec.Command(bin[0], args...)
	done := make(chan struct{})
	var out []byte
	go func() { out, _ = cmd.Output(); close(done) }()
	select {
	case <-done:
	case <-time.After(time.Duration(timeoutSec) * time.Second):
		if cmd.Process != nil {
			cmd.Process.Kill()
		}
		<-done
		return Unknown
	}
	s.Stats.SecondOpinions++
	lines := strings.Split(strings.TrimSpace(string(out)), "\n")
	if strings.Contains(string(out), "(error") {
		return Unknown
	}
	switch strings.TrimSpace(lines[len(lines)-1]) {
	case "sat":
		return Sat
	case "unsat":
		return Unsat
	}
	return Unknown
}

// readSexp reads one complete s-expression or atom line from the solver.
func (s *Solver) readSexp() (string, error) {
	var sb strings.Builder
	depth := 0
	started := false
	inStr := false
	inBar := false
	for {
		b, err := s.out.ReadByte()
		if err != nil {
			return sb.String(), err
		}
		if !started {
			if b == ' ' || b == '\n' || b == '\r' || b == '\t' {
				continue
			}
			started = true
		}
		sb.WriteByte(b)
		if inStr {
			if b == '"' {
				inStr = false
			}
			continue
		}
		if inBar {
			if b == '|' {
				inBar = false
			}
			continue
		}
		switch b {
		case '|':
			inBar = true
		case '"':
			inStr = true
		case '(':
			depth++
		case ')':
			depth--
			if depth == 0 {
				return sb.String(), nil
			}
		case '\n':
			if depth == 0 {
				return strings.TrimSpace(sb.String()), nil
			}
		}
	}
}

// Reset clears the solver state and binds it to ctx.
func (s *Solver) Reset(ctx *Ctx) {
	s.ctx = ctx
	s.declared = map[string]bool{}
	s.defined = map[int]bool{}
	s.depth = 0
	s.script.Reset()
	s.send("(reset)")
	s.send("(set-option :global-decls true)")
	s.send("(set-option :print-success false)")
	if s.timeoutMs > 0 {
		s.send(fmt.Sprintf("(set-option :timeout %d)", s.timeoutMs))
	}
	s.send("(declare-sort Str 0)")
}

// Raw sends a command that produces no output.
func (s *Solver) Raw(cmd string) { s.send(cmd) }

func (s *Solver) Push() { s.depth++; s.send("(push 1)") }
func (s *Solver) Pop()  { s.depth--; s.send("(pop 1)") }

// ref makes sure t is declared/defined in the solver and returns the text that refers to it.
func (s *Solver) ref(t *Term) string {
	switch t.Op {
	case OpConst:
		return t.String()
	case OpVar:
		n := symName(t.Name)
		if !s.declared["v:"+t.Name] {
			s.declared["v:"+t.Name] = true
			s.send(fmt.Sprintf("(declare-const %s %s)", n, t.Sort))
		}
		return n
	}
	name := fmt.Sprintf("t!%d", t.ID)
	if s.defined[t.ID] {
		return name
	}
	// Define children first (iteratively deep terms are rare; recursion is fine).
	for _, a := range t.Args {
		s.ref(a)
	}
	if t.Op == OpApp && !s.declared["f:"+t.Name] {
		s.declared["f:"+t.Name] = true
		d := s.ctx.funs[t.Name]
		var as []string
		for _, a := range d.args {
			as = append(as, a.String())
		}
		s.send(fmt.Sprintf("(declare-fun %s (%s) %s)", symName(t.Name), strings.Join(as, " "), d.ret))
	}
	var sb strings.Builder
	t.write(&sb, func(a *Term) string {
		if a.Op == OpConst || a.Op == OpVar {
			return ""
		}
		return fmt.Sprintf("t!%d", a.ID)
	})
	s.send(fmt.Sprintf("(define-fun %s () %s %s)", name, t.Sort, sb.String()))
	s.defined[t.ID] = true
	return name
}

func (s *Solver) Assert(t *Term) {
	if t.IsTrue() {
		return
	}
	s.send("(assert " + s.ref(t) + ")")
}

// Check runs check-sat. Any "(error" output since the previous check makes the result Unknown.
func (s *Solver) Check() Result {
	t0 := time.Now()
	s.send("(check-sat)")
	s.send("(echo \"##done\")")
	res := Unknown
	sawError := false
	for {
		line, err := s.readSexp()
		if err != nil {
			s.LastError = "solver died: " + err.Error()
			sawError = true
			break
		}
		if line == "##done" || line == "\"##done\"" {
			break
		}
		if strings.HasPrefix(line, "(error") {
			s.LastError = line
			sawError = true
			continue
		}
		switch line {
		case "sat":
			res = Sat
		case "unsat":
			res = Unsat
		case "unknown", "timeout":
			res = Unknown
		default:
			s.LastError = "unexpected solver output: " + line
			sawError = true
		}
	}
	if sawError {
		s.Stats.Errors++
		res = Unknown
	}
	d := time.Since(t0)
	s.Stats.Queries++
	s.Stats.Time += d
	if d > s.Stats.MaxQuery {
		s.Stats.MaxQuery = d
	}
	switch res {
	case Sat:
		s.Stats.Sat++
	case Unsat:
		s.Stats.Unsat++
	default:
		s.Stats.Unknown++
	}
	return res
}

// CheckWith checks satisfiability of the current assertions plus extra, without keeping extra.
func (s *Solver) CheckWith(extra ...*Term) Result {
	s.LastError = ""
	s.Push()
	for _, e := range extra {
		s.Assert(e)
	}
	r := s.Check()
	s.Pop()
	return r
}

// Val is a model value.
type Val struct {
	Sort Sort
	B    bool
	I    *big.Int
	R    *big.Rat
	S    string // abstract element name for Str
}

func (v Val) String() string {
	switch v.Sort {
	case SBool:
		return fmt.Sprint(v.B)
	case SInt:
		return v.I.String()
	case SReal:
		return v.R.RatString()
	}
	return v.S
}

// GetValues must be called right after a Check that returned Sat (in the same scope).
func (s *Solver) GetValues(ts []*Term) (map[*Term]Val, error) {
	t0 := time.Now()
	defer func() { s.Stats.ModelTime += time.Since(t0); s.Stats.Models++ }()
	out := map[*Term]Val{}
	const chunk = 200
	for i := 0; i < len(ts); i += chunk {
		j := i + chunk
		if j > len(ts) {
			j = len(ts)
		}
		var refs []string
		for _, t := range ts[i:j] {
			refs = append(refs, s.ref(t))
		}
		s.send("(get-value (" + strings.Join(refs, " ") + "))")
		resp, err := s.readSexp()
		if err != nil {
			return nil, err
		}
		if strings.HasPrefix(resp, "(error") {
			return nil, fmt.Errorf("get-value: %s", resp)
		}
		sx, _, err := parseSexp(resp, 0)
		if err != nil {
			return nil, err
		}
		if len(sx.list) != j-i {
			return nil, fmt.Errorf("get-value: expected %d values, got %d: %s", j-i, len(sx.list), resp)
		}
		for k, pair := range sx.list {
			if len(pair.list) != 2 {
				return nil, fmt.Errorf("get-value: bad pair in %s", resp)
			}
			t := ts[i+k]
			v, err := evalVal(pair.list[1], t.Sort)
			if err != nil {
				return nil, fmt.Errorf("get-value %s: %v", t, err)
			}
			out[t] = v
		}
	}
	return out, nil
}

type sexp struct {
	atom string
	list []*sexp
	isL  bool
}

func parseSexp(s string, i int) (*sexp, int, error) {
	for i < len(s) && (s[i] == ' ' || s[i] == '\n' || s[i] == '\t' || s[i] == '\r') {
		i++
	}
	if i >= len(s) {
		return nil, i, fmt.Errorf("unexpected end of s-expression")
	}
	if s[i] == '(' {
		i++
		x := &sexp{isL: true}
		for {
			for i < len(s) && (s[i] == ' ' || s[i] == '\n' || s[i] == '\t' || s[i] == '\r') {
				i++
			}
			if i >= len(s) {
				return nil, i, fmt.Errorf("unterminated list")
			}
			if s[i] == ')' {
				return x, i + 1, nil
			}
			c, j, err := parseSexp(s, i)
			if err != nil {
				return nil, j, err
			}
			x.list = append(x.list, c)
			i = j
		}
	}
	j := i
	if s[i] == '|' {
		j = i + 1
		for j < len(s) && s[j] != '|' {
			j++
		}
		j++
	} else {
		for j < len(s) && !strings.ContainsRune(" \n\t\r()", rune(s[j])) {
			j++
		}
	}
	return &sexp{atom: s[i:j]}, j, nil
}

func evalVal(x *sexp, sort Sort) (Val, error) {
	switch sort {
	case SBool:
		if x.atom == "true" {
			return Val{Sort: SBool, B: true}, nil
		}
		if x.atom == "false" {
			return Val{Sort: SBool, B: false}, nil
		}
		return Val{}, fmt.Errorf("bad bool %v", x)
	case SStr:
		if x.isL {
			return Val{}, fmt.Errorf("bad Str value")
		}
		return Val{Sort: SStr, S: x.atom}, nil
	}
	r, err := evalNum(x)
	if err != nil {
		return Val{}, err
	}
	if sort == SInt {
		if !r.IsInt() {
			return Val{}, fmt.Errorf("non-integer value for Int")
		}
		return Val{Sort: SInt, I: new(big.Int).Set(r.Num())}, nil
	}
	return Val{Sort: SReal, R: r}, nil
}

func evalNum(x *sexp) (*big.Rat, error) {
	if !x.isL {
		r, ok := new(big.Rat).SetString(x.atom)
		if !ok {
			return nil, fmt.Errorf("bad number %q", x.atom)
		}
		return r, nil
	}
	if len(x.list) == 0 {
		return nil, fmt.Errorf("empty numeral")
	}
	switch x.list[0].atom {
	case "-":
		if len(x.list) == 2 {
			r, err := evalNum(x.list[1])
			if err != nil {
				return nil, err
			}
			return r.Neg(r), nil
		}
		if len(x.list) == 3 {
			a, err := evalNum(x.list[1])
			if err != nil {
				return nil, err
			}
			b, err := evalNum(x.list[2])
			if err != nil {
				return nil, err
			}
			return a.Sub(a, b), nil
		}
	case "/":
		if len(x.list) == 3 {
			a, err := evalNum(x.list[1])
			if err != nil {
				return nil, err
			}
			b, err := evalNum(x.list[2])
			if err != nil {
				return nil, err
			}
			if b.Sign() == 0 {
				return nil, fmt.Errorf("division by zero in model")
			}
			return a.Quo(a, b), nil
		}
	case "to_real":
		if len(x.list) == 2 {
			return evalNum(x.list[1])
		}
	}
	return nil, fmt.Errorf("unsupported numeral form")
}
