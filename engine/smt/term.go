// Package smt provides hash-consed, constant-folding SMT terms, an SMT-LIB2
// printer and a driver for a long-lived solver process (z3 -in).
//
// The fragment produced is quantifier-free UF + linear Int/Real arithmetic with
// div/mod by constants and ite. No floating point, no string theory, no arrays.
package smt

import (
	"fmt"
	"math/big"
	"sort"
	"strings"
)

type Sort uint8

const (
	SBool Sort = iota
	SInt
	SReal
	SStr // uninterpreted sort of abstract strings
)

func (s Sort) String() string {
	switch s {
	case SBool:
		return "Bool"
	case SInt:
		return "Int"
	case SReal:
		return "Real"
	case SStr:
		return "Str"
	}
	return "?"
}

type Op uint8

const (
	OpConst Op = iota
	OpVar
	OpNot
	OpAnd
	OpOr
	OpEq
	OpIte
	OpLt
	OpLe
	OpAdd
	OpMul
	OpNeg
	OpIDiv
	OpMod
	OpRDiv
	OpToReal
	OpApp
)

// Term is an immutable hash-consed SMT term. Compare with ==.
type Term struct {
	Op   Op
	Sort Sort
	Args []*Term
	Name string   // OpVar, OpApp
	I    *big.Int // OpConst of sort Int
	R    *big.Rat // OpConst of sort Real
	B    bool     // OpConst of sort Bool
	ID   int
	ctx  *Ctx
}

// Ctx owns a term table. It is not safe for concurrent use.
type Ctx struct {
	table map[string]*Term
	next  int
	funs  map[string]funDecl
	order []*Term // all vars in creation order
	True  *Term
	False *Term
}

type funDecl struct {
	args []Sort
	ret  Sort
}

func NewCtx() *Ctx {
	c := &Ctx{table: map[string]*Term{}, funs: map[string]funDecl{}}
	c.True = c.mk(&Term{Op: OpConst, Sort: SBool, B: true}, "cb1")
	c.False = c.mk(&Term{Op: OpConst, Sort: SBool, B: false}, "cb0")
	return c
}

func (c *Ctx) mk(t *Term, key string) *Term {
	if old, ok := c.table[key]; ok {
		return old
	}
	t.ID = c.next
	c.next++
	t.ctx = c
	c.table[key] = t
	if t.Op == OpVar {
		c.order = append(c.order, t)
	}
	return t
}

func (c *Ctx) NumTerms() int { return c.next }

func keyOf(op Op, sort Sort, name string, args []*Term) string {
	var sb strings.Builder
	fmt.Fprintf(&sb, "%d:%d:%s", op, sort, name)
	for _, a := range args {
		fmt.Fprintf(&sb, ",%d", a.ID)
	}
	return sb.String()
}

func (c *Ctx) node(op Op, sort Sort, name string, args ...*Term) *Term {
	return c.mk(&Term{Op: op, Sort: sort, Name: name, Args: args}, keyOf(op, sort, name, args))
}

// ---- constants and variables

func (c *Ctx) Bool(b bool) *Term {
	if b {
		return c.True
	}
	return c.False
}

func (c *Ctx) Int(i int64) *Term { return c.BigInt(big.NewInt(i)) }

func (c *Ctx) BigInt(i *big.Int) *Term {
	return c.mk(&Term{Op: OpConst, Sort: SInt, I: new(big.Int).Set(i)}, "ci"+i.String())
}

func (c *Ctx) Rat(r *big.Rat) *Term {
	return c.mk(&Term{Op: OpConst, Sort: SReal, R: new(big.Rat).Set(r)}, "cr"+r.String())
}

func (c *Ctx) RatInt(i int64) *Term { return c.Rat(new(big.Rat).SetInt64(i)) }

func (c *Ctx) Var(name string, s Sort) *Term {
	return c.node(OpVar, s, name)
}

// App applies an uninterpreted function. The signature is fixed by first use.
func (c *Ctx) App(name string, ret Sort, args ...*Term) *Term {
	if d, ok := c.funs[name]; ok {
		if d.ret != ret || len(d.args) != len(args) {
			panic("smt: inconsistent signature for " + name)
		}
	} else {
		d := funDecl{ret: ret}
		for _, a := range args {
			d.args = append(d.args, a.Sort)
		}
		c.funs[name] = d
	}
	return c.node(OpApp, ret, name, args...)
}

func (t *Term) IsConst() bool { return t.Op == OpConst }
func (t *Term) IsTrue() bool  { return t.Op == OpConst && t.Sort == SBool && t.B }
func (t *Term) IsFalse() bool { return t.Op == OpConst && t.Sort == SBool && !t.B }

// Int64 returns the value of an Int constant.
func (t *Term) Int64() (int64, bool) {
	if t.Op == OpConst && t.Sort == SInt && t.I.IsInt64() {
		return t.I.Int64(), true
	}
	return 0, false
}

// ---- boolean structure

func (c *Ctx) Not(a *Term) *Term {
	switch a.Op {
	case OpConst:
		return c.Bool(!a.B)
	case OpNot:
		return a.Args[0]
	case OpLt:
		return c.Le(a.Args[1], a.Args[0])
	case OpLe:
		return c.Lt(a.Args[1], a.Args[0])
	}
	return c.node(OpNot, SBool, "", a)
}

func (c *Ctx) And(as ...*Term) *Term { return c.nary(OpAnd, as) }
func (c *Ctx) Or(as ...*Term) *Term  { return c.nary(OpOr, as) }

func (c *Ctx) nary(op Op, as []*Term) *Term {
	unit, zero := c.True, c.False
	if op == OpOr {
		unit, zero = c.False, c.True
	}
	var flat []*Term
	seen := map[int]bool{}
	var add func(t *Term) bool
	add = func(t *Term) bool {
		if t == unit {
			return true
		}
		if t == zero {
			return false
		}
		if t.Op == op {
			for _, x := range t.Args {
				if !add(x) {
					return false
				}
			}
			return true
		}
		if seen[t.ID] {
			return true
		}
		seen[t.ID] = true
		flat = append(flat, t)
		return true
	}
	for _, a := range as {
		if a.Sort != SBool {
			panic("smt: non-bool in and/or")
		}
		if !add(a) {
			return zero
		}
	}
	for _, t := range flat {
		if t.Op == OpNot && seen[t.Args[0].ID] {
			return zero
		}
	}
	switch len(flat) {
	case 0:
		return unit
	case 1:
		return flat[0]
	}
	sort.Slice(flat, func(i, j int) bool { return flat[i].ID < flat[j].ID })
	return c.node(op, SBool, "", flat...)
}

func (c *Ctx) Implies(a, b *Term) *Term { return c.Or(c.Not(a), b) }
func (c *Ctx) Iff(a, b *Term) *Term     { return c.Eq(a, b) }
func (c *Ctx) Xor(a, b *Term) *Term     { return c.Not(c.Eq(a, b)) }

// isConstLeafTree reports whether t is a constant or an ite tree whose leaves are constants.
func isConstLeafTree(t *Term, depth int) bool {
	if t.Op == OpConst {
		return true
	}
	if t.Op == OpIte && depth < 12 {
		return isConstLeafTree(t.Args[1], depth+1) && isConstLeafTree(t.Args[2], depth+1)
	}
	return false
}

func (c *Ctx) Eq(a, b *Term) *Term {
	if a.Sort != b.Sort {
		// Allow Int/Real mixing by promotion.
		if a.Sort == SInt && b.Sort == SReal {
			a = c.ToReal(a)
		} else if a.Sort == SReal && b.Sort == SInt {
			b = c.ToReal(b)
		} else {
			panic(fmt.Sprintf("smt: Eq sort mismatch %v %v", a.Sort, b.Sort))
		}
	}
	if a == b {
		return c.True
	}
	if a.Op == OpConst && b.Op == OpConst {
		switch a.Sort {
		case SBool:
			return c.Bool(a.B == b.B)
		case SInt:
			return c.Bool(a.I.Cmp(b.I) == 0)
		case SReal:
			return c.Bool(a.R.Cmp(b.R) == 0)
		}
	}
	if a.Sort == SBool {
		if a.Op == OpConst {
			a, b = b, a
		}
		if b.Op == OpConst {
			if b.B {
				return a
			}
			return c.Not(a)
		}
	}
	// Push equality with a constant into ite trees with constant leaves.
	if b.Op == OpIte && a.Op == OpConst {
		a, b = b, a
	}
	if a.Op == OpIte && b.Op == OpConst && isConstLeafTree(a, 0) {
		return c.Ite(a.Args[0], c.Eq(a.Args[1], b), c.Eq(a.Args[2], b))
	}
	if a.Op == OpIte && b.Op == OpIte && isConstLeafTree(a, 0) && isConstLeafTree(b, 0) {
		return c.Ite(a.Args[0], c.Eq(a.Args[1], b), c.Eq(a.Args[2], b))
	}
	if a.ID > b.ID {
		a, b = b, a
	}
	return c.node(OpEq, SBool, "", a, b)
}

func (c *Ctx) Ne(a, b *Term) *Term { return c.Not(c.Eq(a, b)) }

func (c *Ctx) Ite(cond, a, b *Term) *Term {
	if cond.IsTrue() {
		return a
	}
	if cond.IsFalse() {
		return b
	}
	if a.Sort != b.Sort {
		if a.Sort == SInt && b.Sort == SReal {
			a = c.ToReal(a)
		} else if a.Sort == SReal && b.Sort == SInt {
			b = c.ToReal(b)
		} else {
			panic("smt: Ite sort mismatch")
		}
	}
	if a == b {
		return a
	}
	if a.Sort == SBool {
		if a.IsTrue() && b.IsFalse() {
			return cond
		}
		if a.IsFalse() && b.IsTrue() {
			return c.Not(cond)
		}
		if a.IsTrue() {
			return c.Or(cond, b)
		}
		if a.IsFalse() {
			return c.And(c.Not(cond), b)
		}
		if b.IsTrue() {
			return c.Or(c.Not(cond), a)
		}
		if b.IsFalse() {
			return c.And(cond, a)
		}
	}
	return c.node(OpIte, a.Sort, "", cond, a, b)
}

// ---- arithmetic

func (c *Ctx) promote(a, b *Term) (*Term, *Term) {
	if a.Sort == b.Sort {
		return a, b
	}
	if a.Sort == SInt && b.Sort == SReal {
		return c.ToReal(a), b
	}
	if a.Sort == SReal && b.Sort == SInt {
		return a, c.ToReal(b)
	}
	panic(fmt.Sprintf("smt: arithmetic sort mismatch %v %v", a.Sort, b.Sort))
}

func cmpConst(a, b *Term) int {
	if a.Sort == SInt {
		return a.I.Cmp(b.I)
	}
	return a.R.Cmp(b.R)
}

func (c *Ctx) Lt(a, b *Term) *Term {
	a, b = c.promote(a, b)
	if a == b {
		return c.False
	}
	if a.Op == OpConst && b.Op == OpConst {
		return c.Bool(cmpConst(a, b) < 0)
	}
	if a.Op == OpIte && b.Op == OpConst && isConstLeafTree(a, 0) {
		return c.Ite(a.Args[0], c.Lt(a.Args[1], b), c.Lt(a.Args[2], b))
	}
	if b.Op == OpIte && a.Op == OpConst && isConstLeafTree(b, 0) {
		return c.Ite(b.Args[0], c.Lt(a, b.Args[1]), c.Lt(a, b.Args[2]))
	}
	return c.node(OpLt, SBool, "", a, b)
}

func (c *Ctx) Le(a, b *Term) *Term {
	a, b = c.promote(a, b)
	if a == b {
		return c.True
	}
	if a.Op == OpConst && b.Op == OpConst {
		return c.Bool(cmpConst(a, b) <= 0)
	}
	if a.Op == OpIte && b.Op == OpConst && isConstLeafTree(a, 0) {
		return c.Ite(a.Args[0], c.Le(a.Args[1], b), c.Le(a.Args[2], b))
	}
	if b.Op == OpIte && a.Op == OpConst && isConstLeafTree(b, 0) {
		return c.Ite(b.Args[0], c.Le(a, b.Args[1]), c.Le(a, b.Args[2]))
	}
	return c.node(OpLe, SBool, "", a, b)
}

func (c *Ctx) Gt(a, b *Term) *Term { return c.Lt(b, a) }
func (c *Ctx) Ge(a, b *Term) *Term { return c.Le(b, a) }

func (c *Ctx) zeroOf(s Sort) *Term {
	if s == SInt {
		return c.Int(0)
	}
	return c.RatInt(0)
}

func (c *Ctx) Add(as ...*Term) *Term {
	if len(as) == 0 {
		panic("smt: empty Add")
	}
	sortR := false
	for _, a := range as {
		if a.Sort == SReal {
			sortR = true
		}
	}
	var flat []*Term
	ci := new(big.Int)
	cr := new(big.Rat)
	var add func(t *Term)
	add = func(t *Term) {
		if sortR && t.Sort == SInt {
			t = c.ToReal(t)
		}
		switch {
		case t.Op == OpConst && t.Sort == SInt:
			ci.Add(ci, t.I)
		case t.Op == OpConst && t.Sort == SReal:
			cr.Add(cr, t.R)
		case t.Op == OpAdd:
			for _, x := range t.Args {
				add(x)
			}
		default:
			flat = append(flat, t)
		}
	}
	for _, a := range as {
		add(a)
	}
	if sortR {
		if cr.Sign() != 0 {
			flat = append(flat, c.Rat(cr))
		}
	} else if ci.Sign() != 0 {
		flat = append(flat, c.BigInt(ci))
	}
	s := SInt
	if sortR {
		s = SReal
	}
	switch len(flat) {
	case 0:
		return c.zeroOf(s)
	case 1:
		return flat[0]
	}
	return c.node(OpAdd, s, "", flat...)
}

func (c *Ctx) Neg(a *Term) *Term {
	if a.Op == OpConst {
		if a.Sort == SInt {
			return c.BigInt(new(big.Int).Neg(a.I))
		}
		return c.Rat(new(big.Rat).Neg(a.R))
	}
	if a.Op == OpNeg {
		return a.Args[0]
	}
	return c.node(OpNeg, a.Sort, "", a)
}

func (c *Ctx) Sub(a, b *Term) *Term { return c.Add(a, c.Neg(b)) }

func (c *Ctx) Mul(a, b *Term) *Term {
	a, b = c.promote(a, b)
	if a.Op == OpConst && b.Op == OpConst {
		if a.Sort == SInt {
			return c.BigInt(new(big.Int).Mul(a.I, b.I))
		}
		return c.Rat(new(big.Rat).Mul(a.R, b.R))
	}
	if b.Op == OpConst {
		a, b = b, a
	}
	if a.Op == OpConst {
		if a.Sort == SInt {
			if a.I.Sign() == 0 {
				return a
			}
			if a.I.IsInt64() && a.I.Int64() == 1 {
				return b
			}
		} else {
			if a.R.Sign() == 0 {
				return a
			}
			if a.R.Cmp(big.NewRat(1, 1)) == 0 {
				return b
			}
		}
		if b.Op == OpIte && isConstLeafTree(b, 0) {
			return c.Ite(b.Args[0], c.Mul(a, b.Args[1]), c.Mul(a, b.Args[2]))
		}
	}
	return c.node(OpMul, a.Sort, "", a, b)
}

// IDiv is SMT-LIB integer division (floor for positive divisor). Divisor must be a non-zero constant.
func (c *Ctx) IDiv(a, b *Term) *Term {
	if b.Op != OpConst || b.I.Sign() == 0 {
		panic("smt: IDiv by non-constant or zero")
	}
	if a.Op == OpConst {
		q, m := new(big.Int), new(big.Int)
		q.DivMod(a.I, b.I, m) // Euclidean, as SMT-LIB
		return c.BigInt(q)
	}
	return c.node(OpIDiv, SInt, "", a, b)
}

// Mod is SMT-LIB mod (result in [0,|b|)). Divisor must be a non-zero constant.
func (c *Ctx) Mod(a, b *Term) *Term {
	if b.Op != OpConst || b.I.Sign() == 0 {
		panic("smt: Mod by non-constant or zero")
	}
	if a.Op == OpConst {
		q, m := new(big.Int), new(big.Int)
		q.DivMod(a.I, b.I, m)
		return c.BigInt(m)
	}
	if b.I.IsInt64() && b.I.Int64() == 1 {
		return c.Int(0)
	}
	return c.node(OpMod, SInt, "", a, b)
}

// RDiv divides a Real by a non-zero Real constant.
func (c *Ctx) RDiv(a, b *Term) *Term {
	if a.Sort == SInt {
		a = c.ToReal(a)
	}
	if b.Sort == SInt {
		b = c.ToReal(b)
	}
	if b.Op != OpConst || b.R.Sign() == 0 {
		panic("smt: RDiv by non-constant or zero")
	}
	return c.Mul(c.Rat(new(big.Rat).Inv(b.R)), a)
}

func (c *Ctx) ToReal(a *Term) *Term {
	if a.Sort == SReal {
		return a
	}
	if a.Sort != SInt {
		panic("smt: ToReal of non-int")
	}
	if a.Op == OpConst {
		return c.Rat(new(big.Rat).SetInt(a.I))
	}
	if a.Op == OpIte && isConstLeafTree(a, 0) {
		return c.Ite(a.Args[0], c.ToReal(a.Args[1]), c.ToReal(a.Args[2]))
	}
	return c.node(OpToReal, SReal, "", a)
}

// InRange returns lo <= a <= hi.
func (c *Ctx) InRange(a *Term, lo, hi *big.Int) *Term {
	return c.And(c.Le(c.BigInt(lo), a), c.Le(a, c.BigInt(hi)))
}

// Distinct returns pairwise disequality.
func (c *Ctx) Distinct(ts ...*Term) *Term {
	var cs []*Term
	for i := range ts {
		for j := i + 1; j < len(ts); j++ {
			cs = append(cs, c.Ne(ts[i], ts[j]))
		}
	}
	return c.And(cs...)
}

// Subst replaces variables (or arbitrary subterms) according to m and re-simplifies.
func (c *Ctx) Subst(t *Term, m map[*Term]*Term) *Term {
	if len(m) == 0 {
		return t
	}
	memo := map[*Term]*Term{}
	var rec func(t *Term) *Term
	rec = func(t *Term) *Term {
		if r, ok := m[t]; ok {
			return r
		}
		if len(t.Args) == 0 {
			return t
		}
		if r, ok := memo[t]; ok {
			return r
		}
		args := make([]*Term, len(t.Args))
		changed := false
		for i, a := range t.Args {
			args[i] = rec(a)
			if args[i] != a {
				changed = true
			}
		}
		r := t
		if changed {
			r = c.rebuild(t, args)
		}
		memo[t] = r
		return r
	}
	return rec(t)
}

func (c *Ctx) rebuild(t *Term, args []*Term) *Term {
	switch t.Op {
	case OpNot:
		return c.Not(args[0])
	case OpAnd:
		return c.And(args...)
	case OpOr:
		return c.Or(args...)
	case OpEq:
		return c.Eq(args[0], args[1])
	case OpIte:
		return c.Ite(args[0], args[1], args[2])
	case OpLt:
		return c.Lt(args[0], args[1])
	case OpLe:
		return c.Le(args[0], args[1])
	case OpAdd:
		return c.Add(args...)
	case OpMul:
		return c.Mul(args[0], args[1])
	case OpNeg:
		return c.Neg(args[0])
	case OpIDiv:
		return c.IDiv(args[0], args[1])
	case OpMod:
		return c.Mod(args[0], args[1])
	case OpToReal:
		return c.ToReal(args[0])
	case OpApp:
		return c.App(t.Name, t.Sort, args...)
	}
	panic("smt: rebuild of leaf")
}

// Vars returns the variables occurring in t in creation order.
func (c *Ctx) VarsOf(ts ...*Term) []*Term {
	seen := map[*Term]bool{}
	var out []*Term
	var rec func(t *Term)
	rec = func(t *Term) {
		if seen[t] {
			return
		}
		seen[t] = true
		if t.Op == OpVar {
			out = append(out, t)
		}
		for _, a := range t.Args {
			rec(a)
		}
	}
	for _, t := range ts {
		rec(t)
	}
	sort.Slice(out, func(i, j int) bool { return out[i].ID < out[j].ID })
	return out
}

// String renders t as a self-contained SMT-LIB2 expression (tree form; for debugging).
func (t *Term) String() string {
	var sb strings.Builder
	t.write(&sb, nil)
	return sb.String()
}

func symName(s string) string {
	ok := true
	for _, r := range s {
		if !(r >= 'a' && r <= 'z' || r >= 'A' && r <= 'Z' || r >= '0' && r <= '9' || strings.ContainsRune("_.$!@%^&*-+<>?/", r)) {
			ok = false
			break
		}
	}
	if ok && s != "" && !(s[0] >= '0' && s[0] <= '9') {
		return s
	}
	return "|" + strings.NewReplacer("|", "_", "\\", "_").Replace(s) + "|"
}

func writeInt(sb *strings.Builder, i *big.Int) {
	if i.Sign() < 0 {
		sb.WriteString("(- ")
		sb.WriteString(new(big.Int).Neg(i).String())
		sb.WriteString(")")
	} else {
		sb.WriteString(i.String())
	}
}

func writeRat(sb *strings.Builder, r *big.Rat) {
	neg := r.Sign() < 0
	a := new(big.Rat).Abs(r)
	if neg {
		sb.WriteString("(- ")
	}
	if a.IsInt() {
		sb.WriteString(a.Num().String())
		sb.WriteString(".0")
	} else {
		sb.WriteString("(/ ")
		sb.WriteString(a.Num().String())
		sb.WriteString(".0 ")
		sb.WriteString(a.Denom().String())
		sb.WriteString(".0)")
	}
	if neg {
		sb.WriteString(")")
	}
}

// write prints t; if named != nil, subterms for which named(sub) returns a
// non-empty name are printed by that name.
func (t *Term) write(sb *strings.Builder, named func(*Term) string) {
	switch t.Op {
	case OpConst:
		switch t.Sort {
		case SBool:
			if t.B {
				sb.WriteString("true")
			} else {
				sb.WriteString("false")
			}
		case SInt:
			writeInt(sb, t.I)
		case SReal:
			writeRat(sb, t.R)
		}
		return
	case OpVar:
		sb.WriteString(symName(t.Name))
		return
	}
	var head string
	switch t.Op {
	case OpNot:
		head = "not"
	case OpAnd:
		head = "and"
	case OpOr:
		head = "or"
	case OpEq:
		head = "="
	case OpIte:
		head = "ite"
	case OpLt:
		head = "<"
	case OpLe:
		head = "<="
	case OpAdd:
		head = "+"
	case OpMul:
		head = "*"
	case OpNeg:
		head = "-"
	case OpIDiv:
		head = "div"
	case OpMod:
		head = "mod"
	case OpToReal:
		head = "to_real"
	case OpApp:
		head = symName(t.Name)
	}
	sb.WriteString("(")
	sb.WriteString(head)
	for _, a := range t.Args {
		sb.WriteString(" ")
		if named != nil {
			if n := named(a); n != "" {
				sb.WriteString(n)
				continue
			}
		}
		a.write(sb, named)
	}
	sb.WriteString(")")
}
