package smt

import (
	"math/big"
	"testing"
)

func TestBasic(t *testing.T) {
	c := NewCtx()
	s, err := NewSolver(5000, "z3", "-in")
	if err != nil {
		t.Fatal(err)
	}
	defer s.Close()
	s.Reset(c)
	x := c.Var("x", SInt)
	y := c.Var("y", SReal)
	st := c.Var("s", SStr)
	s.Push()
	s.Assert(c.Lt(c.Int(3), x))
	s.Assert(c.Eq(y, c.Mul(c.Rat(big.NewRat(1, 3)), c.ToReal(x))))
	s.Assert(c.Eq(c.App("runes", SInt, st), x))
	if r := s.Check(); r != Sat {
		t.Fatal(r, s.LastError)
	}
	m, err := s.GetValues([]*Term{x, y, st, c.App("runes", SInt, st)})
	if err != nil {
		t.Fatal(err)
	}
	t.Log(m[x], m[y], m[st])
	if r := s.CheckWith(c.Lt(x, c.Int(2))); r != Unsat {
		t.Fatal(r)
	}
	s.Pop()
	// defined terms survive pop?
	if r := s.CheckWith(c.Lt(c.Int(3), x), c.Lt(x, c.Int(2))); r != Unsat {
		t.Fatal(r, s.LastError)
	}
	if r := s.CheckWith(c.Lt(c.Int(3), x)); r != Sat {
		t.Fatal(r, s.LastError)
	}
}
