package smt

import (
	"testing"
	"time"
)

func TestTiming(t *testing.T) {
	c := NewCtx()
	s, _ := NewSolver(5000, "z3", "-in")
	s.Reset(c)
	x := c.Var("x", SInt)
	t0 := time.Now()
	for i := 0; i < 100; i++ {
		s.CheckWith(c.Lt(c.Int(int64(i)), x))
	}
	t.Log("100 checks", time.Since(t0))
	t0 = time.Now()
	s.Close()
	t.Log("close", time.Since(t0))
}
