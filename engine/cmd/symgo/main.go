package main

import (
	"encoding/json"
	"fmt"
	"os"
	"runtime"
	"runtime/pprof"
	"sort"
	"time"

	"verif/engine/hx"
	"verif/engine/refsem"
)

func main() {
	if wd := os.Getenv("SYMGO_WATCHDOG"); wd != "" {
		d, _ := time.ParseDuration(wd)
		go func() {
			time.Sleep(d)
			pprof.Lookup("goroutine").WriteTo(os.Stderr, 2)
			os.Exit(3)
		}()
	}
	if pf := os.Getenv("SYMGO_CPUPROFILE"); pf != "" {
		f, _ := os.Create(pf)
		pprof.StartCPUProfile(f)
		defer pprof.StopCPUProfile()
	}
	if len(os.Args) < 2 {
		fmt.Fprintln(os.Stderr, "usage: symgo selftest | check <ID> [quick|thorough] | replay <file>")
		os.Exit(2)
	}
	switch os.Args[1] {
	case "selftest":
		os.Exit(selftest())
	case "replay":
		os.Exit(hx.Replay(os.Args[2]))
	case "try":
		os.Exit(try(os.Args[2:]))
	case "c10-graphs":
		os.Exit(hx.RunGraphCasesChild())
	case "check":
		tier := os.Getenv("VERIF_TIER")
		if len(os.Args) > 3 {
			tier = os.Args[3]
		}
		if tier == "" {
			tier = "quick"
		}
		var seed int64 = 1
		if s := os.Getenv("VERIF_SEED"); s != "" {
			fmt.Sscan(s, &seed)
		}
		code := hx.RunCheck(os.Args[2], tier, seed)
		pprof.StopCPUProfile()
		os.Exit(code)
	default:
		fmt.Fprintln(os.Stderr, "unknown command", os.Args[1])
		os.Exit(2)
	}
}

func selftest() int {
	t0 := time.Now()
	p, err := hx.Program()
	if err != nil {
		fmt.Println("load:", err)
		return 2
	}
	fmt.Println("loaded SSA in", time.Since(t0))
	t0 = time.Now()
	res, err := hx.RunSuiteConcrete(p, runtime.NumCPU())
	if err != nil {
		fmt.Println(err)
		return 2
	}
	fmt.Printf("suite: cases=%d agree=%d disagree=%d expected-miss=%d steps=%d in %v\n", res.Cases, res.Agree, len(res.Disagree), res.ExpectedMiss, res.Steps, time.Since(t0))
	var ks []string
	for k := range res.Inconclusive {
		ks = append(ks, k)
	}
	sort.Strings(ks)
	for _, k := range ks {
		fmt.Printf("  inconclusive x%d: %s\n", res.Inconclusive[k], k)
	}
	for i, d := range res.Disagree {
		if i > 30 {
			break
		}
		fmt.Println("  DISAGREE", d)
	}
	if len(res.Disagree) > 0 || len(res.Inconclusive) > 0 {
		return 2
	}
	t0 = time.Now()
	ores, err := hx.RunOracleSuite(p)
	if err != nil {
		fmt.Println(err)
		return 2
	}
	fmt.Printf("oracle: cases=%d agree=%d disagree=%d in %v\n", ores.Cases, ores.Agree, len(ores.Disagree), time.Since(t0))
	for i, d := range ores.Disagree {
		if i > 40 {
			break
		}
		fmt.Println("  ORACLE-DISAGREE", d)
	}
	if len(ores.Disagree) > 0 {
		return 2
	}
	return 0
}

func try(args []string) int {
	p, err := hx.Program()
	if err != nil {
		fmt.Println("load:", err)
		return 2
	}
	draft := refsem.Draft2020
	depth, maxLen, maxKeys := 2, 2, 3
	doc := args[0]
	if len(args) > 1 && args[1] == "7" {
		draft = refsem.Draft7
	}
	sk := &hx.Skeleton{Name: "try", Doc: doc, Draft: draft, Tm: hx.TmplFor([]string{doc}, depth, maxLen, maxKeys)}
	fmt.Println("key pool:", sk.Tm.Keys)
	w, err := hx.NewWorker(p, 10000)
	if err != nil {
		fmt.Println(err)
		return 2
	}
	defer w.Close()
	if os.Getenv("SMTLOG") != "" {
		f, _ := os.Create(os.Getenv("SMTLOG"))
		w.S.Log = f
	}
	res := w.RunValidateSkeleton(sk, hx.VOptions{Property: "C01", ValidatePaths: true})
	b, _ := json.MarshalIndent(res, "", " ")
	fmt.Println(string(b))
	return 0
}
