package main

import (
	"fmt"
	"os"
	"runtime"
	"sort"
	"time"

	"verif/engine/hx"
)

func main() {
	if len(os.Args) < 2 {
		fmt.Fprintln(os.Stderr, "usage: symgo selftest | check <ID> [quick|thorough] | replay <file>")
		os.Exit(2)
	}
	switch os.Args[1] {
	case "selftest":
		os.Exit(selftest())
	default:
		fmt.Fprintln(os.Stderr, "unknown command", os.Args[1])
		os.Exit(2)
	}
}

func selftest() int {
	t0 := time.Now()
	p, err := hx.Program()
	if err != nil {
		fmt.Println("load:", err)
		return 2
	}
	fmt.Println("loaded SSA in", time.Since(t0))
	t0 = time.Now()
	res, err := hx.RunSuiteConcrete(p, runtime.NumCPU())
	if err != nil {
		fmt.Println(err)
		return 2
	}
	fmt.Printf("suite: cases=%d agree=%d disagree=%d expected-miss=%d steps=%d in %v\n", res.Cases, res.Agree, len(res.Disagree), res.ExpectedMiss, res.Steps, time.Since(t0))
	var ks []string
	for k := range res.Inconclusive {
		ks = append(ks, k)
	}
	sort.Strings(ks)
	for _, k := range ks {
		fmt.Printf("  inconclusive x%d: %s\n", res.Inconclusive[k], k)
	}
	for i, d := range res.Disagree {
		if i > 30 {
			break
		}
		fmt.Println("  DISAGREE", d)
	}
	if len(res.Disagree) > 0 || len(res.Inconclusive) > 0 {
		return 2
	}
	return 0
}
