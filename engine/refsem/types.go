package refsem

import (
	"encoding/json"
	"fmt"
	"math"
	"math/big"
	"reflect"
	"sort"
	"strings"
	"time"
	"unsafe"

	"verif/engine/smt"
	"verif/engine/sx"
)

// O-enc / O-dec: the contract of encoding/json for the plain-data domain of C04 / C09,
// as predicates over a symbolic instance. The struct layer (which fields are emitted,
// under which names, which are optional) is not re-derived from the documentation: it
// is *observed* on the real encoding/json by marshaling probe values of the type.

type TKind int

const (
	TKBool TKind = iota
	TKInt
	TKFloat32
	TKFloat64
	TKString
	TKAny
	TKPtr
	TKSlice
	TKArray
	TKMap
	TKStruct
	TKStdString // standard-library marshaler types that encode as strings
)

type TModel struct {
	Kind    TKind
	Lo, Hi  *big.Int // TKInt
	Elem    *TModel
	Len     int // TKArray
	Fields  []TField
	GoType  reflect.Type
	Unknown string // reason the type is outside the modelled domain
}

type TField struct {
	Name     string
	Model    *TModel
	Optional bool
}

var stdStringTypes = map[string]bool{"time.Time": true, "slog.Level": true, "big.Int": true, "big.Rat": true, "big.Float": true}

func intRange(bits int, signed bool) (*big.Int, *big.Int) {
	if signed {
		hi := new(big.Int).Sub(new(big.Int).Lsh(big.NewInt(1), uint(bits-1)), big.NewInt(1))
		lo := new(big.Int).Neg(new(big.Int).Lsh(big.NewInt(1), uint(bits-1)))
		return lo, hi
	}
	return big.NewInt(0), new(big.Int).Sub(new(big.Int).Lsh(big.NewInt(1), uint(bits)), big.NewInt(1))
}

// BuildTModel derives the model of t.
func BuildTModel(t reflect.Type) *TModel {
	return buildTModel(t, map[reflect.Type]bool{})
}

func buildTModel(t reflect.Type, seen map[reflect.Type]bool) *TModel {
	m := &TModel{GoType: t}
	if stdStringTypes[t.String()] {
		m.Kind = TKStdString
		return m
	}
	switch t.Kind() {
	case reflect.Bool:
		m.Kind = TKBool
	case reflect.Int, reflect.Int64:
		m.Kind = TKInt
		m.Lo, m.Hi = intRange(64, true)
	case reflect.Int8:
		m.Kind = TKInt
		m.Lo, m.Hi = intRange(8, true)
	case reflect.Int16:
		m.Kind = TKInt
		m.Lo, m.Hi = intRange(16, true)
	case reflect.Int32:
		m.Kind = TKInt
		m.Lo, m.Hi = intRange(32, true)
	case reflect.Uint, reflect.Uint64, reflect.Uintptr:
		m.Kind = TKInt
		m.Lo, m.Hi = intRange(64, false)
	case reflect.Uint8:
		m.Kind = TKInt
		m.Lo, m.Hi = intRange(8, false)
	case reflect.Uint16:
		m.Kind = TKInt
		m.Lo, m.Hi = intRange(16, false)
	case reflect.Uint32:
		m.Kind = TKInt
		m.Lo, m.Hi = intRange(32, false)
	case reflect.Float32:
		m.Kind = TKFloat32
	case reflect.Float64:
		m.Kind = TKFloat64
	case reflect.String:
		m.Kind = TKString
	case reflect.Interface:
		m.Kind = TKAny
	case reflect.Pointer:
		m.Kind = TKPtr
		m.Elem = buildTModel(t.Elem(), seen)
	case reflect.Slice:
		m.Kind = TKSlice
		m.Elem = buildTModel(t.Elem(), seen)
	case reflect.Array:
		m.Kind = TKArray
		m.Len = t.Len()
		m.Elem = buildTModel(t.Elem(), seen)
	case reflect.Map:
		if t.Key().Kind() != reflect.String {
			m.Unknown = "map with non-string key"
			return m
		}
		m.Kind = TKMap
		m.Elem = buildTModel(t.Elem(), seen)
	case reflect.Struct:
		if seen[t] {
			m.Unknown = "recursive type"
			return m
		}
		seen[t] = true
		m.Kind = TKStruct
		m.Fields = observeStructFields(t, seen)
		delete(seen, t)
	default:
		m.Unknown = "kind " + t.Kind().String()
	}
	return m
}

// nonZeroValue builds a value of type t that marshals differently from the zero value.
func nonZeroValue(t reflect.Type, depth int) reflect.Value {
	v := reflect.New(t).Elem()
	if depth > 6 {
		return v
	}
	switch t.Kind() {
	case reflect.Bool:
		v.SetBool(true)
	case reflect.Int, reflect.Int8, reflect.Int16, reflect.Int32, reflect.Int64:
		v.SetInt(7)
	case reflect.Uint, reflect.Uint8, reflect.Uint16, reflect.Uint32, reflect.Uint64, reflect.Uintptr:
		v.SetUint(7)
	case reflect.Float32, reflect.Float64:
		v.SetFloat(1.5)
	case reflect.String:
		v.SetString("nz")
	case reflect.Pointer:
		p := reflect.New(t.Elem())
		p.Elem().Set(nonZeroValue(t.Elem(), depth+1))
		v.Set(p)
	case reflect.Slice:
		s := reflect.MakeSlice(t, 1, 1)
		s.Index(0).Set(nonZeroValue(t.Elem(), depth+1))
		v.Set(s)
	case reflect.Array:
		if t.Len() > 0 {
			v.Index(0).Set(nonZeroValue(t.Elem(), depth+1))
		}
	case reflect.Map:
		mp := reflect.MakeMap(t)
		mp.SetMapIndex(reflect.ValueOf("k").Convert(t.Key()), nonZeroValue(t.Elem(), depth+1))
		v.Set(mp)
	case reflect.Interface:
		v.Set(reflect.ValueOf("nz"))
	case reflect.Struct:
		switch t.String() {
		case "time.Time":
			v.Set(reflect.ValueOf(time.Unix(1, 0).UTC()))
			return v
		case "big.Int":
			v.Set(reflect.ValueOf(*big.NewInt(7)))
			return v
		case "big.Rat":
			v.Set(reflect.ValueOf(*big.NewRat(7, 2)))
			return v
		case "big.Float":
			v.Set(reflect.ValueOf(*big.NewFloat(7.5)))
			return v
		}
		for i := 0; i < t.NumField(); i++ {
			if t.Field(i).IsExported() {
				v.Field(i).Set(nonZeroValue(t.Field(i).Type, depth+1))
				break
			}
		}
	}
	return v
}

// allocEmbedded walks index path idx from v, allocating nil embedded pointer structs on
// the way; with allocLast the value reached is allocated too when it is a nil pointer.
func allocEmbedded(v reflect.Value, idx []int, allocLast bool) reflect.Value {
	settable := func(v reflect.Value) reflect.Value {
		if !v.CanSet() && v.CanAddr() {
			// an embedded field of unexported type: reachable for probing through its address
			return reflect.NewAt(v.Type(), unsafe.Pointer(v.UnsafeAddr())).Elem()
		}
		return v
	}
	for _, x := range idx {
		if v.Kind() == reflect.Pointer {
			if v.IsNil() {
				settable(v).Set(reflect.New(v.Type().Elem()))
			}
			v = v.Elem()
		}
		v = v.Field(x)
	}
	if allocLast && v.Kind() == reflect.Pointer && v.IsNil() {
		settable(v).Set(reflect.New(v.Type().Elem()))
	}
	return settable(v)
}

func marshalMap(v reflect.Value) (map[string]json.RawMessage, error) {
	b, err := json.Marshal(v.Interface())
	if err != nil {
		return nil, err
	}
	var m map[string]json.RawMessage
	if err := json.Unmarshal(b, &m); err != nil {
		return nil, err
	}
	return m, nil
}

// observeStructFields determines, by probing the real encoding/json, which leaf fields
// of struct type t are emitted, under which key, and which are optional. Embedded
// pointer structs are allocated (the property's domain: embedded by value or non-nil pointer).
func observeStructFields(t reflect.Type, seen map[reflect.Type]bool) []TField {
	var out []TField
	byName := map[string]bool{}
	for _, sf := range reflect.VisibleFields(t) {
		if sf.Anonymous {
			ft := sf.Type
			if ft.Kind() == reflect.Pointer {
				ft = ft.Elem()
			}
			name, _, _ := strings.Cut(sf.Tag.Get("json"), ",")
			if ft.Kind() == reflect.Struct && name == "" {
				continue // an untagged embedded struct contributes its promoted fields
			}
			if !sf.IsExported() && ft.Kind() != reflect.Struct {
				continue
			}
		} else if !sf.IsExported() {
			continue
		}
		// baseline: embedded pointers along the path allocated, everything else zero
		base := reflect.New(t).Elem()
		if len(sf.Index) > 1 {
			allocEmbedded(base, sf.Index[:len(sf.Index)-1], true)
		}
		func() {
			defer func() { recover() }()
			b0, err := marshalMap(base)
			if err != nil {
				return
			}
			probe := reflect.New(t).Elem()
			leaf := allocEmbedded(probe, sf.Index, false)
			nz := nonZeroValue(sf.Type, 0)
			if !leaf.CanSet() {
				return
			}
			leaf.Set(nz)
			b1, err := marshalMap(probe)
			if err != nil {
				return
			}
			for k, v1 := range b1 {
				v0, had := b0[k]
				if had && string(v0) == string(v1) {
					continue
				}
				if byName[k] {
					continue
				}
				byName[k] = true
				out = append(out, TField{Name: k, Model: buildTModel(sf.Type, seen), Optional: !had})
			}
		}()
	}
	sort.Slice(out, func(i, j int) bool { return out[i].Name < out[j].Name })
	return out
}

// AllNames lists every JSON field name occurring in the model (for the key pool).
func (tm *TModel) AllNames(into map[string]bool) {
	if tm == nil {
		return
	}
	for _, f := range tm.Fields {
		into[f.Name] = true
		f.Model.AllNames(into)
	}
	tm.Elem.AllNames(into)
}

// Depth returns the container nesting depth of the model.
func (tm *TModel) Depth() int {
	if tm == nil {
		return 0
	}
	switch tm.Kind {
	case TKPtr:
		return tm.Elem.Depth()
	case TKSlice, TKArray, TKMap:
		return 1 + tm.Elem.Depth()
	case TKStruct:
		d := 0
		for _, f := range tm.Fields {
			if x := f.Model.Depth(); x > d {
				d = x
			}
		}
		return 1 + d
	}
	return 0
}

func (tm *TModel) HasUnknown() string {
	if tm == nil {
		return ""
	}
	if tm.Unknown != "" {
		return tm.Unknown
	}
	if u := tm.Elem.HasUnknown(); u != "" {
		return u
	}
	for _, f := range tm.Fields {
		if u := f.Model.HasUnknown(); u != "" {
			return u
		}
	}
	return ""
}

func (tm *TModel) HasStd() bool {
	if tm == nil {
		return false
	}
	if tm.Kind == TKStdString {
		return true
	}
	if tm.Elem.HasStd() {
		return true
	}
	for _, f := range tm.Fields {
		if f.Model.HasStd() {
			return true
		}
	}
	return false
}

type TypeOracle struct {
	M *sx.Machine
	C *smt.Ctx
	// Float32AsFloat64 relaxes O-dec so that float32 range overflow is not counted
	// (used to separate the known finding "float32-overflow" from any other violation).
	Float32AsFloat64 bool
}

func isEmptyJSON(c *smt.Ctx, inst Inst) *smt.Term {
	return c.Or(
		inst.TagIs(sx.TagNull),
		c.And(inst.TagIs(sx.TagBool), c.Not(inst.Bool())),
		c.And(inst.TagIs(sx.TagNumber), c.Eq(inst.NumReal(), c.RatInt(0))),
		c.And(inst.TagIs(sx.TagString), c.Eq(inst.Str(), instEmptyStr(inst))),
		c.And(inst.TagIs(sx.TagArray), c.Eq(inst.Len(), c.Int(0))),
		c.And(inst.TagIs(sx.TagObject), c.Eq(inst.Count(), c.Int(0))),
	)
}

func instEmptyStr(inst Inst) *smt.Term {
	switch n := inst.(type) {
	case NodeInst:
		return n.M.StrConst("")
	case ConstInst:
		return n.M.StrConst("")
	case StrInst:
		return n.M.StrConst("")
	}
	panic("instEmptyStr")
}

// Enc returns "inst is the encoding/json encoding of some value of the type" (possibly
// slightly stronger: optional fields, when present, are required to be non-empty).
func (o *TypeOracle) Enc(tm *TModel, inst Inst) *smt.Term {
	c := o.C
	switch tm.Kind {
	case TKBool:
		return inst.TagIs(sx.TagBool)
	case TKInt:
		return c.And(inst.TagIs(sx.TagNumber), inst.NumIsInt(),
			c.Le(c.Rat(new(big.Rat).SetInt(tm.Lo)), inst.NumReal()), c.Le(inst.NumReal(), c.Rat(new(big.Rat).SetInt(tm.Hi))))
	case TKFloat32:
		lim := c.Rat(new(big.Rat).SetFloat64(math.MaxFloat32))
		return c.And(inst.TagIs(sx.TagNumber), c.Le(c.Neg(lim), inst.NumReal()), c.Le(inst.NumReal(), lim))
	case TKFloat64:
		return inst.TagIs(sx.TagNumber)
	case TKString, TKStdString:
		return inst.TagIs(sx.TagString)
	case TKAny:
		return c.True
	case TKPtr:
		return c.Or(inst.TagIs(sx.TagNull), o.Enc(tm.Elem, inst))
	case TKSlice:
		cs := []*smt.Term{inst.TagIs(sx.TagArray)}
		for i := 0; i < inst.MaxLen(); i++ {
			cs = append(cs, c.Implies(c.Lt(c.Int(int64(i)), inst.Len()), o.Enc(tm.Elem, inst.Elem(i))))
		}
		return c.Or(inst.TagIs(sx.TagNull), c.And(cs...))
	case TKArray:
		if tm.Len > inst.MaxLen() {
			return c.False
		}
		cs := []*smt.Term{inst.TagIs(sx.TagArray), c.Eq(inst.Len(), c.Int(int64(tm.Len)))}
		for i := 0; i < tm.Len; i++ {
			cs = append(cs, o.Enc(tm.Elem, inst.Elem(i)))
		}
		return c.And(cs...)
	case TKMap:
		cs := []*smt.Term{inst.TagIs(sx.TagObject)}
		for k := range inst.Keys() {
			cs = append(cs, c.Implies(inst.Has(k), o.Enc(tm.Elem, inst.Val(k))))
		}
		return c.And(cs...)
	case TKStruct:
		cs := []*smt.Term{inst.TagIs(sx.TagObject)}
		byName := map[string]TField{}
		for _, f := range tm.Fields {
			byName[f.Name] = f
		}
		seenField := map[string]bool{}
		for k, key := range inst.Keys() {
			f, ok := byName[key]
			if !ok {
				cs = append(cs, c.Not(inst.Has(k)))
				continue
			}
			seenField[key] = true
			val := inst.Val(k)
			if f.Optional {
				cs = append(cs, c.Implies(inst.Has(k), c.And(o.Enc(f.Model, val), c.Not(isEmptyJSON(c, val)))))
			} else {
				cs = append(cs, inst.Has(k), o.Enc(f.Model, val))
			}
		}
		for _, f := range tm.Fields {
			if !seenField[f.Name] && !f.Optional {
				return c.False // the template cannot express a mandatory field
			}
		}
		return c.And(cs...)
	}
	return c.False
}

// Dec returns "encoding/json decodes inst into the type without error, unknown fields
// disallowed" (integers are written as integer literals; null decodes into anything).
func (o *TypeOracle) Dec(tm *TModel, inst Inst) *smt.Term {
	c := o.C
	null := inst.TagIs(sx.TagNull)
	switch tm.Kind {
	case TKBool:
		return c.Or(null, inst.TagIs(sx.TagBool))
	case TKInt:
		return c.Or(null, c.And(inst.TagIs(sx.TagNumber), inst.NumIsInt(),
			c.Le(c.Rat(new(big.Rat).SetInt(tm.Lo)), inst.NumReal()), c.Le(inst.NumReal(), c.Rat(new(big.Rat).SetInt(tm.Hi)))))
	case TKFloat32:
		if o.Float32AsFloat64 {
			return c.Or(null, inst.TagIs(sx.TagNumber))
		}
		lim := c.Rat(new(big.Rat).SetFloat64(math.MaxFloat32))
		return c.Or(null, c.And(inst.TagIs(sx.TagNumber), c.Le(c.Neg(lim), inst.NumReal()), c.Le(inst.NumReal(), lim)))
	case TKFloat64:
		return c.Or(null, inst.TagIs(sx.TagNumber))
	case TKString:
		return c.Or(null, inst.TagIs(sx.TagString))
	case TKAny:
		return c.True
	case TKPtr:
		return o.Dec(tm.Elem, inst)
	case TKSlice, TKArray:
		cs := []*smt.Term{inst.TagIs(sx.TagArray)}
		for i := 0; i < inst.MaxLen(); i++ {
			if tm.Kind == TKArray && i >= tm.Len {
				break // extra elements of a JSON array are discarded when decoding into a Go array
			}
			cs = append(cs, c.Implies(c.Lt(c.Int(int64(i)), inst.Len()), o.Dec(tm.Elem, inst.Elem(i))))
		}
		return c.Or(null, c.And(cs...))
	case TKMap:
		cs := []*smt.Term{inst.TagIs(sx.TagObject)}
		for k := range inst.Keys() {
			cs = append(cs, c.Implies(inst.Has(k), o.Dec(tm.Elem, inst.Val(k))))
		}
		return c.Or(null, c.And(cs...))
	case TKStruct:
		cs := []*smt.Term{inst.TagIs(sx.TagObject)}
		for k, key := range inst.Keys() {
			var f *TField
			for i := range tm.Fields {
				if tm.Fields[i].Name == key {
					f = &tm.Fields[i]
				}
			}
			if f == nil {
				for i := range tm.Fields {
					if strings.EqualFold(tm.Fields[i].Name, key) {
						f = &tm.Fields[i]
					}
				}
			}
			if f == nil {
				cs = append(cs, c.Not(inst.Has(k))) // unknown field
				continue
			}
			cs = append(cs, c.Implies(inst.Has(k), o.Dec(f.Model, inst.Val(k))))
		}
		return c.Or(null, c.And(cs...))
	}
	return c.False
}

func (tm *TModel) String() string {
	switch tm.Kind {
	case TKStruct:
		var fs []string
		for _, f := range tm.Fields {
			opt := ""
			if f.Optional {
				opt = "?"
			}
			fs = append(fs, f.Name+opt)
		}
		return fmt.Sprintf("struct{%s}", strings.Join(fs, ","))
	}
	return tm.GoType.String()
}

// ProbeValues returns concrete values of t whose encodings are real encodings by
// construction: the zero value, a value with every pointer allocated (embedded pointers to
// unexported structs included) and zero contents, and one with non-zero scalars and
// one-element containers throughout.
func ProbeValues(t reflect.Type) []reflect.Value {
	zero := reflect.New(t).Elem()
	alloc := reflect.New(t).Elem()
	fillAll(alloc, 0, false)
	full := reflect.New(t).Elem()
	fillAll(full, 0, true)
	return []reflect.Value{zero, alloc, full}
}

func fillAll(v reflect.Value, depth int, nonZero bool) {
	if depth > 6 {
		return
	}
	if !v.CanSet() {
		if !v.CanAddr() {
			return
		}
		v = reflect.NewAt(v.Type(), unsafe.Pointer(v.UnsafeAddr())).Elem()
	}
	switch v.Kind() {
	case reflect.Bool:
		v.SetBool(nonZero)
	case reflect.Int, reflect.Int8, reflect.Int16, reflect.Int32, reflect.Int64:
		if nonZero {
			v.SetInt(7)
		}
	case reflect.Uint, reflect.Uint8, reflect.Uint16, reflect.Uint32, reflect.Uint64, reflect.Uintptr:
		if nonZero {
			v.SetUint(7)
		}
	case reflect.Float32, reflect.Float64:
		if nonZero {
			v.SetFloat(1.5)
		}
	case reflect.String:
		if nonZero {
			v.SetString("nz")
		}
	case reflect.Pointer:
		p := reflect.New(v.Type().Elem())
		fillAll(p.Elem(), depth+1, nonZero)
		v.Set(p)
	case reflect.Slice:
		if nonZero {
			s := reflect.MakeSlice(v.Type(), 1, 1)
			fillAll(s.Index(0), depth+1, nonZero)
			v.Set(s)
		}
	case reflect.Array:
		for i := 0; i < v.Len(); i++ {
			fillAll(v.Index(i), depth+1, nonZero)
		}
	case reflect.Map:
		if nonZero && v.Type().Key().Kind() == reflect.String {
			mp := reflect.MakeMap(v.Type())
			e := reflect.New(v.Type().Elem()).Elem()
			fillAll(e, depth+1, nonZero)
			mp.SetMapIndex(reflect.ValueOf("k").Convert(v.Type().Key()), e)
			v.Set(mp)
		}
	case reflect.Interface:
		if nonZero && v.NumMethod() == 0 {
			v.Set(reflect.ValueOf("nz"))
		}
	case reflect.Struct:
		switch v.Type().String() {
		case "time.Time", "big.Int", "big.Rat", "big.Float", "slog.Level":
			if nonZero {
				v.Set(nonZeroValue(v.Type(), 0))
			}
			return
		}
		for i := 0; i < v.NumField(); i++ {
			sf := v.Type().Field(i)
			if sf.IsExported() || sf.Anonymous {
				fillAll(v.Field(i), depth+1, nonZero)
			}
		}
	}
}
