package refsem

import (
	"regexp"
	"strings"
)

// RFC 3986 reference resolution (§5.2), written from the RFC and independent of net/url.

type URI struct {
	Scheme, Authority, Path, Query, Fragment       string
	HasScheme, HasAuthority, HasQuery, HasFragment bool
}

var uriRE = regexp.MustCompile(`^(([^:/?#]+):)?(//([^/?#]*))?([^?#]*)(\?([^#]*))?(#(.*))?$`)

func ParseURI(s string) URI {
	m := uriRE.FindStringSubmatch(s)
	if m == nil {
		return URI{Path: s}
	}
	return URI{
		Scheme: m[2], HasScheme: m[1] != "",
		Authority: m[4], HasAuthority: m[3] != "",
		Path:  m[5],
		Query: m[7], HasQuery: m[6] != "",
		Fragment: m[9], HasFragment: m[8] != "",
	}
}

func (u URI) String() string {
	var sb strings.Builder
	if u.HasScheme {
		sb.WriteString(u.Scheme + ":")
	}
	if u.HasAuthority {
		sb.WriteString("//" + u.Authority)
	}
	sb.WriteString(u.Path)
	if u.HasQuery {
		sb.WriteString("?" + u.Query)
	}
	if u.HasFragment {
		sb.WriteString("#" + u.Fragment)
	}
	return sb.String()
}

func (u URI) IsAbs() bool { return u.HasScheme }

func (u URI) WithoutFragment() URI {
	u.Fragment, u.HasFragment = "", false
	return u
}

func removeDotSegments(in string) string {
	var out []string // output segments, each starting with "/" except possibly the first
	for len(in) > 0 {
		switch {
		case strings.HasPrefix(in, "../"):
			in = in[3:]
		case strings.HasPrefix(in, "./"):
			in = in[2:]
		case strings.HasPrefix(in, "/./"):
			in = in[2:]
		case in == "/.":
			in = "/"
		case strings.HasPrefix(in, "/../"):
			in = in[3:]
			if len(out) > 0 {
				out = out[:len(out)-1]
			}
		case in == "/..":
			in = "/"
			if len(out) > 0 {
				out = out[:len(out)-1]
			}
		case in == "." || in == "..":
			in = ""
		default:
			// move the first path segment (including initial "/" if any) to the output
			i := 0
			if in[0] == '/' {
				i = 1
			}
			j := strings.IndexByte(in[i:], '/')
			if j < 0 {
				out = append(out, in)
				in = ""
			} else {
				out = append(out, in[:i+j])
				in = in[i+j:]
			}
		}
	}
	return strings.Join(out, "")
}

func mergePaths(base URI, ref string) string {
	if base.HasAuthority && base.Path == "" {
		return "/" + ref
	}
	i := strings.LastIndexByte(base.Path, '/')
	if i < 0 {
		return ref
	}
	return base.Path[:i+1] + ref
}

// Resolve implements RFC 3986 §5.2.2 (strict).
func Resolve(base, r URI) URI {
	var t URI
	if r.HasScheme {
		t.Scheme, t.HasScheme = r.Scheme, true
		t.Authority, t.HasAuthority = r.Authority, r.HasAuthority
		t.Path = removeDotSegments(r.Path)
		t.Query, t.HasQuery = r.Query, r.HasQuery
	} else {
		if r.HasAuthority {
			t.Authority, t.HasAuthority = r.Authority, true
			t.Path = removeDotSegments(r.Path)
			t.Query, t.HasQuery = r.Query, r.HasQuery
		} else {
			if r.Path == "" {
				t.Path = base.Path
				if r.HasQuery {
					t.Query, t.HasQuery = r.Query, true
				} else {
					t.Query, t.HasQuery = base.Query, base.HasQuery
				}
			} else {
				if strings.HasPrefix(r.Path, "/") {
					t.Path = removeDotSegments(r.Path)
				} else {
					t.Path = removeDotSegments(mergePaths(base, r.Path))
				}
				t.Query, t.HasQuery = r.Query, r.HasQuery
			}
			t.Authority, t.HasAuthority = base.Authority, base.HasAuthority
		}
		t.Scheme, t.HasScheme = base.Scheme, base.HasScheme
	}
	t.Fragment, t.HasFragment = r.Fragment, r.HasFragment
	return t
}

// PercentDecode decodes %XX escapes (used for URI fragments holding JSON Pointers).
func PercentDecode(s string) (string, bool) {
	if !strings.Contains(s, "%") {
		return s, true
	}
	var sb strings.Builder
	for i := 0; i < len(s); i++ {
		if s[i] != '%' {
			sb.WriteByte(s[i])
			continue
		}
		if i+2 >= len(s) {
			return "", false
		}
		h, ok1 := unhex(s[i+1])
		l, ok2 := unhex(s[i+2])
		if !ok1 || !ok2 {
			return "", false
		}
		sb.WriteByte(h<<4 | l)
		i += 2
	}
	return sb.String(), true
}

func unhex(c byte) (byte, bool) {
	switch {
	case c >= '0' && c <= '9':
		return c - '0', true
	case c >= 'a' && c <= 'f':
		return c - 'a' + 10, true
	case c >= 'A' && c <= 'F':
		return c - 'A' + 10, true
	}
	return 0, false
}
