package refsem

import (
	"encoding/json"
	"fmt"
	"math/big"
	"regexp"
	"sort"

	"verif/engine/smt"
	"verif/engine/sx"
)

// Oracle evaluates the validity relation of draft 2020-12 / draft-07 on a symbolic
// instance, producing terms. Documented deviations of the package are built in:
// format and content* never assert, patterns are Go regular expressions.
type Oracle struct {
	M   *sx.Machine
	C   *smt.Ctx
	R   *Resolver
	err error

	stack map[string]bool
	depth int

	// Params overrides numeric keyword values by terms: key = schema pointer + "|" + keyword.
	Params map[string]*smt.Term
}

// Result is the outcome of evaluating one schema at one instance location.
type Result struct {
	OK       *smt.Term
	Props    []*smt.Term // per key of inst.Keys(): evaluated by this schema or in-place subschemas
	AllProps *smt.Term
	Items    []*smt.Term // per index < inst.MaxLen()
	AllItems *smt.Term
}

func NewOracle(m *sx.Machine, r *Resolver) *Oracle {
	return &Oracle{M: m, C: m.Ctx, R: r, stack: map[string]bool{}}
}

// Err reports a schema the oracle cannot evaluate (outside the families' grammar).
func (o *Oracle) Err() error { return o.err }

func (o *Oracle) fail(format string, args ...any) {
	if o.err == nil {
		o.err = fmt.Errorf(format, args...)
	}
}

func (o *Oracle) empty(inst Inst, ok *smt.Term) Result {
	c := o.C
	r := Result{OK: ok, AllProps: c.False, AllItems: c.False}
	for range inst.Keys() {
		r.Props = append(r.Props, c.False)
	}
	for i := 0; i < inst.MaxLen(); i++ {
		r.Items = append(r.Items, c.False)
	}
	return r
}

// absorb merges the annotations of sub (already gated by its own success) into acc.
func (o *Oracle) absorb(acc *Result, sub Result) {
	c := o.C
	for i := range acc.Props {
		acc.Props[i] = c.Or(acc.Props[i], sub.Props[i])
	}
	for i := range acc.Items {
		acc.Items[i] = c.Or(acc.Items[i], sub.Items[i])
	}
	acc.AllProps = c.Or(acc.AllProps, sub.AllProps)
	acc.AllItems = c.Or(acc.AllItems, sub.AllItems)
}

// gate returns r with annotations kept only where cond holds.
func (o *Oracle) gate(r Result, cond *smt.Term) Result {
	c := o.C
	g := Result{OK: r.OK, AllProps: c.And(cond, r.AllProps), AllItems: c.And(cond, r.AllItems)}
	for _, p := range r.Props {
		g.Props = append(g.Props, c.And(cond, p))
	}
	for _, p := range r.Items {
		g.Items = append(g.Items, c.And(cond, p))
	}
	return g
}

// Valid returns the validity term of the root schema on inst.
func (o *Oracle) Valid(inst Inst) *smt.Term {
	return o.Eval(o.R.RootDoc.LocAt(""), inst, nil).OK
}

func ratOf(v any) (*big.Rat, bool) {
	switch x := v.(type) {
	case json.Number:
		r, ok := new(big.Rat).SetString(string(x))
		return r, ok
	case float64:
		r := new(big.Rat).SetFloat64(x)
		return r, r != nil
	case *big.Rat:
		return x, true
	}
	return nil, false
}

func intOf(v any) (int64, bool) {
	r, ok := ratOf(v)
	if !ok || !r.IsInt() || !r.Num().IsInt64() {
		return 0, false
	}
	return r.Num().Int64(), true
}

var tagOfTypeName = map[string]int{"null": sx.TagNull, "boolean": sx.TagBool, "number": sx.TagNumber, "string": sx.TagString, "array": sx.TagArray, "object": sx.TagObject}

func (o *Oracle) typeTerm(inst Inst, name string) *smt.Term {
	c := o.C
	if name == "integer" {
		return c.And(inst.TagIs(sx.TagNumber), inst.NumIsInt())
	}
	t, ok := tagOfTypeName[name]
	if !ok {
		return c.False
	}
	return inst.TagIs(t)
}

// EqConst is O-eq between a constant JSON value and an instance.
func (o *Oracle) EqConst(v any, inst Inst) *smt.Term {
	c := o.C
	switch x := v.(type) {
	case nil:
		return inst.TagIs(sx.TagNull)
	case bool:
		return c.And(inst.TagIs(sx.TagBool), c.Eq(inst.Bool(), c.Bool(x)))
	case json.Number, float64, *big.Rat:
		r, ok := ratOf(x)
		if !ok {
			o.fail("unrepresentable number constant %v", x)
			return c.False
		}
		return c.And(inst.TagIs(sx.TagNumber), c.Eq(inst.NumReal(), c.Rat(r)))
	case string:
		return c.And(inst.TagIs(sx.TagString), o.strEq(inst, x))
	case []any:
		if len(x) > inst.MaxLen() {
			return c.False
		}
		cs := []*smt.Term{inst.TagIs(sx.TagArray), c.Eq(inst.Len(), c.Int(int64(len(x))))}
		for i, e := range x {
			cs = append(cs, o.EqConst(e, inst.Elem(i)))
		}
		return c.And(cs...)
	case map[string]any:
		keys := inst.Keys()
		inPool := map[string]bool{}
		for _, k := range keys {
			inPool[k] = true
		}
		for k := range x {
			if !inPool[k] {
				return c.False
			}
		}
		cs := []*smt.Term{inst.TagIs(sx.TagObject)}
		for i, k := range keys {
			if e, ok := x[k]; ok {
				cs = append(cs, inst.Has(i), o.EqConst(e, inst.Val(i)))
			} else {
				cs = append(cs, c.Not(inst.Has(i)))
			}
		}
		return c.And(cs...)
	}
	o.fail("unsupported constant %T", v)
	return c.False
}

// EqInst is O-eq between two instances (JSON value equality, representations ignored).
func (o *Oracle) EqInst(a, b Inst) *smt.Term {
	c := o.C
	var alts []*smt.Term
	alts = append(alts, c.And(a.TagIs(sx.TagNull), b.TagIs(sx.TagNull)))
	alts = append(alts, c.And(a.TagIs(sx.TagBool), b.TagIs(sx.TagBool), c.Eq(a.Bool(), b.Bool())))
	alts = append(alts, c.And(a.TagIs(sx.TagNumber), b.TagIs(sx.TagNumber), c.Eq(a.NumReal(), b.NumReal())))
	{
		var se *smt.Term
		sa, oka := a.ConstStr()
		sb, okb := b.ConstStr()
		switch {
		case oka && okb:
			se = c.Bool(sa == sb)
		case oka:
			se = o.strEq(b, sa)
		case okb:
			se = o.strEq(a, sb)
		default:
			se = c.Eq(a.Str(), b.Str())
		}
		alts = append(alts, c.And(a.TagIs(sx.TagString), b.TagIs(sx.TagString), se))
	}
	// arrays
	{
		cs := []*smt.Term{a.TagIs(sx.TagArray), b.TagIs(sx.TagArray), c.Eq(a.Len(), b.Len())}
		n := a.MaxLen()
		if b.MaxLen() < n {
			n = b.MaxLen()
		}
		for i := 0; i < n; i++ {
			cs = append(cs, c.Implies(c.Lt(c.Int(int64(i)), a.Len()), o.EqInst(a.Elem(i), b.Elem(i))))
		}
		alts = append(alts, c.And(cs...))
	}
	// objects
	{
		cs := []*smt.Term{a.TagIs(sx.TagObject), b.TagIs(sx.TagObject)}
		ka, kb := a.Keys(), b.Keys()
		idx := map[string]int{}
		for i, k := range kb {
			idx[k] = i
		}
		used := map[string]bool{}
		for i, k := range ka {
			j, ok := idx[k]
			if !ok {
				cs = append(cs, c.Not(a.Has(i)))
				continue
			}
			used[k] = true
			cs = append(cs, c.Eq(a.Has(i), b.Has(j)), c.Implies(a.Has(i), o.EqInst(a.Val(i), b.Val(j))))
		}
		for j, k := range kb {
			if !used[k] {
				cs = append(cs, c.Not(b.Has(j)))
			}
		}
		alts = append(alts, c.And(cs...))
	}
	return c.Or(alts...)
}

func (o *Oracle) strEq(inst Inst, s string) *smt.Term {
	if cs, ok := inst.ConstStr(); ok {
		return o.C.Bool(cs == s)
	}
	return o.C.Eq(inst.Str(), o.M.StrConst(s))
}

func (o *Oracle) strRunes(inst Inst) *smt.Term {
	if cs, ok := inst.ConstStr(); ok {
		n := 0
		for range cs {
			n++
		}
		return o.C.Int(int64(n))
	}
	return o.M.StrRunes(inst.Str())
}

func (o *Oracle) strMatch(inst Inst, re *regexp.Regexp) *smt.Term {
	if cs, ok := inst.ConstStr(); ok {
		return o.C.Bool(re.MatchString(cs))
	}
	return o.M.MatchTerm(re, inst.Str())
}

func (o *Oracle) regex(p string) *regexp.Regexp {
	re, err := regexp.Compile(p)
	if err != nil {
		o.fail("pattern %q: %v", p, err)
		return regexp.MustCompile("$^")
	}
	return re
}

// Eval evaluates the schema at loc on inst. dyn is the dynamic scope (resources
// entered, outermost first).
func (o *Oracle) Eval(loc *Loc, inst Inst, dyn []*Resource) Result {
	c := o.C
	if loc == nil {
		o.fail("nil schema location")
		return o.empty(inst, c.False)
	}
	if b, ok := loc.V.(bool); ok {
		return o.empty(inst, c.Bool(b))
	}
	key := loc.String() + "@" + inst.ID()
	if o.stack[key] {
		o.fail("schema recursion without instance descent at %s", key)
		return o.empty(inst, c.False)
	}
	o.stack[key] = true
	defer delete(o.stack, key)

	if len(dyn) == 0 || dyn[len(dyn)-1] != loc.Res {
		dyn = append(dyn[:len(dyn):len(dyn)], loc.Res)
	}
	m := loc.V.(map[string]any)
	d7 := o.R.Draft == Draft7
	acc := o.empty(inst, c.True)
	var oks []*smt.Term
	need := func(t *smt.Term) { oks = append(oks, t) }
	// inPlace evaluates an in-place applicator subschema: its success is returned, its
	// annotations are absorbed where cond ∧ success holds.
	inPlace := func(sub Result, cond *smt.Term) {
		o.absorb(&acc, o.gate(sub, c.And(cond, sub.OK)))
	}

	// $ref
	if ref, ok := m["$ref"].(string); ok && ref != "" {
		t, _, err := o.R.ResolveRef(loc, ref)
		if err != nil {
			o.fail("%s: $ref %q: %v", loc, ref, err)
			return o.empty(inst, c.False)
		}
		sub := o.Eval(t, inst, dyn)
		if d7 {
			// draft-07: all other keywords beside $ref are ignored
			return o.gate(sub, sub.OK)
		}
		need(sub.OK)
		inPlace(sub, c.True)
	}

	// type
	switch t := m["type"].(type) {
	case string:
		if t == "number" {
			need(inst.TagIs(sx.TagNumber))
		} else {
			need(o.typeTerm(inst, t))
		}
	case []any:
		var alts []*smt.Term
		for _, e := range t {
			if s, ok := e.(string); ok {
				alts = append(alts, o.typeTerm(inst, s))
			}
		}
		need(c.Or(alts...))
	}
	// enum / const
	if e, ok := m["enum"].([]any); ok {
		var alts []*smt.Term
		for _, v := range e {
			alts = append(alts, o.EqConst(v, inst))
		}
		need(c.Or(alts...))
	}
	if v, ok := m["const"]; ok {
		need(o.EqConst(v, inst))
	}
	// numeric
	isNum := inst.TagIs(sx.TagNumber)
	numKw := func(kw string, f func(x, b *smt.Term) *smt.Term) {
		if v, ok := m[kw]; ok {
			if pt, ok := o.Params[loc.Ptr+"|"+kw]; ok {
				need(c.Implies(isNum, f(inst.NumReal(), pt)))
				return
			}
			r, ok := ratOf(v)
			if !ok {
				o.fail("%s: %s is not a number", loc, kw)
				return
			}
			need(c.Implies(isNum, f(inst.NumReal(), c.Rat(r))))
		}
	}
	// intParam returns the (possibly symbolic) integer parameter of keyword kw.
	intParam := func(kw string, v any) (*smt.Term, bool) {
		if pt, ok := o.Params[loc.Ptr+"|"+kw]; ok {
			return pt, true
		}
		n, ok := intOf(v)
		if !ok {
			return nil, false
		}
		return c.Int(n), true
	}
	numKw("minimum", func(x, b *smt.Term) *smt.Term { return c.Le(b, x) })
	numKw("maximum", func(x, b *smt.Term) *smt.Term { return c.Le(x, b) })
	numKw("exclusiveMinimum", func(x, b *smt.Term) *smt.Term { return c.Lt(b, x) })
	numKw("exclusiveMaximum", func(x, b *smt.Term) *smt.Term { return c.Lt(x, b) })
	if v, ok := m["multipleOf"]; ok {
		r, ok := ratOf(v)
		if !ok || r.Sign() <= 0 {
			o.fail("%s: multipleOf must be a positive number", loc)
		} else {
			need(c.Implies(isNum, inst.QuotIsInt(r)))
		}
	}
	// strings
	isStr := inst.TagIs(sx.TagString)
	if v, ok := m["minLength"]; ok {
		if n, ok := intParam("minLength", v); ok {
			need(c.Implies(isStr, c.Le(n, o.strRunes(inst))))
		} else {
			o.fail("%s: minLength not an integer", loc)
		}
	}
	if v, ok := m["maxLength"]; ok {
		if n, ok := intParam("maxLength", v); ok {
			need(c.Implies(isStr, c.Le(o.strRunes(inst), n)))
		} else {
			o.fail("%s: maxLength not an integer", loc)
		}
	}
	if p, ok := m["pattern"].(string); ok {
		need(c.Implies(isStr, o.strMatch(inst, o.regex(p))))
	}

	// $dynamicRef (2020-12)
	if ref, ok := m["$dynamicRef"].(string); ok && ref != "" && !d7 {
		t, dynName, err := o.R.ResolveRef(loc, ref)
		if err != nil {
			o.fail("%s: $dynamicRef %q: %v", loc, ref, err)
			return o.empty(inst, c.False)
		}
		if dynName != "" {
			// the initially resolved target is a dynamic anchor: search the dynamic scope, outermost first
			for _, res := range dyn {
				if l, ok := res.DynAnchors[dynName]; ok {
					t = l
					break
				}
			}
		}
		sub := o.Eval(t, inst, dyn)
		need(sub.OK)
		inPlace(sub, c.True)
	}

	// in-place applicators
	subAt := func(kw string) *Loc { return loc.Doc.LocAt(loc.Ptr + "/" + escapeSeg(kw)) }
	subAtIdx := func(kw string, i int) *Loc { return loc.Doc.LocAt(fmt.Sprintf("%s/%s/%d", loc.Ptr, escapeSeg(kw), i)) }
	subAtKey := func(kw, k string) *Loc { return loc.Doc.LocAt(loc.Ptr + "/" + escapeSeg(kw) + "/" + escapeSeg(k)) }

	if a, ok := m["allOf"].([]any); ok {
		for i := range a {
			sub := o.Eval(subAtIdx("allOf", i), inst, dyn)
			need(sub.OK)
			inPlace(sub, c.True)
		}
	}
	if a, ok := m["anyOf"].([]any); ok {
		var alts []*smt.Term
		for i := range a {
			sub := o.Eval(subAtIdx("anyOf", i), inst, dyn)
			alts = append(alts, sub.OK)
			inPlace(sub, c.True)
		}
		need(c.Or(alts...))
	}
	if a, ok := m["oneOf"].([]any); ok {
		var subs []Result
		for i := range a {
			subs = append(subs, o.Eval(subAtIdx("oneOf", i), inst, dyn))
		}
		var exactly []*smt.Term
		for i := range subs {
			cs := []*smt.Term{subs[i].OK}
			for j := range subs {
				if j != i {
					cs = append(cs, c.Not(subs[j].OK))
				}
			}
			exactly = append(exactly, c.And(cs...))
		}
		need(c.Or(exactly...))
		for i := range subs {
			inPlace(subs[i], c.True)
		}
	}
	if _, ok := m["not"]; ok && isSchemaValue(m["not"]) {
		sub := o.Eval(subAt("not"), inst, dyn)
		need(c.Not(sub.OK))
	}
	if _, ok := m["if"]; ok && isSchemaValue(m["if"]) {
		ifr := o.Eval(subAt("if"), inst, dyn)
		inPlace(ifr, c.True)
		if _, ok := m["then"]; ok && isSchemaValue(m["then"]) {
			th := o.Eval(subAt("then"), inst, dyn)
			need(c.Implies(ifr.OK, th.OK))
			inPlace(th, ifr.OK)
		}
		if _, ok := m["else"]; ok && isSchemaValue(m["else"]) {
			el := o.Eval(subAt("else"), inst, dyn)
			need(c.Implies(c.Not(ifr.OK), el.OK))
			inPlace(el, c.Not(ifr.OK))
		}
	}

	// ---- arrays
	isArr := inst.TagIs(sx.TagArray)
	n := inst.MaxLen()
	inArr := func(i int) *smt.Term { return c.And(isArr, c.Lt(c.Int(int64(i)), inst.Len())) }
	// own item annotations
	ownItems := make([]*smt.Term, n)
	for i := range ownItems {
		ownItems[i] = c.False
	}
	ownAll := c.False
	prefixLen := 0
	if d7 {
		switch it := m["items"].(type) {
		case []any:
			prefixLen = len(it)
			for i := 0; i < len(it) && i < n; i++ {
				sub := o.Eval(subAtIdx("items", i), inst.Elem(i), dyn)
				need(c.Implies(inArr(i), sub.OK))
				ownItems[i] = c.True
			}
			if _, ok := m["additionalItems"]; ok && isSchemaValue(m["additionalItems"]) {
				for i := prefixLen; i < n; i++ {
					sub := o.Eval(subAt("additionalItems"), inst.Elem(i), dyn)
					need(c.Implies(inArr(i), sub.OK))
				}
				ownAll = c.True
			}
		case map[string]any, bool:
			for i := 0; i < n; i++ {
				sub := o.Eval(subAt("items"), inst.Elem(i), dyn)
				need(c.Implies(inArr(i), sub.OK))
			}
			ownAll = c.True
		}
	} else {
		if a, ok := m["prefixItems"].([]any); ok {
			prefixLen = len(a)
			for i := 0; i < len(a) && i < n; i++ {
				sub := o.Eval(subAtIdx("prefixItems", i), inst.Elem(i), dyn)
				need(c.Implies(inArr(i), sub.OK))
				ownItems[i] = c.True
			}
		}
		if _, ok := m["items"]; ok && isSchemaValue(m["items"]) {
			for i := prefixLen; i < n; i++ {
				sub := o.Eval(subAt("items"), inst.Elem(i), dyn)
				need(c.Implies(inArr(i), sub.OK))
			}
			ownAll = c.True
		}
	}
	if _, ok := m["contains"]; ok && isSchemaValue(m["contains"]) {
		var cnt []*smt.Term
		for i := 0; i < n; i++ {
			sub := o.Eval(subAt("contains"), inst.Elem(i), dyn)
			hit := c.And(inArr(i), sub.OK)
			cnt = append(cnt, c.Ite(hit, c.Int(1), c.Int(0)))
			ownItems[i] = c.Or(ownItems[i], hit)
		}
		count := c.Int(0)
		if len(cnt) > 0 {
			count = c.Add(cnt...)
		}
		minC := c.Int(1)
		if v, ok := m["minContains"]; ok && !d7 {
			if k, ok := intParam("minContains", v); ok {
				minC = k
			} else {
				o.fail("%s: minContains not an integer", loc)
			}
		}
		need(c.Implies(isArr, c.Le(minC, count)))
		if v, ok := m["maxContains"]; ok && !d7 {
			if k, ok := intParam("maxContains", v); ok {
				need(c.Implies(isArr, c.Le(count, k)))
			} else {
				o.fail("%s: maxContains not an integer", loc)
			}
		}
	}
	if v, ok := m["minItems"]; ok {
		if k, ok := intParam("minItems", v); ok {
			need(c.Implies(isArr, c.Le(k, inst.Len())))
		} else {
			o.fail("%s: minItems not an integer", loc)
		}
	}
	if v, ok := m["maxItems"]; ok {
		if k, ok := intParam("maxItems", v); ok {
			need(c.Implies(isArr, c.Le(inst.Len(), k)))
		} else {
			o.fail("%s: maxItems not an integer", loc)
		}
	}
	if b, ok := m["uniqueItems"].(bool); ok && b {
		for i := 0; i < n; i++ {
			for j := i + 1; j < n; j++ {
				need(c.Implies(inArr(j), c.Not(o.EqInst(inst.Elem(i), inst.Elem(j)))))
			}
		}
	}
	for i := range ownItems {
		acc.Items[i] = c.Or(acc.Items[i], ownItems[i])
	}
	acc.AllItems = c.Or(acc.AllItems, ownAll)
	if _, ok := m["unevaluatedItems"]; ok && isSchemaValue(m["unevaluatedItems"]) && !d7 {
		for i := 0; i < n; i++ {
			sub := o.Eval(subAt("unevaluatedItems"), inst.Elem(i), dyn)
			need(c.Implies(c.And(inArr(i), c.Not(acc.AllItems), c.Not(acc.Items[i])), sub.OK))
		}
		acc.AllItems = c.True
	}

	// ---- objects
	isObj := inst.TagIs(sx.TagObject)
	keys := inst.Keys()
	has := func(k int) *smt.Term { return c.And(isObj, inst.Has(k)) }
	ownProps := make([]*smt.Term, len(keys))
	for i := range ownProps {
		ownProps[i] = c.False
	}
	keyIdx := map[string]int{}
	for i, k := range keys {
		keyIdx[k] = i
	}
	props, _ := m["properties"].(map[string]any)
	for _, name := range sortedKeys(props) {
		if k, ok := keyIdx[name]; ok {
			sub := o.Eval(subAtKey("properties", name), inst.Val(k), dyn)
			need(c.Implies(has(k), sub.OK))
			ownProps[k] = c.True
		}
	}
	pprops, _ := m["patternProperties"].(map[string]any)
	for _, pat := range sortedKeys(pprops) {
		re := o.regex(pat)
		for k, name := range keys {
			if re.MatchString(name) {
				sub := o.Eval(subAtKey("patternProperties", pat), inst.Val(k), dyn)
				need(c.Implies(has(k), sub.OK))
				ownProps[k] = c.True
			}
		}
	}
	if _, ok := m["additionalProperties"]; ok && isSchemaValue(m["additionalProperties"]) {
		for k := range keys {
			if ownProps[k].IsTrue() {
				continue
			}
			sub := o.Eval(subAt("additionalProperties"), inst.Val(k), dyn)
			need(c.Implies(has(k), sub.OK))
			ownProps[k] = c.True
		}
	}
	if _, ok := m["propertyNames"]; ok && isSchemaValue(m["propertyNames"]) {
		for k, name := range keys {
			sub := o.Eval(subAt("propertyNames"), StrInst{o.M, name}, dyn)
			need(c.Implies(has(k), sub.OK))
		}
	}
	if v, ok := m["minProperties"]; ok {
		if k, ok := intParam("minProperties", v); ok {
			need(c.Implies(isObj, c.Le(k, inst.Count())))
		} else {
			o.fail("%s: minProperties not an integer", loc)
		}
	}
	if v, ok := m["maxProperties"]; ok {
		if k, ok := intParam("maxProperties", v); ok {
			need(c.Implies(isObj, c.Le(inst.Count(), k)))
		} else {
			o.fail("%s: maxProperties not an integer", loc)
		}
	}
	hasName := func(name string) *smt.Term {
		if k, ok := keyIdx[name]; ok {
			return inst.Has(k)
		}
		return c.False
	}
	if req, ok := m["required"].([]any); ok {
		for _, r := range req {
			if s, ok := r.(string); ok {
				need(c.Implies(isObj, hasName(s)))
			}
		}
	}
	if d7 {
		deps, _ := m["dependencies"].(map[string]any)
		for _, name := range sortedKeys(deps) {
			trig := c.And(isObj, hasName(name))
			switch dv := deps[name].(type) {
			case []any:
				for _, r := range dv {
					if s, ok := r.(string); ok {
						need(c.Implies(trig, hasName(s)))
					}
				}
			case map[string]any, bool:
				sub := o.Eval(subAtKey("dependencies", name), inst, dyn)
				need(c.Implies(trig, sub.OK))
				inPlace(sub, trig)
			}
		}
	} else {
		dr, _ := m["dependentRequired"].(map[string]any)
		for _, name := range sortedKeys(dr) {
			trig := c.And(isObj, hasName(name))
			if lst, ok := dr[name].([]any); ok {
				for _, r := range lst {
					if s, ok := r.(string); ok {
						need(c.Implies(trig, hasName(s)))
					}
				}
			}
		}
		ds, _ := m["dependentSchemas"].(map[string]any)
		for _, name := range sortedKeys(ds) {
			trig := c.And(isObj, hasName(name))
			sub := o.Eval(subAtKey("dependentSchemas", name), inst, dyn)
			need(c.Implies(trig, sub.OK))
			inPlace(sub, trig)
		}
	}
	for k := range ownProps {
		acc.Props[k] = c.Or(acc.Props[k], ownProps[k])
	}
	if _, ok := m["unevaluatedProperties"]; ok && isSchemaValue(m["unevaluatedProperties"]) && !d7 {
		for k := range keys {
			sub := o.Eval(subAt("unevaluatedProperties"), inst.Val(k), dyn)
			need(c.Implies(c.And(has(k), c.Not(acc.AllProps), c.Not(acc.Props[k])), sub.OK))
		}
		acc.AllProps = c.True
	}

	acc.OK = c.And(oks...)
	return o.gate(acc, acc.OK)
}

var _ = sort.Strings
