package refsem

import (
	"bytes"
	"encoding/json"
	"fmt"
	"sort"
	"strconv"
	"strings"
)

// O-ref: an independent resolver over schema documents. It assigns base URIs by
// lexical scope, scopes anchors to their resource, resolves references with its own
// RFC 3986 code and evaluates JSON Pointers per RFC 6901 on the JSON document.

const (
	Draft2020 = 2020
	Draft7    = 7
)

type DocInfo struct {
	Retrieval string
	Root      any
	Draft     int
	locs      map[string]*Loc // by absolute pointer within the document
}

// Loc is a schema location: a JSON value in subschema position.
type Loc struct {
	Doc *DocInfo
	Ptr string
	V   any       // map[string]any or bool
	Res *Resource // enclosing schema resource
}

func (l *Loc) String() string { return l.Doc.Retrieval + "#" + l.Ptr }

type Resource struct {
	URI        URI
	Root       *Loc
	Anchors    map[string]*Loc
	DynAnchors map[string]*Loc
}

type Resolver struct {
	Draft     int
	Docs      map[string]*DocInfo             // by retrieval URI
	Resources map[string]*Resource            // by URI without fragment
	Load      func(uri string) ([]byte, bool) // loader universe: retrieval URI -> document text
	LoadCount map[string]int
	// LoadFail lists URIs for which the loader returns an error.
	LoadFail map[string]bool
	RootDoc  *DocInfo
}

// ParseJSON decodes a document keeping numbers exact (json.Number).
func ParseJSON(data []byte) (any, error) {
	dec := json.NewDecoder(bytes.NewReader(data))
	dec.UseNumber()
	var v any
	if err := dec.Decode(&v); err != nil {
		return nil, err
	}
	return v, nil
}

// Keyword tables per draft: which keywords hold subschemas and how.
var (
	single2020 = []string{"additionalProperties", "propertyNames", "unevaluatedProperties", "unevaluatedItems", "contains", "items", "not", "if", "then", "else", "contentSchema"}
	arrays2020 = []string{"prefixItems", "allOf", "anyOf", "oneOf"}
	maps2020   = []string{"properties", "patternProperties", "$defs", "dependentSchemas"}
	single07   = []string{"additionalProperties", "propertyNames", "contains", "additionalItems", "not", "if", "then", "else"}
	arrays07   = []string{"allOf", "anyOf", "oneOf"}
	maps07     = []string{"properties", "patternProperties", "definitions"}
)

func isSchemaValue(v any) bool {
	switch v.(type) {
	case map[string]any, bool:
		return true
	}
	return false
}

func escapeSeg(s string) string {
	return strings.ReplaceAll(strings.ReplaceAll(s, "~", "~0"), "/", "~1")
}

// DetectDraft reads the $schema of a root document.
func DetectDraft(root any, def int) int {
	if m, ok := root.(map[string]any); ok {
		if s, ok := m["$schema"].(string); ok {
			switch s {
			case "http://json-schema.org/draft-07/schema#", "https://json-schema.org/draft-07/schema#":
				return Draft7
			case "https://json-schema.org/draft/2020-12/schema":
				return Draft2020
			}
		}
	}
	return def
}

// NewResolver indexes the root document retrieved from baseURI ("" for none).
func NewResolver(rootText []byte, baseURI string, load func(uri string) ([]byte, bool), defaultDraft int) (*Resolver, error) {
	root, err := ParseJSON(rootText)
	if err != nil {
		return nil, err
	}
	r := &Resolver{Docs: map[string]*DocInfo{}, Resources: map[string]*Resource{}, Load: load, LoadCount: map[string]int{}, LoadFail: map[string]bool{}}
	r.Draft = DetectDraft(root, defaultDraft)
	d, err := r.addDoc(baseURI, root)
	if err != nil {
		return nil, err
	}
	r.RootDoc = d
	return r, nil
}

func (r *Resolver) addDoc(retrieval string, root any) (*DocInfo, error) {
	d := &DocInfo{Retrieval: retrieval, Root: root, Draft: r.Draft, locs: map[string]*Loc{}}
	r.Docs[retrieval] = d
	base := ParseURI(retrieval)
	res := &Resource{URI: base, Anchors: map[string]*Loc{}, DynAnchors: map[string]*Loc{}}
	if _, dup := r.Resources[base.String()]; !dup {
		r.Resources[base.String()] = res
	}
	if err := r.walk(d, root, "", res, true); err != nil {
		return nil, err
	}
	return d, nil
}

func (r *Resolver) walk(d *DocInfo, v any, ptr string, res *Resource, isDocRoot bool) error {
	loc := &Loc{Doc: d, Ptr: ptr, V: v, Res: res}
	d.locs[ptr] = loc
	m, ok := v.(map[string]any)
	if !ok {
		if _, isBool := v.(bool); !isBool {
			return fmt.Errorf("%s: not a schema", loc)
		}
		if isDocRoot {
			res.Root = loc
		}
		return nil
	}
	if isDocRoot {
		res.Root = loc
	}
	if id, ok := m["$id"].(string); ok && id != "" {
		_, hasRef := m["$ref"]
		ignore := r.Draft == Draft7 && hasRef
		if !ignore {
			u := ParseURI(id)
			switch {
			case r.Draft == Draft2020 && u.HasFragment && u.Fragment != "":
				return fmt.Errorf("%s: $id with fragment", loc)
			case r.Draft == Draft7 && u.HasFragment && u.Fragment != "":
				name := strings.TrimPrefix(id, "#")
				if _, dup := res.Anchors[name]; dup {
					return fmt.Errorf("%s: duplicate anchor %q", loc, name)
				}
				res.Anchors[name] = loc
			default:
				nu := Resolve(res.URI, u).WithoutFragment()
				if !nu.IsAbs() {
					return fmt.Errorf("%s: $id %q does not resolve to an absolute URI", loc, id)
				}
				nres := &Resource{URI: nu, Root: loc, Anchors: map[string]*Loc{}, DynAnchors: map[string]*Loc{}}
				if isDocRoot {
					// the root keeps its retrieval-URI alias; anchors live on one resource object
					nres.Anchors, nres.DynAnchors = res.Anchors, res.DynAnchors
				}
				r.Resources[nu.String()] = nres
				if isDocRoot {
					// both names denote the same resource
					r.Resources[res.URI.String()] = nres
				}
				res = nres
				loc.Res = res
			}
		}
	}
	if r.Draft == Draft2020 {
		if a, ok := m["$anchor"].(string); ok && a != "" {
			if _, dup := res.Anchors[a]; dup {
				return fmt.Errorf("%s: duplicate anchor %q", loc, a)
			}
			if _, dup := res.DynAnchors[a]; dup {
				return fmt.Errorf("%s: duplicate anchor %q", loc, a)
			}
			res.Anchors[a] = loc
		}
		if a, ok := m["$dynamicAnchor"].(string); ok && a != "" {
			if _, dup := res.Anchors[a]; dup {
				return fmt.Errorf("%s: duplicate anchor %q", loc, a)
			}
			if _, dup := res.DynAnchors[a]; dup {
				return fmt.Errorf("%s: duplicate anchor %q", loc, a)
			}
			res.DynAnchors[a] = loc
		}
	}
	single, arrays, maps := single2020, arrays2020, maps2020
	if r.Draft == Draft7 {
		single, arrays, maps = single07, arrays07, maps07
	}
	for _, k := range single {
		if c, ok := m[k]; ok && isSchemaValue(c) {
			if err := r.walk(d, c, ptr+"/"+escapeSeg(k), res, false); err != nil {
				return err
			}
		}
	}
	for _, k := range arrays {
		if a, ok := m[k].([]any); ok {
			for i, c := range a {
				if err := r.walk(d, c, ptr+"/"+escapeSeg(k)+"/"+strconv.Itoa(i), res, false); err != nil {
					return err
				}
			}
		}
	}
	for _, k := range maps {
		if mm, ok := m[k].(map[string]any); ok {
			for _, name := range sortedKeys(mm) {
				if err := r.walk(d, mm[name], ptr+"/"+escapeSeg(k)+"/"+escapeSeg(name), res, false); err != nil {
					return err
				}
			}
		}
	}
	if r.Draft == Draft7 {
		switch it := m["items"].(type) {
		case []any:
			for i, c := range it {
				if err := r.walk(d, c, ptr+"/items/"+strconv.Itoa(i), res, false); err != nil {
					return err
				}
			}
		case map[string]any, bool:
			if err := r.walk(d, it, ptr+"/items", res, false); err != nil {
				return err
			}
		}
		if deps, ok := m["dependencies"].(map[string]any); ok {
			for _, name := range sortedKeys(deps) {
				if isSchemaValue(deps[name]) {
					if err := r.walk(d, deps[name], ptr+"/dependencies/"+escapeSeg(name), res, false); err != nil {
						return err
					}
				}
			}
		}
	}
	return nil
}

func sortedKeys[V any](m map[string]V) []string {
	ks := make([]string, 0, len(m))
	for k := range m {
		ks = append(ks, k)
	}
	sort.Strings(ks)
	return ks
}

// ErrNothing reports that a reference designates nothing.
type ErrNothing struct{ Why string }

func (e ErrNothing) Error() string { return "reference designates nothing: " + e.Why }

// ResolveRef returns the location designated by ref when it occurs in a schema at from.
// dynamic reports whether the fragment names a $dynamicAnchor of the target (2020-12).
func (r *Resolver) ResolveRef(from *Loc, ref string) (target *Loc, dynName string, err error) {
	u := Resolve(from.Res.URI, ParseURI(ref))
	key := u.WithoutFragment().String()
	res := r.Resources[key]
	if res == nil {
		// remote document
		if r.LoadFail[key] {
			r.LoadCount[key]++
			return nil, "", ErrNothing{"loader error for " + key}
		}
		var text []byte
		ok := false
		if r.Load != nil {
			text, ok = r.Load(key)
		}
		r.LoadCount[key]++
		if !ok {
			return nil, "", ErrNothing{"no document at " + key}
		}
		root, perr := ParseJSON(text)
		if perr != nil {
			return nil, "", ErrNothing{"bad document at " + key}
		}
		if _, werr := r.addDoc(key, root); werr != nil {
			return nil, "", ErrNothing{werr.Error()}
		}
		res = r.Resources[key]
	}
	frag := u.Fragment
	if frag == "" {
		return res.Root, "", nil
	}
	dec, ok := PercentDecode(frag)
	if !ok {
		return nil, "", ErrNothing{"bad percent-encoding in fragment"}
	}
	if strings.HasPrefix(dec, "/") {
		l, perr := r.derefPointer(res.Root, dec)
		return l, "", perr
	}
	if l, ok := res.Anchors[dec]; ok {
		return l, "", nil
	}
	if l, ok := res.DynAnchors[dec]; ok {
		return l, dec, nil
	}
	return nil, "", ErrNothing{fmt.Sprintf("no anchor %q in %s", dec, res.URI)}
}

// derefPointer evaluates an RFC 6901 pointer on the JSON document, starting at root,
// and requires the result to be a schema location.
func (r *Resolver) derefPointer(root *Loc, ptr string) (*Loc, error) {
	segs := strings.Split(ptr[1:], "/")
	cur := root.V
	abs := root.Ptr
	for _, raw := range segs {
		seg := strings.ReplaceAll(strings.ReplaceAll(raw, "~1", "/"), "~0", "~")
		switch c := cur.(type) {
		case map[string]any:
			nx, ok := c[seg]
			if !ok {
				return nil, ErrNothing{fmt.Sprintf("no member %q", seg)}
			}
			cur = nx
		case []any:
			if seg == "" || (len(seg) > 1 && seg[0] == '0') {
				return nil, ErrNothing{fmt.Sprintf("bad array index %q", seg)}
			}
			for _, ch := range seg {
				if ch < '0' || ch > '9' {
					return nil, ErrNothing{fmt.Sprintf("bad array index %q", seg)}
				}
			}
			i, err := strconv.Atoi(seg)
			if err != nil || i >= len(c) {
				return nil, ErrNothing{fmt.Sprintf("array index %q out of range", seg)}
			}
			cur = c[i]
		default:
			return nil, ErrNothing{"pointer descends into a scalar"}
		}
		abs += "/" + escapeSeg(seg)
	}
	l, ok := root.Doc.locs[abs]
	if !ok {
		return nil, ErrNothing{fmt.Sprintf("%s#%s is not a schema location", root.Doc.Retrieval, abs)}
	}
	return l, nil
}

// AllLocs returns every schema location of a document in pointer order.
func (d *DocInfo) AllLocs() []*Loc {
	ks := sortedKeys(d.locs)
	out := make([]*Loc, len(ks))
	for i, k := range ks {
		out[i] = d.locs[k]
	}
	return out
}

// LocAt returns the schema location at pointer ptr of document d.
func (d *DocInfo) LocAt(ptr string) *Loc { return d.locs[ptr] }

// CheckAllRefs resolves every $ref/$dynamicRef reachable from the root document
// (following loads), returning the first reference that designates nothing.
func (r *Resolver) CheckAllRefs() error {
	seen := map[*DocInfo]bool{}
	var visit func(d *DocInfo) error
	visit = func(d *DocInfo) error {
		if seen[d] {
			return nil
		}
		seen[d] = true
		for _, l := range d.AllLocs() {
			m, ok := l.V.(map[string]any)
			if !ok {
				continue
			}
			for _, kw := range []string{"$ref", "$dynamicRef"} {
				if kw == "$dynamicRef" && r.Draft != Draft2020 {
					continue
				}
				if ref, ok := m[kw].(string); ok && ref != "" {
					t, _, err := r.ResolveRef(l, ref)
					if err != nil {
						return fmt.Errorf("%s %s=%q: %w", l, kw, ref, err)
					}
					if err := visit(t.Doc); err != nil {
						return err
					}
				}
			}
		}
		return nil
	}
	return visit(r.RootDoc)
}

// MapLoader adapts a map universe.
func MapLoader(u map[string][]byte) func(string) ([]byte, bool) {
	return func(uri string) ([]byte, bool) {
		b, ok := u[uri]
		return b, ok
	}
}
