// Package refsem holds the reference semantics (oracles) used by the verdict queries.
// They are written from the specifications (JSON Schema draft 2020-12 and draft-07,
// RFC 3986, RFC 6901, the documented contract of encoding/json), operate on the schema
// JSON *document* and on symbolic instance templates, and produce SMT terms; on
// concrete inputs the terms fold to constants.
package refsem

import (
	"fmt"
	"math/big"

	"verif/engine/smt"
	"verif/engine/sx"
)

// Inst is the oracle's view of an instance: a symbolic template node or a constant.
type Inst interface {
	ID() string
	TagIs(t int) *smt.Term
	Bool() *smt.Term
	NumReal() *smt.Term
	NumIsInt() *smt.Term
	// QuotIsInt returns "value / d is an integer" for a positive rational d.
	QuotIsInt(d *big.Rat) *smt.Term
	Str() *smt.Term
	// ConstStr returns the string when the instance is a constant string.
	ConstStr() (string, bool)
	Len() *smt.Term
	MaxLen() int
	Elem(i int) Inst
	Keys() []string
	Has(k int) *smt.Term
	Val(k int) Inst
	Count() *smt.Term
}

// NodeInst wraps a symbolic template node.
type NodeInst struct {
	M *sx.Machine
	N *sx.Node
}

func (n NodeInst) ID() string               { return n.N.Name }
func (n NodeInst) TagIs(t int) *smt.Term    { return n.N.TagIs(t) }
func (n NodeInst) Bool() *smt.Term          { return n.N.B }
func (n NodeInst) NumReal() *smt.Term       { return n.N.NumReal() }
func (n NodeInst) NumIsInt() *smt.Term      { return n.N.NumIsInt() }
func (n NodeInst) Str() *smt.Term           { return n.N.Str }
func (n NodeInst) Len() *smt.Term           { return n.N.Len }
func (n NodeInst) ConstStr() (string, bool) { return "", false }
func (n NodeInst) MaxLen() int              { return n.N.MaxLen() }
func (n NodeInst) Elem(i int) Inst          { return NodeInst{n.M, n.N.Elem(i)} }
func (n NodeInst) Keys() []string {
	if !n.N.CanHaveChildren() {
		return nil
	}
	return n.N.Keys()
}
func (n NodeInst) Has(k int) *smt.Term { return n.N.Present[k] }
func (n NodeInst) Val(k int) Inst      { return NodeInst{n.M, n.N.Val(k)} }
func (n NodeInst) Count() *smt.Term    { return n.N.CountPresent() }

// QuotIsInt decides integrality of value/d from the node's representation:
// value = Mant * 2^e (float kinds), an integer (integer kinds) or JN / 10^JK (json.Number).
func (n NodeInst) QuotIsInt(d *big.Rat) *smt.Term {
	c := n.M.Ctx
	nd := n.N
	num, den := d.Num(), d.Denom() // value/d = value*den/num
	// integrality of (K * X) / num for an Int term X and positive integer constant K
	divides := func(x *smt.Term, k *big.Int, extraDen *big.Int) *smt.Term {
		// (x * k) / (num * extraDen) integral
		dd := new(big.Int).Mul(num, extraDen)
		g := new(big.Int).GCD(nil, nil, dd, k)
		dd.Quo(dd, g)
		if dd.Cmp(big.NewInt(1)) == 0 {
			return c.True
		}
		return c.Eq(c.Mod(x, c.BigInt(dd)), c.Int(0))
	}
	one := big.NewInt(1)
	// float view
	var fl *smt.Term
	exps := nd.Tm.Exps
	for i := len(exps) - 1; i >= 0; i-- {
		e := exps[i]
		var t *smt.Term
		if e >= 0 {
			t = divides(nd.Mant, new(big.Int).Mul(den, new(big.Int).Lsh(one, uint(e))), one)
		} else {
			t = divides(nd.Mant, den, new(big.Int).Lsh(one, uint(-e)))
		}
		if fl == nil {
			fl = t
		} else {
			fl = c.Ite(c.Eq(nd.Esel, c.Int(int64(i))), t, fl)
		}
	}
	res := fl
	if nd.JN != nil {
		var jt *smt.Term
		p10 := []int64{1, 10, 100, 1000}
		for k := 3; k >= 0; k-- {
			t := divides(nd.JN, den, big.NewInt(p10[k]))
			if jt == nil {
				jt = t
			} else {
				jt = c.Ite(c.Eq(nd.JK, c.Int(int64(k))), t, jt)
			}
		}
		res = c.Ite(c.Eq(nd.Rep, c.Int(sx.RepJSONNumber)), jt, res)
	}
	if nd.IVal != nil {
		it := divides(nd.IVal, den, one)
		isInt := c.And(c.Le(c.Int(sx.RepInt), nd.Rep), c.Le(nd.Rep, c.Int(sx.RepUintptr)))
		res = c.Ite(isInt, it, res)
	}
	return res
}

// StrInst is a constant string instance (property names).
type StrInst struct {
	M *sx.Machine
	S string
}

func (s StrInst) ID() string                     { return "str:" + s.S }
func (s StrInst) TagIs(t int) *smt.Term          { return s.M.Ctx.Bool(t == sx.TagString) }
func (s StrInst) Bool() *smt.Term                { return s.M.Ctx.False }
func (s StrInst) NumReal() *smt.Term             { return s.M.Ctx.RatInt(0) }
func (s StrInst) NumIsInt() *smt.Term            { return s.M.Ctx.False }
func (s StrInst) QuotIsInt(d *big.Rat) *smt.Term { return s.M.Ctx.False }
func (s StrInst) Str() *smt.Term                 { return s.M.StrConst(s.S) }
func (s StrInst) Len() *smt.Term                 { return s.M.Ctx.Int(0) }
func (s StrInst) ConstStr() (string, bool)       { return s.S, true }
func (s StrInst) MaxLen() int                    { return 0 }
func (s StrInst) Elem(i int) Inst                { panic("StrInst.Elem") }
func (s StrInst) Keys() []string                 { return nil }
func (s StrInst) Has(k int) *smt.Term            { panic("StrInst.Has") }
func (s StrInst) Val(k int) Inst                 { panic("StrInst.Val") }
func (s StrInst) Count() *smt.Term               { return s.M.Ctx.Int(0) }

// ConstInst is a constant JSON value (numbers as json.Number or float64).
type ConstInst struct {
	M    *sx.Machine
	V    any
	Path string
}

func tagOfConst(v any) int {
	switch v.(type) {
	case nil:
		return sx.TagNull
	case bool:
		return sx.TagBool
	case string:
		return sx.TagString
	case []any:
		return sx.TagArray
	case map[string]any:
		return sx.TagObject
	}
	return sx.TagNumber
}

func (k ConstInst) ID() string            { return "const:" + k.Path }
func (k ConstInst) TagIs(t int) *smt.Term { return k.M.Ctx.Bool(tagOfConst(k.V) == t) }
func (k ConstInst) Bool() *smt.Term {
	b, _ := k.V.(bool)
	return k.M.Ctx.Bool(b)
}
func (k ConstInst) num() *big.Rat {
	r, ok := ratOf(k.V)
	if !ok {
		return new(big.Rat)
	}
	return r
}
func (k ConstInst) NumReal() *smt.Term { return k.M.Ctx.Rat(k.num()) }
func (k ConstInst) NumIsInt() *smt.Term {
	return k.M.Ctx.Bool(tagOfConst(k.V) == sx.TagNumber && k.num().IsInt())
}
func (k ConstInst) QuotIsInt(d *big.Rat) *smt.Term {
	q := new(big.Rat).Quo(k.num(), d)
	return k.M.Ctx.Bool(q.IsInt())
}
func (k ConstInst) Str() *smt.Term {
	s, _ := k.V.(string)
	return k.M.StrConst(s)
}
func (k ConstInst) ConstStr() (string, bool) {
	s, ok := k.V.(string)
	return s, ok
}
func (k ConstInst) Len() *smt.Term {
	a, _ := k.V.([]any)
	return k.M.Ctx.Int(int64(len(a)))
}
func (k ConstInst) MaxLen() int {
	a, _ := k.V.([]any)
	return len(a)
}
func (k ConstInst) Elem(i int) Inst {
	return ConstInst{k.M, k.V.([]any)[i], fmt.Sprintf("%s/%d", k.Path, i)}
}
func (k ConstInst) Keys() []string {
	m, _ := k.V.(map[string]any)
	return sortedKeys(m)
}
func (k ConstInst) Has(i int) *smt.Term { return k.M.Ctx.True }
func (k ConstInst) Val(i int) Inst {
	key := k.Keys()[i]
	return ConstInst{k.M, k.V.(map[string]any)[key], k.Path + "/" + key}
}
func (k ConstInst) Count() *smt.Term {
	m, _ := k.V.(map[string]any)
	return k.M.Ctx.Int(int64(len(m)))
}
