package refsem

import (
	"bytes"
	"encoding/json"

	"verif/engine/smt"
	"verif/engine/sx"
)

// O-defaults: the expected effect of ApplyDefaults, from its doc comment and C15:
// defaults are honoured only on properties that are not required; a missing property
// gets its declared default, recursively completed with nested defaults; a missing
// property without a default of its own is created only as a container that ends up
// holding at least one default; present values are left untouched (but present object
// values are completed recursively).

func requiredSet(sub map[string]any) map[string]bool {
	out := map[string]bool{}
	if req, ok := sub["required"].([]any); ok {
		for _, r := range req {
			if s, ok := r.(string); ok {
				out[s] = true
			}
		}
	}
	return out
}

func cloneJSON(v any) any {
	b, _ := json.Marshal(v)
	var out any
	dec := json.NewDecoder(bytesReader(b))
	dec.UseNumber()
	dec.Decode(&out)
	return out
}

// DefaultsExpected returns the value ApplyDefaults must insert for a missing,
// non-required property whose subschema is sub; ok is false if nothing is to be inserted.
func DefaultsExpected(sub any) (any, bool) {
	m, isObj := sub.(map[string]any)
	if !isObj {
		return nil, false
	}
	if def, ok := m["default"]; ok {
		return DefaultsComplete(m, cloneJSON(def)), true
	}
	obj := DefaultsComplete(m, map[string]any{}).(map[string]any)
	if len(obj) > 0 {
		return obj, true
	}
	return nil, false
}

// DefaultsComplete is the concrete specification of ApplyDefaults on instance v under schema sub.
func DefaultsComplete(sub map[string]any, v any) any {
	obj, ok := v.(map[string]any)
	if !ok {
		return v
	}
	props, _ := sub["properties"].(map[string]any)
	req := requiredSet(sub)
	for _, p := range sortedKeys(props) {
		ps, isSchemaObj := props[p].(map[string]any)
		if req[p] {
			continue
		}
		if cur, present := obj[p]; present {
			if isSchemaObj {
				obj[p] = DefaultsComplete(ps, cur)
			}
			continue
		}
		if e, ok := DefaultsExpected(props[p]); ok {
			obj[p] = e
		}
	}
	return obj
}

// DefaultInsertion is one (location, key) where the specification inserts a value.
type DefaultInsertion struct {
	Node  *sx.Node
	Key   string
	Cond  *smt.Term // holds exactly when the insertion is due
	Value any
}

// DefaultsSymbolic walks schema sub over the symbolic instance n and lists every due insertion.
func DefaultsSymbolic(m *sx.Machine, sub map[string]any, n *sx.Node, cond *smt.Term, out *[]DefaultInsertion) {
	c := m.Ctx
	props, _ := sub["properties"].(map[string]any)
	req := requiredSet(sub)
	if !n.CanHaveChildren() {
		// at the depth limit objects are empty: every non-required property is missing
		for _, p := range sortedKeys(props) {
			if req[p] {
				continue
			}
			if e, ok := DefaultsExpected(props[p]); ok {
				*out = append(*out, DefaultInsertion{Node: n, Key: p, Cond: c.And(cond, n.TagIs(sx.TagObject)), Value: e})
			}
		}
		return
	}
	isObj := c.And(cond, n.TagIs(sx.TagObject))
	for _, p := range sortedKeys(props) {
		if req[p] {
			continue
		}
		k := n.KeyIndex(p)
		if k < 0 {
			// the template cannot contain this key: always missing
			if e, ok := DefaultsExpected(props[p]); ok {
				*out = append(*out, DefaultInsertion{Node: n, Key: p, Cond: isObj, Value: e})
			}
			continue
		}
		if e, ok := DefaultsExpected(props[p]); ok {
			*out = append(*out, DefaultInsertion{Node: n, Key: p, Cond: c.And(isObj, c.Not(n.Present[k])), Value: e})
		}
		if ps, ok := props[p].(map[string]any); ok {
			DefaultsSymbolic(m, ps, n.Val(k), c.And(isObj, n.Present[k]), out)
		}
	}
}

func bytesReader(b []byte) *bytes.Reader { return bytes.NewReader(b) }
