#!/bin/bash
# usage: tools/seed_matrix.sh [seed-dir-name ...]        (default: every directory under /verif/seeded)
# For every kept seeded change: apply it to /repo, run the quick check of the property it breaks
# (plus the checks listed in seeded/<dir>/also, if present), undo it, and record the outcome in
# seeded/<dir>/meta.json ("checks_run") and in seeded/MATRIX.md. /repo must be clean; it is
# restored after every seed. Evidence files written during these runs are discarded.
set -u
cd /verif
export GOFLAGS=-mod=mod GOPROXY=off GOSUMDB=off GOTOOLCHAIN=local
DIRS=("$@")
if [ ${#DIRS[@]} -eq 0 ]; then DIRS=($(ls seeded | grep -v MATRIX)); fi
for D in "${DIRS[@]}"; do
  [ -f "seeded/$D/patch.diff" ] || continue
  ID=${D%%_*}
  TARGET=/repo
  if [ "${SCRATCH:-0}" = "1" ]; then
    # (while a long background run needs /repo unchanged: a scratch worktree stands in for it)
    TARGET=/tmp/wt_matrix_$$
    git -C /repo worktree remove --force "$TARGET" 2>/dev/null
    git -C /repo worktree add -q "$TARGET" HEAD || exit 2
    export VERIF_REPO="$TARGET"
  fi
  if [ -n "$(git -C $TARGET status --porcelain)" ]; then echo "$TARGET is dirty; aborting"; exit 2; fi
  if ! git -C $TARGET apply "/verif/seeded/$D/patch.diff" 2>/dev/null; then echo "$D: patch does not apply"; [ "$TARGET" != /repo ] && git -C /repo worktree remove --force "$TARGET"; continue; fi
  CHECKS="$ID"
  [ -f "seeded/$D/also" ] && CHECKS="$CHECKS $(cat seeded/$D/also)"
  RESULTS=""
  for C in $CHECKS; do
    T0=$(date +%s)
    timeout 2400 bin/check "$C" quick > "/tmp/matrix_$C.log" 2>&1
    RC=$?
    NV=$(grep -c '^VIOLATION' "/tmp/matrix_$C.log")
    F=$(grep -m1 'finding:' "/tmp/matrix_$C.log" | sed 's/^ *finding: //' | cut -c1-160 | tr '"|' "' ")
    echo "$D check $C: exit=$RC violations=$NV ($(( $(date +%s) - T0 )) s) $F"
    RESULTS="$RESULTS{\"check\":\"$C\",\"tier\":\"quick\",\"exit\":$RC,\"violation_lines\":$NV,\"seconds\":$(( $(date +%s) - T0 )),\"first_finding\":\"$F\"},"
  done
  git -C $TARGET checkout -- .
  [ "$TARGET" != /repo ] && git -C /repo worktree remove --force "$TARGET"
  git -C /verif checkout -- evidence 2>/dev/null
  find /verif/replays -name '*.json' -delete 2>/dev/null
  python3 - "$D" "[${RESULTS%,}]" <<'PY'
import json,sys,os
d,res=sys.argv[1:3]
p=f"/verif/seeded/{d}/meta.json"
meta=json.load(open(p)) if os.path.exists(p) else {"breaks_property":d.split("_")[0]}
meta["checks_run"]=json.loads(res)
json.dump(meta,open(p,"w"),indent=1)
PY
done
python3 - <<'PY'
import json,glob,os
rows=[]
for p in sorted(glob.glob("/verif/seeded/*/meta.json")):
    d=os.path.basename(os.path.dirname(p))
    m=json.load(open(p))
    notes=""
    np=os.path.join(os.path.dirname(p),"notes.txt")
    if os.path.exists(np):
        notes=open(np).read().strip().split("\n")[0][:150].replace("|","/")
    cells=[]
    for c in m.get("checks_run",[]):
        v={0:"missed",1:"caught",2:"inconclusive"}.get(c["exit"],f"exit {c['exit']}")
        cells.append(f"{c['check']}: {v}")
    rows.append(f"| {d} | {m.get('breaks_property')} | {notes} | {'; '.join(cells)} |")
open("/verif/seeded/MATRIX.md","w").write("| seed | breaks | change (first line of the author's notes) | quick checks run against it |\n|---|---|---|---|\n"+"\n".join(rows)+"\n")
PY
