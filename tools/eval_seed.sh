#!/bin/bash
# usage: tools/eval_seed.sh <ID> <k> [extra check ids...]
# Confirms a seeded change from /tmp/seed_<ID>_<k> in a scratch worktree, then applies it to
# /repo, runs the checks (quick tier), and undoes it. Results go to /verif/seeded/<ID>_<k>/.
set -u
ID=$1; K=$2; shift 2
SRC=/tmp/seed_${ID}_${K}
DST=/verif/seeded/${ID}_${K}
if [ "${ROUND:-1}" != "1" ]; then SRC=/tmp/seed${ROUND}_${ID}_${K}; DST=/verif/seeded/${ID}_r${ROUND}_${K}; fi
WT=/tmp/wt_eval_$$
export GOFLAGS=-mod=mod GOPROXY=off GOSUMDB=off GOTOOLCHAIN=local
[ -f "$SRC/patch.diff" ] || { echo "no patch in $SRC"; exit 2; }
git -C /repo worktree add -q "$WT" HEAD || exit 2
cleanup() { git -C /repo worktree remove --force "$WT" 2>/dev/null; }
trap cleanup EXIT
cd "$WT"
if ! git apply "$SRC/patch.diff"; then echo "REJECT: patch does not apply to the current /repo HEAD"; exit 3; fi
if ! go build ./... 2>/tmp/seed_build.log; then echo "REJECT: does not compile"; cat /tmp/seed_build.log; exit 3; fi
if ! go test -vet=off -count=1 ./... >/tmp/seed_suite.log 2>&1; then echo "REJECT: existing suite fails with the change"; tail -5 /tmp/seed_suite.log; exit 3; fi
cp "$SRC/demo_test.go" jsonschema/zz_seed_demo_test.go
RACE=""
grep -q "race" "$SRC/notes.txt" 2>/dev/null && RACE="-race"
DEMO=$(grep -o 'func Test[A-Za-z0-9_]*' jsonschema/zz_seed_demo_test.go | head -1 | sed 's/func //')
if go test $RACE -vet=off -count=1 -run "^${DEMO}\$" ./jsonschema >/tmp/seed_demo_with.log 2>&1; then echo "REJECT: demo passes with the change"; exit 3; fi
git apply -R "$SRC/patch.diff"
if ! go test $RACE -vet=off -count=1 -run "^${DEMO}\$" ./jsonschema >/tmp/seed_demo_without.log 2>&1; then echo "REJECT: demo fails without the change"; tail -5 /tmp/seed_demo_without.log; exit 3; fi
echo "CONFIRMED: compiles, suite passes, demo $DEMO fails with and passes without"
cd /verif
mkdir -p "$DST"
cp "$SRC/patch.diff" "$SRC/demo_test.go" "$DST/"
cp "$SRC/notes.txt" "$DST/notes.txt" 2>/dev/null
# run the checks against /repo with the change applied (SCRATCH=1: against a scratch worktree
# instead, for use while a long run needs /repo unchanged)
TARGET=/repo
if [ "${SCRATCH:-0}" = "1" ]; then
  TARGET=/tmp/wt_run_$$
  git -C /repo worktree add -q "$TARGET" HEAD || exit 2
  trap 'git -C /repo worktree remove --force '"$TARGET"' 2>/dev/null; cleanup' EXIT
  export VERIF_REPO="$TARGET"
fi
if [ -n "$(git -C $TARGET status --porcelain)" ]; then echo "$TARGET is dirty; aborting"; exit 2; fi
git -C $TARGET apply "$SRC/patch.diff" || { echo "cannot apply to $TARGET"; exit 2; }
RESULTS=""
for C in $ID "$@"; do
  timeout 2400 /verif/bin/check "$C" quick > "/tmp/seed_check_$C.log" 2>&1
  RC=$?
  NV=$(grep -c '^VIOLATION' "/tmp/seed_check_$C.log")
  echo "check $C quick: exit=$RC violations=$NV $(grep -m1 'finding:' /tmp/seed_check_$C.log | cut -c1-200)"
  RESULTS="$RESULTS{\"check\":\"$C\",\"tier\":\"quick\",\"exit\":$RC,\"violation_lines\":$NV},"
  cp "/tmp/seed_check_$C.log" "$DST/check_$C.log"
  tail -c 4000 "$DST/check_$C.log" > "$DST/check_$C.tail.log"; rm "$DST/check_$C.log"
done
git -C $TARGET checkout -- .
git -C $TARGET status --porcelain
# evidence files written during seeded runs are not evidence for the unchanged tree
git -C /verif checkout -- evidence 2>/dev/null
find /verif/replays -name '*.json' -delete 2>/dev/null
python3 - "$ID" "$K" "$DEMO" "[${RESULTS%,}]" "$SRC" "$DST" <<'PY'
import json,sys
ID,K,DEMO,res,SRC,DST=sys.argv[1:7]
meta={"breaks_property":ID,"seed":int(K),"demo_test":DEMO,
 "needs_to_manifest":open(f"{SRC}/notes.txt").read() if __import__('os').path.exists(f"{SRC}/notes.txt") else "",
 "confirmed":"in a scratch worktree of /repo HEAD: patch applies, package compiles, existing suite passes, demo fails with the change and passes without it",
 "checks_run":json.loads(res)}
json.dump(meta,open(f"{DST}/meta.json","w"),indent=1)
PY
