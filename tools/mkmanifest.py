#!/usr/bin/env python3
"""Regenerates /verif/MANIFEST.json from the table below (kept in one place so the
manifest stays valid and the not_applicable list stays current)."""
import json

TECH = "bounded symbolic execution of go/ssa + SMT (z3) verdict queries against a reference semantics"
NOTE = ("bounded: instance template depth/length/key pool, 53-bit mantissa x finite exponent set, abstract strings, one concrete "
        "schema skeleton / topology / type per query; trusted: go/ssa, the engine, the reflect/big/maphash models, the oracle "
        "(self-checked against the 2012 suite cases), z3 (unknown/error = inconclusive = failing run)")

CLAIMS = {
 "C01": ("model_checking", "For each schema skeleton of the families F-single, F-pair (thorough: F-triple, F-nest), every feasible path of the real SSA of (*Resolved).Validate over a symbolic instance template is compared by an SMT verdict query with the 2020-12 reference semantics; unsat on all paths = the verdict is right for every instance within the template bounds. Every path's model instance is also replayed natively.", "§6 C01"),
 "C02": ("model_checking", "As C01 with the draft-07 reference semantics over draft-07 skeletons ($ref with siblings, items/additionalItems, dependencies, fragment $id anchors, definitions, remote documents with/without $schema), for every instance within the template bounds.", "§6 C02"),
 "C03": ("model_checking", "Reference topologies (ids, anchors, pointer/anchor fragments, relative/absolute refs, BaseURI, loader chains/diamonds/cycles, canonical-vs-retrieval aliases) are enumerated; for each, Validate on a symbolic instance under every ref must agree with an independent resolver (own RFC 3986/6901 code) + reference semantics, Resolve must fail exactly when the oracle says a reference designates nothing, must not panic, and must call the loader at most once per URI.", "§6 C03"),
 "C06": ("model_checking", "Dynamic-scope topologies are enumerated; for each, two Validate calls on one Resolved with independent symbolic instances are compared, on every path, with the oracle's outermost-first dynamic-scope rule.", "§6 C06"),
 "C07": ("model_checking", "C01's harness over nested in-place applicators around unevaluatedProperties/unevaluatedItems (failing branches that recorded annotations, not, cousins, child locations), for every object/array instance of the template; thorough adds all map iteration orders.", "§6 C07"),
 "C08": ("model_checking", "C01's harness with the Go representation of every instance node symbolic (14 numeric kinds incl. float32/json.Number, typed slices/maps, Go arrays, named string/key types, pointer wrappers): the verdict on every path must equal the representation-independent reference verdict; panics are violations.", "§6 C08"),
 "C11": ("model_checking", "Real SSA of Equal on two independent symbolic JSON values with symbolic representations: on every path the result must equal JSON value equality (exact rational comparison of numbers, unordered objects, ordered arrays); panics are violations. Reflexivity/symmetry/transitivity follow within the bound.", "§6 C11"),
 "C12": ("model_checking", "(a) hash law: hashValue on two symbolic values under one symbolic seed, maphash modelled as a chain of uninterpreted mixing functions: JSON-equal values must hash equal for every hash function and seed; (b) uniqueItems on symbolic arrays of mixed representations: verdict <=> no two elements are JSON-equal, over all seeds and collision patterns; (c) enum/const whose listed values are themselves symbolic: verdict <=> JSON equality with a listed value.", "§6 C12"),
 "C15": ("model_checking", "ApplyDefaults (real SSA, applied twice per path) on a symbolic instance: the inserted (location, key, value) triples are compared by SMT queries with the specification's insertion conditions (never a required property, present values untouched, declared default recursively completed, created containers hold at least one default, idempotent); validateDefaults with every default value symbolic: nil exactly when each default satisfies its declaring subschema.", "§6 C15"),
 "C10": ("model_checking", "Every feasible path of the harnesses that ends in a Go panic (explicit, assert, run-time error, reflect-model panic) or exhausts the step/depth budget is a violation candidate replayed natively under recover: Validate with every numeric Schema field symbolic incl. NaN/+-Inf and the full int range, instances in mixed representations over the structural skeletons of both drafts, ApplyDefaults on arbitrary JSON-shaped instances, Resolve over the reference topologies incl. missing documents.", "§6 C10"),
 "C13": ("other", "Sufficient condition decided by symbolic execution (not by enumerating schedules): on every path of Validate (and ApplyDefaults, except for the caller's instance) no store targets memory that existed before the call (Resolved, Schema tree, side tables, package-level variables) unless through a sync.Map; calls that write only call-local memory cannot race. Violations are confirmed natively by deep before/after comparison or under the race detector. The same footprint analysis covers For/ForType with a shared ForOptions.TypeSchemas entry (real ForType executed in the engine; shared slices carry spare capacity, so in-place append/insert/copy is a write) and the process-wide field-name cache (a value stored into a sync.Map counts as published; later writes into it are violations).", "§0.3, §0.7, §6 C13"),
 "C14": ("model_checking", "(a) the no-write premise of C13 extended to the instance; (b) Validate explored under every map iteration order (up to 4 keys per range) and with a symbolic hash seed/function: every path agrees with the order-independent reference verdict, hence the verdict is a function of schema and instance; (c) the real Resolve executed in the engine on concrete documents (incl. loader-supplied diamonds in mixed drafts) with every map range forked over its iteration orders: every order yields the same bases, URIs, reference targets and anchors; (d) orderedProperties.MarshalJSON leaves its PropertyOrder list and the spare capacity behind it unchanged for every symbolic list/property set. Native scaffold observations for Resolve purity and repeated Marshal.", "§0.3, §0.7, §6 C14"),
 "C18": ("model_checking", "Non-interference by havoc: in every Schema node all documented non-asserting fields and Extra are unconstrained symbolic values while Validate runs on a symbolic instance; the reference semantics ignores them, so any influence is a satisfiable verdict query. The unknown-keyword / letter-case clause lives inside encoding/json and is covered only by a native enumeration of case variants (scaffold).", "§6 C18"),
 "C17": ("model_checking", "Kernels executed from the real SSA with symbolic byte strings: K1 escape/unescape/parse agree with RFC 6901 for all keys and pointers within the length bounds; K2 dereferenceJSONPointer on a maximal schema (first segment every field name, second segment symbolic) returns exactly the subschema RFC 6901 designates, else an error; K3 percent-encoded pointers to every location of a maximal document resolve end to end and validate against the designated subschema for every instance.", "§6 C17"),
 "C16": ("model_checking", "Tag-parsing clause: fieldJSONInfo (real SSA) vs encoding/json's own parseTag/isValidTag/tagOptions.Contains (real SSA of the standard library) on symbolic tag values: same omit decision, same name, same optionality on every path, each path class replayed against the real encoding/json. The clauses that quantify over Go types alone (fresh tree, determinism, cycles, pruning) run as a concrete scaffold over a declared type family and are reported, not solver-decided; isolation from the caller's TypeSchemas is explored by running the real ForType in the engine with the override schemas as shared pre-state (stores, appends, inserts into them and differing results are violations).", "§0.3, §0.7, §6 C16"),
 "C19": ("model_checking", "Real SSA of orderedProperties.MarshalJSON and basicChecks with symbolic property presence, symbolic PropertyOrder sequences (duplicates, absent names) and every map iteration order: emitted key sequence = listed-and-present names in list order then the rest ascending; duplicates rejected; the order list and its spare capacity are unchanged; the same holds after a Marshal that failed half-way (sync.Pool reuse forked).", "§0.3, §6 C19"),
 "C05": ("model_checking", "Behavioural equivalence of a schema and its JSON round trip decided for all instances of the template: both are resolved natively, imported, and the real Validate runs on both with one symbolic instance per path (schema documents of both drafts; Go-constructed Schema values with each exported field nil / empty / null constant / populated / nested, alone and in pairs). Kernels from the real SSA: integer.UnmarshalJSON against the 'integral and within int32' specification with encoding/json's number parsing as a contract stub; the struct+map splice and true/false folding of Schema.MarshalJSON with json.Marshal as a contract stub. Byte-identity of the second marshal, keyword survival and reproduction of a document up to the documented normalisations are native scaffold observations.", "§0.3, §6 C05"),
 "C20": ("exploration", "CloneSchemas executed from its real SSA in the engine (reflect model over the Schema struct; the package's field table computed by running its initialiser in the engine) on every tree shape of an enumerated family: each of the 23 subschema-bearing fields found from the Go types x {empty container, one node, two nodes} x a second field x a nested child; on the engine heap the clone shares no Schema object with the original, has the same shape and scalars, and shares non-schema slices; each path is repeated natively (pointer sets, titles and marshaled bytes of original and clone). There is no symbolic data, so the solver decides nothing: exploration level.", "§6 C20"),
 "C04": ("model_checking", "Types are enumerated (declared programs); per type the inferred schema is resolved natively and imported, the instance template is assumed to satisfy O-enc(T) - the encoding/json contract whose struct layer is observed on the real encoding/json by probe values - and every path of the real Validate must end in nil: covers all integers of each sized kind, nil/non-nil at every pointer and slice, every subset of omitted optional fields.", "§6 C04"),
 "C09": ("model_checking", "Per enumerated type, the instance is free; on every path with verdict nil the SMT query PC and not O-dec(T)(I) must be unsatisfiable (decoding with unknown fields disallowed; integers as integer literals within the 64-bit field's range); counterexamples are replayed with the real json.Decoder.", "§6 C09"),
}

ALL = [f"C{i:02d}" for i in range(1, 21)]
REASONS = {}

def main():
    checks = []
    for pid in ALL:
        if pid not in CLAIMS:
            continue
        cat, text, ref = CLAIMS[pid]
        checks.append({
            "property_id": pid,
            "quick_cmd": f"bin/check {pid} quick",
            "thorough_cmd": f"bin/check {pid} thorough",
            "evidence_file": f"evidence/{pid}.json",
            "replay_cmd_template": "bin/check replay {path}",
            "engine": "symgo",
            "level_claimed": {"category": cat, "text": text, "design_ref": "DESIGN.md " + ref},
            "level_note": NOTE,
            "technique": TECH if cat != "exploration" else "exhaustive in-engine execution of the real go/ssa over an enumerated shape family (no solver-decided data)",
        })
    na = [{"property_id": p, "reason": REASONS.get(p, "check not built yet in this session (work in progress; DESIGN.md §9 build order)")} for p in ALL if p not in CLAIMS]
    m = {
        "version": 1,
        "setup_cmd": "bin/check setup",
        "hooks": {
            "guard": "verif",
            "enable": "no file in /repo is changed for the machinery: the harness file /verif/overlay/zz_verif_export.go is injected into package jsonschema with `go build -overlay <file>` (bin/check writes the overlay description on every invocation; native engine binary) and packages.Config.Overlay (SSA load); the build tag name is reserved but unused. /repo carries only unguarded `fix:` commits.",
            "baseline_off_cmd": "cd /repo && go test -vet=off -count=1 ./...",
            "source_commits": [],
            "add_only": True,
        },
        "engines": [{
            "name": "symgo", "path": "engine/", "serves_properties": [c["property_id"] for c in checks],
            "kind_free_text": "bounded symbolic executor for go/ssa (re-execution forking, one z3 -in process per worker), run on the real SSA of /repo/jsonschema with symbolic JSON instances; oracles written from the specifications produce SMT terms; every counterexample is replayed natively against the real compiled package",
        }],
        "checks": checks,
        "not_applicable": na,
        "notes": "Exit codes of bin/check: 0 = every verdict query unsat and nothing inconclusive; 1 = reproduced violation (VIOLATION line); 2 = machinery problem (build failure, inconclusive/bound-exceeded path, non-reproducing counterexample).",
    }
    json.dump(m, open("/verif/MANIFEST.json", "w"), indent=1)

if __name__ == "__main__":
    main()
