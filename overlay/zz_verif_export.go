// This file is injected into package jsonschema at build time through
// `go build -overlay` / packages.Config.Overlay by the verification machinery in
// /verif. It is never written into /repo. It only adds test-only accessors and
// in-package harness kernels; it changes no existing declaration.

package jsonschema

import (
	"hash/maphash"
	"reflect"
)

// ---- accessors to unexported functions (native replay and translator validation)

func VerifEqualValue(x, y reflect.Value) bool { return equalValue(x, y) }

func VerifHashValue(seed maphash.Seed, v reflect.Value) uint64 {
	var h maphash.Hash
	h.SetSeed(seed)
	hashValue(&h, v)
	return h.Sum64()
}

func VerifJSONType(v reflect.Value) (string, bool) { return jsonType(v) }

func VerifParseJSONPointer(p string) ([]string, error) { return parseJSONPointer(p) }

func VerifDereferenceJSONPointer(s *Schema, p string) (*Schema, error) {
	return dereferenceJSONPointer(s, p)
}

func VerifEscape(s string) string   { return escapeJSONPointerSegment(s) }
func VerifUnescape(s string) string { return unescapeJSONPointerSegment(s) }

func VerifIsValidSchemaVersion(s string) bool { return isValidSchemaVersion(s) }

func VerifDraftOf(rs *Resolved) int { return int(rs.draft) }

type VerifJSONInfo struct {
	Omit     bool
	Name     string
	Settings map[string]bool
}

func VerifFieldJSONInfo(f reflect.StructField) VerifJSONInfo {
	i := fieldJSONInfo(f)
	return VerifJSONInfo{i.omit, i.name, i.settings}
}

func VerifSchemaFieldNames() []string {
	var out []string
	for _, i := range schemaFieldInfos {
		out = append(out, i.jsonName+"="+i.sf.Name)
	}
	return out
}

// Named string types for the representation templates (C08, C11, C12).
type VerifStr string
type VerifKey string

// verifHashPair hashes two values with one fresh seed (C12 hash-law kernel).
func verifHashPair(x, y any) (uint64, uint64) {
	seed := maphash.MakeSeed()
	var h1, h2 maphash.Hash
	h1.SetSeed(seed)
	hashValue(&h1, reflect.ValueOf(x))
	h2.SetSeed(seed)
	hashValue(&h2, reflect.ValueOf(y))
	return h1.Sum64(), h2.Sum64()
}

func VerifHashPairSeed(seed maphash.Seed, x, y any) (uint64, uint64) {
	var h1, h2 maphash.Hash
	h1.SetSeed(seed)
	hashValue(&h1, reflect.ValueOf(x))
	h2.SetSeed(seed)
	hashValue(&h2, reflect.ValueOf(y))
	return h1.Sum64(), h2.Sum64()
}
