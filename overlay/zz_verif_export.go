// This file is injected into package jsonschema at build time through
// `go build -overlay` / packages.Config.Overlay by the verification machinery in
// /verif. It is never written into /repo. It only adds test-only accessors and
// in-package harness kernels; it changes no existing declaration.

package jsonschema

import (
	"errors"
	"hash/maphash"
	"net/url"
	"reflect"
	"slices"
)

// ---- accessors to unexported functions (native replay and translator validation)

func VerifEqualValue(x, y reflect.Value) bool { return equalValue(x, y) }

func VerifHashValue(seed maphash.Seed, v reflect.Value) uint64 {
	var h maphash.Hash
	h.SetSeed(seed)
	hashValue(&h, v)
	return h.Sum64()
}

func VerifJSONType(v reflect.Value) (string, bool) { return jsonType(v) }

func VerifParseJSONPointer(p string) ([]string, error) { return parseJSONPointer(p) }

func VerifDereferenceJSONPointer(s *Schema, p string) (*Schema, error) {
	return dereferenceJSONPointer(s, p)
}

func VerifEscape(s string) string   { return escapeJSONPointerSegment(s) }
func VerifUnescape(s string) string { return unescapeJSONPointerSegment(s) }

func VerifIsValidSchemaVersion(s string) bool { return isValidSchemaVersion(s) }

func VerifDraftOf(rs *Resolved) int { return int(rs.draft) }

type VerifJSONInfo struct {
	Omit     bool
	Name     string
	Settings map[string]bool
}

func VerifFieldJSONInfo(f reflect.StructField) VerifJSONInfo {
	i := fieldJSONInfo(f)
	return VerifJSONInfo{i.omit, i.name, i.settings}
}

func VerifSchemaFieldNames() []string {
	var out []string
	for _, i := range schemaFieldInfos {
		out = append(out, i.jsonName+"="+i.sf.Name)
	}
	return out
}

// Named string types for the representation templates (C08, C11, C12).
type VerifStr string
type VerifKey string

// verifHashPair hashes two values with one fresh seed (C12 hash-law kernel).
func verifHashPair(x, y any) (uint64, uint64) {
	seed := maphash.MakeSeed()
	var h1, h2 maphash.Hash
	h1.SetSeed(seed)
	hashValue(&h1, reflect.ValueOf(x))
	h2.SetSeed(seed)
	hashValue(&h2, reflect.ValueOf(y))
	return h1.Sum64(), h2.Sum64()
}

func VerifHashPairSeed(seed maphash.Seed, x, y any) (uint64, uint64) {
	var h1, h2 maphash.Hash
	h1.SetSeed(seed)
	hashValue(&h1, reflect.ValueOf(x))
	h2.SetSeed(seed)
	hashValue(&h2, reflect.ValueOf(y))
	return h1.Sum64(), h2.Sum64()
}

// ---------------------------------------------------------------------------------
// In-package harness kernels. Each returns true when the property holds on its inputs.
// The engine executes them from their SSA with symbolic arguments; natively they are
// ordinary functions (used to replay counterexamples).

// verifRefUnescape is RFC 6901 section 4: first "~1" -> "/", then "~0" -> "~".
func verifRefUnescape(s string) string {
	out := ""
	for i := 0; i < len(s); i++ {
		if s[i] == '~' && i+1 < len(s) && s[i+1] == '1' {
			out += "/"
			i++
		} else {
			out += string(s[i])
		}
	}
	out2 := ""
	for i := 0; i < len(out); i++ {
		if out[i] == '~' && i+1 < len(out) && out[i+1] == '0' {
			out2 += "~"
			i++
		} else {
			out2 += string(out[i])
		}
	}
	return out2
}

// verifRefSplit splits a pointer that starts with '/' into raw reference tokens.
func verifRefSplit(p string) []string {
	var segs []string
	cur := ""
	for i := 1; i < len(p); i++ {
		if p[i] == '/' {
			segs = append(segs, cur)
			cur = ""
		} else {
			cur += string(p[i])
		}
	}
	return append(segs, cur)
}

// VerifKernelEscapeRoundTrip: unescape(escape(k)) == k and parse("/"+escape(k)) == [k].
func VerifKernelEscapeRoundTrip(k string) bool {
	e := escapeJSONPointerSegment(k)
	for i := 0; i < len(e); i++ {
		if e[i] == '/' {
			return false // an escaped segment never contains a slash
		}
	}
	if unescapeJSONPointerSegment(e) != k {
		return false
	}
	segs, err := parseJSONPointer("/" + e)
	return err == nil && len(segs) == 1 && segs[0] == k
}

// VerifKernelParse: for a pointer "/"+rest, parseJSONPointer yields exactly the RFC 6901 tokens.
func VerifKernelParse(rest string) bool {
	p := "/" + rest
	got, err := parseJSONPointer(p)
	if err != nil {
		return false
	}
	raw := verifRefSplit(p)
	if len(got) != len(raw) {
		return false
	}
	for i := range raw {
		if got[i] != verifRefUnescape(raw[i]) {
			return false
		}
	}
	return true
}

// VerifKernelParseNoSlash: a non-empty pointer that does not start with '/' is an error; "" is the root.
func VerifKernelParseNoSlash(p string) bool {
	segs, err := parseJSONPointer(p)
	if p == "" {
		return err == nil && len(segs) == 0
	}
	if p[0] != '/' {
		return err != nil
	}
	return err == nil
}

// ---- C17-K2: dereferenceJSONPointer on a maximal schema

var verifMapKeys = []string{"", "/", "~", "~0", "~1", "%", " ", "é", "0", "-", "a/b", "a", "01", "+1"}

func verifRefEscape(k string) string {
	out := ""
	for i := 0; i < len(k); i++ {
		switch k[i] {
		case '~':
			out += "~0"
		case '/':
			out += "~1"
		default:
			out += string(k[i])
		}
	}
	return out
}

// kinds: 1 single subschema, 2 array of subschemas (length 2), 3 map of subschemas
func verifMaxKinds(variant int) map[string]int {
	m := map[string]int{
		"additionalProperties": 1, "propertyNames": 1, "contains": 1, "not": 1, "if": 1, "then": 1, "else": 1,
		"allOf": 2, "anyOf": 4, "oneOf": 2, // anyOf is the long array (verifLongLen members)
		"properties": 3, "patternProperties": 3,
	}
	if variant == 0 { // draft 2020-12 shape
		m["unevaluatedProperties"], m["unevaluatedItems"], m["contentSchema"], m["items"] = 1, 1, 1, 1
		m["prefixItems"] = 2
		m["$defs"], m["dependentSchemas"] = 3, 3
	} else { // draft-07 shape
		m["additionalItems"] = 1
		m["items"] = 2
		m["definitions"], m["dependencies"] = 3, 3
	}
	return m
}

func verifMaximalSchema(variant int) *Schema {
	mk := func(title string) *Schema { return &Schema{Title: title} }
	single := func(kw string) *Schema {
		s := mk("/" + kw)
		s.Not = mk("/" + kw + "/not")
		return s
	}
	arr := func(kw string) []*Schema { return []*Schema{mk("/" + kw + "/0"), mk("/" + kw + "/1")} }
	mp := func(kw string) map[string]*Schema {
		m := map[string]*Schema{}
		for _, k := range verifMapKeys {
			m[k] = mk("/" + kw + "/" + verifRefEscape(k))
		}
		return m
	}
	s := &Schema{Title: "root", Type: "object", Required: []string{"a"}, Enum: []any{1}}
	s.AdditionalProperties, s.PropertyNames, s.Contains, s.Not = single("additionalProperties"), single("propertyNames"), single("contains"), single("not")
	s.If, s.Then, s.Else = single("if"), single("then"), single("else")
	s.AllOf, s.OneOf = arr("allOf"), arr("oneOf")
	for i := 0; i < verifLongLen; i++ {
		s.AnyOf = append(s.AnyOf, mk("/anyOf/"+verifItoa(i)))
	}
	s.Properties, s.PatternProperties = mp("properties"), mp("patternProperties")
	if variant == 0 {
		s.UnevaluatedProperties, s.UnevaluatedItems, s.ContentSchema, s.Items = single("unevaluatedProperties"), single("unevaluatedItems"), single("contentSchema"), single("items")
		s.PrefixItems = arr("prefixItems")
		s.Defs, s.DependentSchemas = mp("$defs"), mp("dependentSchemas")
	} else {
		s.AdditionalItems = single("additionalItems")
		s.ItemsArray = arr("items")
		s.Definitions, s.DependencySchemas = mp("definitions"), mp("dependencies")
		s.DependencyStrings = map[string][]string{"zz": {"a"}}
	}
	return s
}

// verifRefDeref is the RFC 6901 reading of "/"+seg1+"/"+seg2 (seg2 absent if hasSeg2 is
// false) on the maximal schema's JSON document: the marker of the designated subschema,
// or "" when the pointer designates no subschema.
func verifRefDeref(variant int, seg1 string, hasSeg2 bool, seg2 string) string {
	k := verifRefUnescape(seg1)
	kind := verifMaxKinds(variant)[k]
	if !hasSeg2 {
		if kind == 1 {
			return "/" + k
		}
		return ""
	}
	t := verifRefUnescape(seg2)
	switch kind {
	case 1:
		if t == "not" {
			return "/" + k + "/not"
		}
	case 2:
		// array index: "0" or a non-zero digit followed by digits, within bounds
		if t == "0" {
			return "/" + k + "/0"
		}
		if t == "1" {
			return "/" + k + "/1"
		}
	case 3:
		for _, key := range verifMapKeys {
			if key == t {
				return "/" + k + "/" + verifRefEscape(key)
			}
		}
	case 4:
		// array index (RFC 6901 section 4): "0", or a digit 1-9 followed by digits; within bounds
		if len(t) == 0 || len(t) > 4 || (len(t) > 1 && t[0] == '0') {
			return ""
		}
		n := 0
		for i := 0; i < len(t); i++ {
			if t[i] < '0' || t[i] > '9' {
				return ""
			}
			n = n*10 + int(t[i]-'0')
		}
		for i := 0; i < verifLongLen; i++ {
			if n == i {
				return "/" + k + "/" + verifItoa(i)
			}
		}
	}
	return ""
}

const verifLongLen = 12

func verifItoa(i int) string {
	if i >= 10 {
		return string(rune('0'+i/10)) + string(rune('0'+i%10))
	}
	return string(rune('0' + i))
}

// VerifKernelDeref: dereferenceJSONPointer designates exactly what RFC 6901 designates.
func VerifKernelDeref(variant int, seg1 string, hasSeg2 bool, seg2 string) bool {
	s := verifMaximalSchema(variant)
	p := "/" + seg1
	if hasSeg2 {
		p += "/" + seg2
	}
	got, err := dereferenceJSONPointer(s, p)
	want := verifRefDeref(variant, seg1, hasSeg2, seg2)
	if want == "" {
		return err != nil
	}
	return err == nil && got != nil && got.Title == want
}

// ---- C02b: the $schema switch, through the real Resolve and Validate

func VerifKernelSchemaVersion(v string) bool {
	s := &Schema{Schema: v}
	rs, err := s.Resolve(nil)
	if err != nil {
		return false
	}
	verr := rs.Validate(1.0)
	supported := v == "" || v == "http://json-schema.org/draft-07/schema#" || v == "https://json-schema.org/draft-07/schema#" || v == "https://json-schema.org/draft/2020-12/schema"
	if supported != (verr == nil) {
		return false
	}
	isD7 := v == "http://json-schema.org/draft-07/schema#" || v == "https://json-schema.org/draft-07/schema#"
	return (rs.draft == draft7) == isD7
}

// ---- C19: Marshal order of "properties"

// VerifKernelPropertyOrder: props = subset of {a,b,a!,B}; order = sequence over {a,b,a!,B,z}
// (z names no property; duplicates allowed). Duplicates are rejected by basicChecks;
// otherwise the emitted key sequence is: listed-and-present names in list order, then
// the remaining names ascending.
func VerifKernelPropertyOrder(pa, pb, pc, pd bool, order string) bool {
	// the letter c stands for the name "a!" ("a" is a proper prefix of it and '!' sorts below the
	// closing quote of an encoded name); B differs from b only in letter case; z names no property
	name := func(c byte) string {
		if c == 'c' {
			return "a!"
		}
		return string(c)
	}
	props := map[string]*Schema{}
	if pa {
		props["a"] = &Schema{}
	}
	if pb {
		props["b"] = &Schema{}
	}
	if pc {
		props["a!"] = &Schema{}
	}
	if pd {
		props["B"] = &Schema{}
	}
	// the list has spare capacity (as a list built by append has): Marshal must leave the
	// list and the memory behind it alone
	ord := make([]string, 0, len(order)+2)
	for i := 0; i < len(order); i++ {
		ord = append(ord, name(order[i]))
	}
	s := &Schema{Properties: props, PropertyOrder: ord}
	dup := false
	for i := 0; i < len(order); i++ {
		for j := i + 1; j < len(order); j++ {
			if order[i] == order[j] {
				dup = true
			}
		}
	}
	err := s.basicChecks()
	if dup {
		return err != nil
	}
	if err != nil {
		return false
	}
	bs, err := orderedProperties{props: props, order: ord}.MarshalJSON()
	if err != nil {
		return false
	}
	for i := range ord {
		if ord[i] != name(order[i]) {
			return false
		}
	}
	for _, x := range ord[len(ord):cap(ord)] {
		if x != "" {
			return false
		}
	}
	// expected key sequence: listed-and-present names in list order, then the rest ascending
	present := func(c byte) bool {
		switch c {
		case 'a':
			return pa
		case 'b':
			return pb
		case 'c':
			return pc
		case 'B':
			return pd
		}
		return false
	}
	var want []string
	for i := 0; i < len(order); i++ {
		if present(order[i]) {
			want = append(want, name(order[i]))
		}
	}
	for _, c := range []byte("Bacb") { // the names B < a < a! < b in ascending byte order
		if !present(c) {
			continue
		}
		listed := false
		for i := 0; i < len(order); i++ {
			if order[i] == c {
				listed = true
			}
		}
		if !listed {
			want = append(want, name(c))
		}
	}
	// every value is the literal true
	exp := "{"
	for i := 0; i < len(want); i++ {
		if i > 0 {
			exp += ","
		}
		exp += "\"" + want[i] + "\":true"
	}
	exp += "}"
	return string(bs) == exp
}

// ---- C14: what Resolve computed, in a canonical rendering

// verifOrdersOff is intercepted by the engine: from here on map ranges are no longer
// forked over iteration orders (the rendering below is order-independent by construction).
func verifOrdersOff() {}

// VerifResolveSummary resolves s and renders every result of resolution that Validate
// consults (bases, URIs, $ref / $dynamicRef targets, anchors, the URI table) keyed by the
// JSON Pointer path of each subschema. A function of s alone if Resolve is deterministic.
func VerifResolveSummary(s *Schema) string { return verifResolveSummary(s, nil) }

// VerifResolveSummaryWith is VerifResolveSummary with a loader that serves docs (URI -> parsed
// document) and the base URI http://h/root.json.
func VerifResolveSummaryWith(s *Schema, docs map[string]*Schema) string {
	return verifResolveSummary(s, &ResolveOptions{BaseURI: "http://h/root.json", Loader: func(uri *url.URL) (*Schema, error) {
		d := docs[uri.String()]
		if d == nil {
			return nil, errors.New("no such document")
		}
		return d, nil
	}})
}

func verifResolveSummary(s *Schema, opts *ResolveOptions) string {
	rs, err := s.Resolve(opts)
	verifOrdersOff()
	if err != nil {
		return "error"
	}
	pathOf := func(t *Schema) string {
		if t == nil {
			return "-"
		}
		if info := rs.resolvedInfos[t]; info != nil {
			return "@" + info.path
		}
		return "remote:" + t.Title // a schema of a loaded document, identified by its title
	}
	var lines []string
	for t := range s.all() {
		info := rs.resolvedInfos[t]
		if info == nil {
			lines = append(lines, "missing-info")
			continue
		}
		l := info.path + " base=" + pathOf(info.base)
		if info.uri != nil {
			l += " uri=" + info.uri.String()
		}
		l += " ref=" + pathOf(info.resolvedRef) + " dynref=" + pathOf(info.resolvedDynamicRef) + " dynanchor=" + info.dynamicRefAnchor
		var as []string
		for name, a := range info.anchors {
			d := "plain"
			if a.dynamic {
				d = "dynamic"
			}
			as = append(as, name+":"+d+":"+pathOf(a.schema))
		}
		slices.Sort(as)
		for _, a := range as {
			l += " anchor=" + a
		}
		lines = append(lines, l)
	}
	var us []string
	for u, t := range rs.resolvedURIs {
		us = append(us, "uri "+u+" -> "+pathOf(t))
	}
	slices.Sort(us)
	slices.Sort(lines)
	out := ""
	for _, l := range lines {
		out += l + "\n"
	}
	for _, l := range us {
		out += l + "\n"
	}
	return out
}

// ---- C13/C16: For with a caller-supplied TypeSchemas entry that stays shared

type verifOver struct{ X int }

type verifHolder struct {
	P *verifOver  `json:"p"`
	Q *verifOver  `json:"q"`
	R []verifOver `json:"r,omitempty"`
	S verifOver   `json:"s"`
}

func verifSameStrings(a, b []string) bool {
	if len(a) != len(b) {
		return false
	}
	for i := range a {
		if a[i] != b[i] {
			return false
		}
	}
	return true
}

// VerifKernelForShared infers the schema of verifHolder twice with the same options, whose
// TypeSchemas entry for verifOver is the caller's schema o. For must not write to o (the
// engine reports stores into it) and both calls, and both pointer fields within one call,
// must see the same override.
func VerifKernelForShared(o *Schema) bool {
	t := reflect.TypeFor[verifHolder]()
	opts := &ForOptions{TypeSchemas: map[reflect.Type]*Schema{reflect.TypeFor[verifOver](): o}}
	s1, err := ForType(t, opts)
	if err != nil {
		return false
	}
	s2, err := ForType(t, opts)
	if err != nil {
		return false
	}
	for _, s := range []*Schema{s1, s2} {
		p, q, v := s.Properties["p"], s.Properties["q"], s.Properties["s"]
		if p == nil || q == nil || v == nil || p == o || q == o || v == o || p == q {
			return false
		}
		if p.Type != q.Type || !verifSameStrings(p.Types, q.Types) {
			return false
		}
		if v.Type != o.Type || !verifSameStrings(v.Types, o.Types) {
			return false
		}
		// subschemas of the override are copied too
		for _, r := range []*Schema{p, q, v} {
			if (o.Items != nil && r.Items == o.Items) || (o.Not != nil && r.Not == o.Not) {
				return false
			}
			for k, ps := range o.Properties {
				if r.Properties[k] == ps {
					return false
				}
			}
		}
	}
	return verifSameStrings(s1.Properties["p"].Types, s2.Properties["p"].Types) && s1.Properties["p"].Type == s2.Properties["p"].Type
}

// ---- C13: process-wide caches

// VerifKernelJSONNamesCache fills the field-name cache used by Marshal/Unmarshal from cold and
// reads it again. The engine reports any write into the cached map after it was published
// through the sync.Map (a concurrent reader would race with it and could see a partial set).
func VerifKernelJSONNamesCache() bool {
	t := reflect.TypeFor[Schema]()
	m1 := jsonNames(t)
	m2 := jsonNames(t)
	if len(m1) == 0 || len(m1) != len(m2) {
		return false
	}
	return m1["title"] && m1["$ref"] && m1["properties"] && !m1["Title"] && !m1["no-such-keyword"]
}

// ---- C19/C14: a failed Marshal leaves nothing behind

// VerifFailTitle marks a property schema whose marshaling fails (natively: an unmarshalable
// Extra value; in the engine json.Marshal of such a *Schema is stubbed to return an error).
const VerifFailTitle = "verif-fail"

func verifFailingSchema() *Schema {
	return &Schema{Title: VerifFailTitle, Extra: map[string]any{"x": func() {}}}
}

// VerifKernelPropertyOrderAfterFailure first marshals properties {a: <fails>, b, c, d: {}} with
// order [b, c, a] (b and c are written, then a fails), checks that the call fails, and then
// demands everything VerifKernelPropertyOrder demands: the earlier failed call must have no
// influence on a later one.
func VerifKernelPropertyOrderAfterFailure(pa, pb, pc, pd bool, order string) bool {
	props := map[string]*Schema{"a": verifFailingSchema(), "b": {}, "c": {}, "d": {}}
	if _, err := (orderedProperties{props: props, order: []string{"b", "c", "a"}}).MarshalJSON(); err == nil {
		return false
	}
	return VerifKernelPropertyOrder(pa, pb, pc, pd, order)
}

// VerifKernelDerefBigIndex: an array index written with the digits prefix+tail, far beyond
// the array (and around the limits of the integer types), designates nothing.
func VerifKernelDerefBigIndex(prefix, tail string) bool {
	return VerifKernelDeref(0, "anyOf", true, prefix+tail)
}

// ---- C11: slices that share memory

// VerifKernelEqualAliased: two slices over one backing array (s and s[:k], s[i:]) denote
// different JSON arrays unless they have the same elements; sharing memory must not make
// them equal, alone or nested in containers.
func VerifKernelEqualAliased() bool {
	s := []any{1.0, "a", true, nil}
	ints := []int{7, 7, 7}
	strs := []string{"x", "y"}
	for k := 0; k <= len(s); k++ {
		want := k == len(s)
		if Equal(s, s[:k]) != want || Equal(s[:k], s) != want {
			return false
		}
		if Equal([]any{s}, []any{s[:k]}) != want {
			return false
		}
		if Equal(map[string]any{"x": s}, map[string]any{"x": s[:k]}) != want {
			return false
		}
	}
	for k := 0; k <= len(ints); k++ {
		if Equal(ints, ints[:k]) != (k == len(ints)) {
			return false
		}
	}
	for k := 0; k <= len(strs); k++ {
		if Equal(strs, strs[:k]) != (k == len(strs)) {
			return false
		}
	}
	// same length, same memory, and an alias that starts later
	if !Equal(s, s[:len(s):len(s)]) || !Equal(ints[1:], ints[:2]) || Equal(s[1:], s[:3]) {
		return false
	}
	// distinct memory, same contents
	return Equal(s[:2], []any{1.0, "a"}) && Equal(ints[:2], []int{7, 7})
}

// ---- C12: one JSON array in several Go representations under uniqueItems

// VerifKernelUniqueMixedReps: [x, y] with x = []byte{a, b} and y the same JSON array held in
// another Go representation is never unique, in either order; two different arrays are.
func VerifKernelUniqueMixedReps(a, b int) bool {
	if a < 0 || a > 255 || b < 0 || b > 255 {
		return true
	}
	rs, err := (&Schema{UniqueItems: true}).Resolve(nil)
	if err != nil {
		return false
	}
	x := []byte{byte(a), byte(b)}
	for _, y := range []any{[]any{float64(a), float64(b)}, []int{a, b}, []float64{float64(a), float64(b)}, [2]uint8{uint8(a), uint8(b)}, []uint8{uint8(a), uint8(b)}} {
		if rs.Validate([]any{x, y}) == nil || rs.Validate([]any{y, x}) == nil {
			return false
		}
	}
	if rs.Validate([]any{x, []any{float64(a), float64(b + 1)}}) != nil {
		return false
	}
	return true
}
